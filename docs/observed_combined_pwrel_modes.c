#include <stdio.h>
#include <stdlib.h>
#include <string.h>
#include <math.h>
#include "sz.h"
#define N 4096
static float data[N];
int main(int argc, char** argv){
  int mode = argc>1?atoi(argv[1]):ABS_AND_PW_REL;
  for(int i=0;i<N;i++){ data[i]=(float)(10*sin(0.01*i)+ 20.0);}
  SZ_Init(NULL);
  size_t sz=0; unsigned char* b = SZ_compress_args(SZ_FLOAT, data, &sz, mode, 1e-2, 1e-3, 1e-2, 0,0,0,0,N);
  printf("mode %d: size %zu\n", mode, sz);
  float* d = SZ_decompress(SZ_FLOAT, b, sz, 0,0,0,0,N);
  double mr=0, ma=0; for(int i=0;i<N;i++){double e=fabs((double)d[i]-data[i]); if(e>ma)ma=e; if(data[i]!=0){double r=e/fabs(data[i]); if(r>mr)mr=r;}}
  printf("max abs err %g, max rel err %g\n", ma, mr);
  return 0;
}
