From Coq Require Import ZArith List Bool String Lia.
Import ListNotations.
Require Import SZV.Model.Conf.
Local Open Scope string_scope.
Local Open Scope Z_scope.

Definition tbl_ok (tbl:list (string * Z)) : bool :=
  forallb (fun q => match match_str (name_of tbl (snd q)) tbl with Some w => w =? snd q | None => false end) tbl.

(* writing a table value by its name and reading the name back gives the value *)
Lemma tbl_roundtrip tbl v : tbl_ok tbl = true -> existsb (fun q => snd q =? v) tbl = true ->
  match_str (name_of tbl v) tbl = Some v.
Proof.
  unfold tbl_ok. intros T E. apply existsb_exists in E as (q & Hq & Hv). apply Z.eqb_eq in Hv. subst v.
  rewrite forallb_forall in T. specialize (T q Hq).
  destruct (match_str (name_of tbl (snd q)) tbl) as [w|]; [|discriminate]. apply Z.eqb_eq in T. now subst.
Qed.

Lemma szmode_ok : tbl_ok szmode_tbl = true. Proof. vm_compute. reflexivity. Qed.
Lemma gzip_ok : tbl_ok gzip_tbl = true. Proof. vm_compute. reflexivity. Qed.
Lemma lossless_ok : tbl_ok lossless_tbl = true. Proof. vm_compute. reflexivity. Qed.
Lemma sol_ok : tbl_ok sol_tbl = true. Proof. vm_compute. reflexivity. Qed.
Lemma ebmode_ok : tbl_ok ebmode_tbl = true. Proof. vm_compute. reflexivity. Qed.
Lemma pwr_ok : tbl_ok pwr_tbl = true. Proof. vm_compute. reflexivity. Qed.
(* the zstd table maps two names to level 3: the name written for 3 reads back as 3 *)
Lemma zstd_ok : tbl_ok zstd_tbl = true. Proof. vm_compute. reflexivity. Qed.

Lemma in01 v : (v =? 0) || (v =? 1) = true -> v = 0 \/ v = 1.
Proof. intro H. apply orb_true_iff in H as [H|H]; apply Z.eqb_eq in H; auto. Qed.

(* File-based initialisation from the file that spells out a parameter structure equals programmatic
   initialisation with that structure: every field of the resulting state, including the derived
   quantisation state. *)
Theorem file_equals_programmatic p : expressible p = true -> read_conf (to_conf p) = init_params p.
Proof.
  unfold expressible. rewrite !andb_true_iff.
  intros [[[[[[[[[Hsol Hmqi] Hqi] Hmode] Hll] Hreg] Hprot] Hlev] Heb] Hpwr].
  apply in01 in Hll. apply in01 in Hreg. apply in01 in Hprot.
  assert (Hs: sol_ID p = 101 \/ sol_ID p = 104) by (apply orb_true_iff in Hsol as [H|H]; apply Z.eqb_eq in H; auto).
  assert (Hm: existsb (fun q => snd q =? szMode p) szmode_tbl = true).
  { rewrite !orb_true_iff in Hmode. destruct Hmode as [[H|H]|H]; apply Z.eqb_eq in H; rewrite H; reflexivity. }
  apply Z.ltb_lt in Hmqi. apply Z.leb_le in Hqi.
  unfold read_conf, init_params, to_conf, get_str, get_int, get_dbl, get_flt, bind.
  destruct Hll as [Hl|Hl]; rewrite Hl in *; cbn [Z.eqb Pos.eqb orb] in *;
  cbn [lookup String.eqb Ascii.eqb Bool.eqb andb];
  rewrite (tbl_roundtrip szmode_tbl _ szmode_ok Hm), (tbl_roundtrip ebmode_tbl _ ebmode_ok Heb), (tbl_roundtrip pwr_tbl _ pwr_ok Hpwr);
  [rewrite (tbl_roundtrip gzip_tbl _ gzip_ok Hlev)|rewrite (tbl_roundtrip zstd_tbl _ zstd_ok Hlev)];
  destruct Hs as [Hs|Hs]; rewrite Hs; cbn [name_of find sol_tbl snd fst Z.eqb Pos.eqb match_str String.eqb Ascii.eqb Bool.eqb andb endian_tbl lossless_tbl gzip_tbl zstd_tbl];
  destruct Hreg as [Hr|Hr]; rewrite Hr; destruct Hprot as [Hp|Hp]; rewrite Hp; cbn [Z.eqb Pos.eqb String.eqb Ascii.eqb Bool.eqb andb orb];
  destruct (Z.ltb_spec 0 (max_quant_intervals p)); try lia;
  destruct (Z.ltb_spec 0 (quantization_intervals p)); destruct (negb (Z.rem (quantization_intervals p) 2 =? 0)); try reflexivity.
Qed.

(* rejections *)
Theorem odd_interval_count_rejected c : Z.rem (get_int c "parameter:quantization_intervals" 0) 2 <> 0 -> read_conf c = None.
Proof.
  intro H. unfold read_conf, bind.
  destruct (get_str c "env:dataendiantype" _) as [e|]; [|reflexivity]. destruct (match_str e endian_tbl); [|reflexivity].
  destruct (get_str c "env:sol_name" _) as [sn|]; [|reflexivity]. destruct (match_str sn sol_tbl) as [sol|]; [|reflexivity].
  destruct (sol =? 103); [reflexivity|].
  destruct (0 <? get_int c "parameter:quantization_intervals" 0);
  (destruct (Z.eqb_spec (Z.rem (get_int c "parameter:quantization_intervals" 0) 2) 0); [contradiction|reflexivity]).
Qed.

Definition validated_keys : list (string * list (string * Z)) :=
  [("parameter:szmode", szmode_tbl); ("parameter:losslesscompressor", lossless_tbl); ("parameter:gzipmode", gzip_tbl);
   ("parameter:zstdmode", zstd_tbl); ("parameter:errorboundmode", ebmode_tbl); ("parameter:pwr_type", pwr_tbl);
   ("env:sol_name", sol_tbl); ("env:dataendiantype", endian_tbl)].

Ltac step := match goal with
  | |- context [match ?o with Some _ => _ | None => None end] => destruct o eqn:?; [|reflexivity]
  | |- (if ?b then None else _) = None => destruct b; [reflexivity|]
  | |- context [if (0 <? ?q) then _ else _] => destruct (0 <? q)
  end.

(* an unknown value for a validated key makes initialisation fail *)
Theorem unknown_value_rejected c k tbl s : In (k, tbl) validated_keys ->
  lookup k c = Some (VS s) -> match_str s tbl = None -> read_conf c = None.
Proof.
  intros Hin Hl Hm. unfold validated_keys in Hin. cbn [In] in Hin.
  unfold read_conf, bind, get_str.
  repeat (destruct Hin as [Hin|Hin]; [inversion Hin; subst k tbl; clear Hin|]); try contradiction;
  rewrite ?Hl; repeat (first [rewrite Hm; reflexivity | rewrite Hl | step]).
Qed.

(* the level key that belongs to the selected lossless back end governs *)
Theorem selected_level_key_governs c st : read_conf c = Some st ->
  (losslessCompressor st = 1 -> exists z, get_str c "parameter:zstdmode" (Some "Zstd_HIGH_SPEED") = Some z /\ match_str z zstd_tbl = Some (gzipMode st)) /\
  (losslessCompressor st <> 1 -> exists g, get_str c "parameter:gzipmode" (Some "Gzip_BEST_SPEED") = Some g /\ match_str g gzip_tbl = Some (gzipMode st)).
Proof.
  unfold read_conf, bind. intro H.
  repeat match type of H with
  | context [match ?o with Some _ => _ | None => None end] => destruct o eqn:?; [|discriminate]
  | (if ?b then None else _) = Some _ => destruct b eqn:?; [discriminate|]
  | context [if (0 <? ?q) then _ else _] => destruct (0 <? q)
  end.
  all: inversion H; subst st; clear H; cbn [losslessCompressor gzipMode]; split; intro L.
  all: try (rewrite L; cbn [Z.eqb Pos.eqb]; eauto; fail).
  all: match goal with |- context [?l =? 1] => destruct (Z.eqb_spec l 1) end; [contradiction|]; eauto.
Qed.
