From Coq Require Import ZArith List Bool Lia.
Import ListNotations.
Require Import SZV.Base.CSem SZV.Gen.SrcFuns SZV.Model.Dims SZV.Proofs.Dims_proofs.
Local Open Scope Z_scope.

(* ---------- element count ---------- *)
Lemma wrapu_small z : 0 <= z < 2 ^ 64 -> wrapu 64 z = z.
Proof. intro H. unfold wrapu. apply Z.mod_small. exact H. Qed.

Lemma small_mul a b k : 0 <= a < 2 ^ k -> 0 <= b < 2 ^ 12 -> 0 <= k -> 0 <= a * b < 2 ^ (k + 12).
Proof. intros. rewrite Z.pow_add_r by lia. nia. Qed.

Lemma cdl_product r5 r4 r3 r2 r1 : wf r5 r4 r3 r2 r1 ->
  c_computeDataLength r5 r4 r3 r2 r1 = product (dims_of r5 r4 r3 r2 r1).
Proof.
  unfold wf, small. intros (H5 & H4 & H3 & H2 & H1 & Hp & Z2 & Z3 & Z4).
  assert (B2: 0 <= r1 * r2 < 2 ^ 24) by (apply (small_mul r1 r2 12); lia).
  assert (B3: 0 <= r1 * r2 * r3 < 2 ^ 36) by (apply (small_mul (r1 * r2) r3 24); lia).
  assert (B4: 0 <= r1 * r2 * r3 * r4 < 2 ^ 48) by (apply (small_mul (r1 * r2 * r3) r4 36); lia).
  assert (B5: 0 <= r1 * r2 * r3 * r4 * r5 < 2 ^ 60) by (apply (small_mul (r1 * r2 * r3 * r4) r5 48); lia).
  assert (P24: 2 ^ 24 < 2 ^ 64) by (apply Z.pow_lt_mono_r; lia).
  assert (P36: 2 ^ 36 < 2 ^ 64) by (apply Z.pow_lt_mono_r; lia).
  assert (P48: 2 ^ 48 < 2 ^ 64) by (apply Z.pow_lt_mono_r; lia).
  assert (P60: 2 ^ 60 < 2 ^ 64) by (apply Z.pow_lt_mono_r; lia).
  unfold c_computeDataLength. cbv zeta.
  rewrite (wrapu_small (r1 * r2)) by lia. rewrite (wrapu_small (r1 * r2 * r3)) by lia.
  rewrite (wrapu_small (r1 * r2 * r3 * r4)) by lia. rewrite (wrapu_small (r1 * r2 * r3 * r4 * r5)) by lia.
  unfold dims_of, present, product.
  assert (Hs: (r2 = 0 /\ r3 = 0 /\ r4 = 0 /\ r5 = 0) \/ (r2 <> 0 /\ r3 = 0 /\ r4 = 0 /\ r5 = 0) \/
              (r2 <> 0 /\ r3 <> 0 /\ r4 = 0 /\ r5 = 0) \/ (r2 <> 0 /\ r3 <> 0 /\ r4 <> 0 /\ r5 = 0) \/
              (r2 <> 0 /\ r3 <> 0 /\ r4 <> 0 /\ r5 <> 0)) by lia.
  destruct Hs as [(-> & -> & -> & ->)|[(N2 & -> & -> & ->)|[(N2 & N3 & -> & ->)|[(N2 & N3 & N4 & ->)|(N2 & N3 & N4 & N5)]]]].
  all: finish; ring.
Qed.

Lemma product_squeeze l : product (squeeze l) = product l.
Proof.
  unfold squeeze, product. induction l as [|x l IH]; [reflexivity|].
  cbn [filter fold_right]. destruct (Z.eqb_spec x 1) as [->|N]; cbn [negb fold_right]; rewrite IH; ring.
Qed.

Lemma product_canon l : product (canon l) = product l.
Proof.
  unfold canon. pose proof (product_squeeze l) as H. destruct (squeeze l); [cbn in *; lia|exact H].
Qed.

(* the filtered tuple denotes the same number of elements *)
Theorem filter_preserves_length r5 r4 r3 r2 r1 : wf r5 r4 r3 r2 r1 ->
  dispatch_len r5 r4 r3 r2 r1 = c_computeDataLength r5 r4 r3 r2 r1.
Proof.
  intro W. unfold dispatch_len. pose proof (filter_squeezes r5 r4 r3 r2 r1 W) as F.
  destruct (filtered r5 r4 r3 r2 r1) as [[[[f5 f4] f3] f2] f1]. destruct F as [F W'].
  rewrite (cdl_product _ _ _ _ _ W'), (cdl_product _ _ _ _ _ W), F. apply product_canon.
Qed.

(* ---------- dimension ---------- *)
Lemma dim_length r5 r4 r3 r2 r1 : wf r5 r4 r3 r2 r1 ->
  c_computeDimension r5 r4 r3 r2 r1 = Z.of_nat (length (dims_of r5 r4 r3 r2 r1)).
Proof.
  unfold wf, small. intros (H5 & H4 & H3 & H2 & H1 & Hp & Z2 & Z3 & Z4).
  unfold c_computeDimension, dims_of, present. cbv zeta.
  assert (Hs: (r2 = 0 /\ r3 = 0 /\ r4 = 0 /\ r5 = 0) \/ (r2 <> 0 /\ r3 = 0 /\ r4 = 0 /\ r5 = 0) \/
              (r2 <> 0 /\ r3 <> 0 /\ r4 = 0 /\ r5 = 0) \/ (r2 <> 0 /\ r3 <> 0 /\ r4 <> 0 /\ r5 = 0) \/
              (r2 <> 0 /\ r3 <> 0 /\ r4 <> 0 /\ r5 <> 0)) by lia.
  destruct Hs as [(-> & -> & -> & ->)|[(N2 & -> & -> & ->)|[(N2 & N3 & -> & ->)|[(N2 & N3 & N4 & ->)|(N2 & N3 & N4 & N5)]]]].
  all: finish; reflexivity.
Qed.

Theorem dispatch_dim_is_canon_length r5 r4 r3 r2 r1 : wf r5 r4 r3 r2 r1 ->
  dispatch_dim r5 r4 r3 r2 r1 = Z.of_nat (length (canon (dims_of r5 r4 r3 r2 r1))).
Proof.
  intro W. unfold dispatch_dim. pose proof (filter_squeezes r5 r4 r3 r2 r1 W) as F.
  destruct (filtered r5 r4 r3 r2 r1) as [[[[f5 f4] f3] f2] f1]. destruct F as [F W'].
  rewrite (dim_length _ _ _ _ _ W'), F. reflexivity.
Qed.

Lemma squeeze_length_le l : (length (squeeze l) <= length l)%nat.
Proof. unfold squeeze. induction l as [|x l IH]; cbn; [lia|]. destruct (negb (x =? 1)); cbn; lia. Qed.

Lemma squeeze_length_lt l : In 1 l -> (length (squeeze l) < length l)%nat.
Proof.
  unfold squeeze. induction l as [|x l IH]; cbn [In filter length]; [tauto|].
  intros [->|H]; cbn [Z.eqb Pos.eqb negb].
  - pose proof (squeeze_length_le l). unfold squeeze in *. lia.
  - specialize (IH H). destruct (negb (x =? 1)); cbn [length]; lia.
Qed.

(* a request is dispatched as 5-D only if all five sizes are at least 2 *)
Theorem five_d_only_if_genuine r5 r4 r3 r2 r1 : wf r5 r4 r3 r2 r1 ->
  dispatch_dim r5 r4 r3 r2 r1 = 5 -> 2 <= r1 /\ 2 <= r2 /\ 2 <= r3 /\ 2 <= r4 /\ 2 <= r5.
Proof.
  intros W D. rewrite (dispatch_dim_is_canon_length _ _ _ _ _ W) in D.
  pose proof W as (H5 & H4 & H3 & H2 & H1 & Hp & Z2 & Z3 & Z4). unfold small in *.
  assert (L: (length (dims_of r5 r4 r3 r2 r1) <= 5)%nat).
  { unfold dims_of, present. cbn [filter]. repeat destruct (negb (_ =? 0)); cbn [length]; lia. }
  assert (C: length (canon (dims_of r5 r4 r3 r2 r1)) = 5%nat) by lia.
  unfold canon in C. pose proof (squeeze_length_le (dims_of r5 r4 r3 r2 r1)) as Q.
  destruct (squeeze (dims_of r5 r4 r3 r2 r1)) eqn:S; [cbn in C; lia|].
  assert (N1: ~ In 1 (dims_of r5 r4 r3 r2 r1)) by (intro I; apply squeeze_length_lt in I; rewrite S in I; lia).
  assert (L5: length (dims_of r5 r4 r3 r2 r1) = 5%nat) by lia.
  unfold dims_of, present in N1, L5. cbn [filter] in N1, L5.
  destruct (Z.eqb_spec r1 0), (Z.eqb_spec r2 0), (Z.eqb_spec r3 0), (Z.eqb_spec r4 0), (Z.eqb_spec r5 0);
    cbn [negb length] in L5; try lia.
  cbn [negb In] in N1. lia.
Qed.

(* ---------- squeeze equivalence ---------- *)
Lemma wf_determined r5 r4 r3 r2 r1 s5 s4 s3 s2 s1 :
  wf r5 r4 r3 r2 r1 -> wf s5 s4 s3 s2 s1 ->
  dims_of r5 r4 r3 r2 r1 = dims_of s5 s4 s3 s2 s1 -> (r5, r4, r3, r2, r1) = (s5, s4, s3, s2, s1).
Proof.
  unfold wf, small, dims_of, present.
  intros (H5 & H4 & H3 & H2 & H1 & Hp & Z2 & Z3 & Z4) (G5 & G4 & G3 & G2 & G1 & Gp & Y2 & Y3 & Y4).
  cbn [filter].
  destruct (Z.eqb_spec r1 0), (Z.eqb_spec r2 0), (Z.eqb_spec r3 0), (Z.eqb_spec r4 0), (Z.eqb_spec r5 0); try lia;
  destruct (Z.eqb_spec s1 0), (Z.eqb_spec s2 0), (Z.eqb_spec s3 0), (Z.eqb_spec s4 0), (Z.eqb_spec s5 0); try lia;
  cbn [negb]; intro E; inversion E; subst; try reflexivity; try lia.
Qed.

(* a tuple with its size-1 dimensions written out and the same tuple with them omitted (or placed
   anywhere else) are dispatched identically *)
Theorem squeeze_equivalence r5 r4 r3 r2 r1 s5 s4 s3 s2 s1 :
  wf r5 r4 r3 r2 r1 -> wf s5 s4 s3 s2 s1 ->
  squeeze (dims_of r5 r4 r3 r2 r1) = squeeze (dims_of s5 s4 s3 s2 s1) ->
  filtered r5 r4 r3 r2 r1 = filtered s5 s4 s3 s2 s1.
Proof.
  intros W V E.
  pose proof (filter_squeezes _ _ _ _ _ W) as F. pose proof (filter_squeezes _ _ _ _ _ V) as G.
  destruct (filtered r5 r4 r3 r2 r1) as [[[[f5 f4] f3] f2] f1].
  destruct (filtered s5 s4 s3 s2 s1) as [[[[g5 g4] g3] g2] g1].
  destruct F as [F W']. destruct G as [G V'].
  apply wf_determined; try assumption. rewrite F, G. unfold canon. rewrite E. reflexivity.
Qed.

Theorem filter_idempotent r5 r4 r3 r2 r1 : wf r5 r4 r3 r2 r1 ->
  let '(f5, f4, f3, f2, f1) := filtered r5 r4 r3 r2 r1 in filtered f5 f4 f3 f2 f1 = (f5, f4, f3, f2, f1).
Proof.
  intro W. pose proof (filter_squeezes _ _ _ _ _ W) as F.
  destruct (filtered r5 r4 r3 r2 r1) as [[[[f5 f4] f3] f2] f1] eqn:E. destruct F as [F W'].
  pose proof (filter_squeezes _ _ _ _ _ W') as G.
  destruct (filtered f5 f4 f3 f2 f1) as [[[[g5 g4] g3] g2] g1]. destruct G as [G V'].
  apply wf_determined; try assumption. rewrite G, F.
  (* canon (canon l) = canon l *)
  unfold canon. destruct (squeeze (dims_of r5 r4 r3 r2 r1)) as [|x l] eqn:S; [reflexivity|].
  assert (Hs: squeeze (x :: l) = x :: l).
  { rewrite <- S. unfold squeeze. generalize (dims_of r5 r4 r3 r2 r1). intro l0.
    induction l0 as [|y l0 IH]; [reflexivity|]. cbn [filter]. destruct (negb (y =? 1)) eqn:Ey; [|exact IH].
    cbn [filter]. rewrite Ey. now rewrite IH. }
  rewrite Hs. reflexivity.
Qed.
