From Coq Require Import ZArith List Bool Lia.
Import ListNotations.
Require Import SZV.Base.CSem SZV.Gen.SrcZlib SZV.Gen.SrcConsts SZV.Model.Lossless.
Local Open Scope Z_scope.

(* ---------- chunk schedule ---------- *)
Definition sum_in (l:list (Z * bool)) : Z := fold_right (fun c a => fst c + a) 0 l.
Fixpoint only_last_finishes (l:list (Z * bool)) : Prop :=
  match l with
  | [] => False
  | [(_, f)] => f = true
  | (_, f) :: rest => f = false /\ only_last_finishes rest
  end.

Lemma chunks_from_spec buf : 0 < buf -> forall fuel p len,
  0 <= p -> p <= len -> (len - p) / buf < Z.of_nat fuel ->
  let l := chunks_from fuel buf p len in
  sum_in l = len - p /\ only_last_finishes l /\ Forall (fun c => 0 <= fst c <= buf) l /\
  Forall (fun c => snd c = false -> fst c = buf) l.
Proof.
  intro Hb. induction fuel as [|f IH]; intros p len Hp Hl Hf.
  - cbn in Hf. assert (0 <= (len - p) / buf) by (apply Z.div_pos; lia). lia.
  - cbn [chunks_from]. destruct (Z.geb_spec (p + buf) len) as [G|G].
    + cbn [sum_in fold_right fst only_last_finishes]. split; [lia|]. split; [reflexivity|]. split.
      * constructor; [cbn [fst]; lia|constructor].
      * constructor; [cbn [snd]; intro; discriminate|constructor].
    + assert (Hd: (len - (p + buf)) / buf = (len - p) / buf - 1).
      { replace (len - (p + buf)) with ((len - p) + (-1) * buf) by ring. rewrite Z.div_add by lia. lia. }
      destruct (IH (p + buf) len ltac:(lia) ltac:(lia) ltac:(rewrite Hd; lia)) as (S & L & B & N).
      cbn zeta. cbn [sum_in fold_right fst]. fold (sum_in (chunks_from f buf (p + buf) len)). rewrite S.
      repeat split; try lia.
      * cbn [only_last_finishes]. destruct (chunks_from f buf (p + buf) len) eqn:E; [cbn in L; contradiction|]. split; [reflexivity|exact L].
      * constructor; [cbn; lia|exact B].
      * constructor; [cbn; auto|exact N].
Qed.

(* for every length (0, k*64KiB +- 1, ...) the chunks add up to the input, only the last one carries
   Z_FINISH and every other chunk is a full buffer *)
Theorem chunks_partition len : 0 <= len ->
  let l := chunk_schedule len in
  sum_in l = len /\ only_last_finishes l /\ Forall (fun c => 0 <= fst c <= src_SZ_ZLIB_BUFFER_SIZE) l /\
  Forall (fun c => snd c = false -> fst c = src_SZ_ZLIB_BUFFER_SIZE) l.
Proof.
  intro H. unfold chunk_schedule.
  assert (Hb: 0 < src_SZ_ZLIB_BUFFER_SIZE) by reflexivity.
  pose proof (chunks_from_spec src_SZ_ZLIB_BUFFER_SIZE Hb (S (Z.to_nat (len / src_SZ_ZLIB_BUFFER_SIZE))) 0 len ltac:(lia) H) as P.
  rewrite Z.sub_0_r in P. apply P.
  assert (0 <= len / src_SZ_ZLIB_BUFFER_SIZE) by (apply Z.div_pos; lia). lia.
Qed.

(* ---------- sniffing ---------- *)
(* every zlib header that deflateInit(level) can produce is recognised by the source's isZlibFormat *)
Theorem zlib_magic_recognised : forall level, -1 <= level <= 9 ->
  let '(cmf, flg) := zlib_header level in c_isZlibFormat cmf flg = 1.
Proof.
  intros level H.
  assert (level = -1 \/ level = 0 \/ level = 1 \/ level = 2 \/ level = 3 \/ level = 4 \/ level = 5 \/ level = 6 \/ level = 7 \/
          level = 8 \/ level = 9) as C by lia.
  repeat (destruct C as [->|C]; [vm_compute; reflexivity|]). subst. vm_compute. reflexivity.
Qed.

Section Sniff.
  Variable zstd_frame : list Z -> bool.
  (* what is assumed of ZSTD_getFrameContentSize: it accepts only inputs that start with a zstd frame
     magic (28 B5 2F FD) or a skippable-frame magic (5x 2A 4D 18) *)
  Hypothesis frame_magic : forall bytes, zstd_frame bytes = true ->
    (nth 0 bytes 0 = 40 /\ nth 1 bytes 0 = 181) \/ (80 <= nth 0 bytes 0 <= 95 /\ nth 1 bytes 0 = 42).

  (* a zstd frame is classified zstd *)
  Theorem sniff_zstd bytes : zstd_frame bytes = true -> sniff zstd_frame bytes = ZSTD.
  Proof. intro H. unfold sniff. now rewrite H. Qed.

  (* a zlib stream (header of any level) is classified zlib *)
  Theorem sniff_zlib level rest : -1 <= level <= 9 ->
    let '(cmf, flg) := zlib_header level in sniff zstd_frame (cmf :: flg :: rest) = GZIP.
  Proof.
    intro H. pose proof (zlib_magic_recognised level H) as M.
    destruct (zlib_header level) as [cmf flg] eqn:E. unfold sniff.
    destruct (zstd_frame (cmf :: flg :: rest)) eqn:F.
    - exfalso. apply frame_magic in F. cbn [nth] in F. unfold zlib_header in E. inversion E; subst. lia.
    - cbn [nth]. rewrite M. reflexivity.
  Qed.

  (* an unwrapped SZ stream starts with the version bytes and is classified unwrapped *)
  Theorem sniff_sz_stream rest :
    sniff zstd_frame (src_SZ_VER_MAJOR :: src_SZ_VER_MINOR :: src_SZ_VER_BUILD :: rest) = NONE.
  Proof.
    unfold sniff. destruct (zstd_frame _) eqn:F.
    - exfalso. apply frame_magic in F. cbn [nth] in F. unfold src_SZ_VER_MAJOR, src_SZ_VER_MINOR in F. lia.
    - cbn [nth]. vm_compute. reflexivity.
  Qed.

  (* the decoder entries give the sniffer's verdict for every stream of every length *)
  Theorem entry_sniff_agrees ty bytes : src_entry_resniffs = true -> entry_sniff zstd_frame ty bytes = sniff zstd_frame bytes.
  Proof.
    intro R. unfold entry_sniff. rewrite R. destruct (lookup_bypass ty src_bypass_sizes) as [a b].
    destruct (negb _) eqn:E1; cbn [orb andb]; [reflexivity|].
    destruct (sniff zstd_frame bytes =? NONE) eqn:E2; cbn [negb]; [apply Z.eqb_eq in E2; symmetry; exact E2|reflexivity].
  Qed.

  (* before the repair a wrapped stream with the length of a constant stream was taken for an unwrapped one *)
  Theorem entry_sniff_bypass_refuted ty bytes :
    let '(a, b) := lookup_bypass ty src_bypass_sizes in
    zstd_frame bytes = true -> Z.of_nat (length bytes) = a -> entry_sniff_old zstd_frame ty bytes = NONE.
  Proof.
    unfold entry_sniff_old. destruct (lookup_bypass ty src_bypass_sizes) as [a b]. intros _ Ha. rewrite Ha, Z.eqb_refl. reflexivity.
  Qed.
End Sniff.

(* with the fact read from the source (all ten entries re-examine constant-stream lengths) *)
Theorem entry_sniff_full : forall zstd_frame ty bytes, entry_sniff zstd_frame ty bytes = sniff zstd_frame bytes.
Proof. intros. apply entry_sniff_agrees. vm_compute. reflexivity. Qed.


(* the bypass sizes in the ten decoder entries are exactly the constant-stream sizes they are meant for *)
Theorem bypass_sizes_are_const_stream_sizes :
  forallb (fun ty => let '(a, b) := lookup_bypass ty src_bypass_sizes in
                     (a =? const_stream_size ty 4) && (b =? const_stream_size ty 8)) [0;1;2;3;4;5;6;7;8;9] = true.
Proof. vm_compute. reflexivity. Qed.
