From Coq Require Import ZArith List Bool Lia.
Import ListNotations.
Require Import SZV.Model.Transpose.
Local Open Scope Z_scope.

Lemma split_index b q r : 0 <= r < b -> 0 <= q -> (b * q + r) / b = q /\ (b * q + r) mod b = r.
Proof.
  intros. assert (0 < b) by lia. split.
  - symmetry. apply (Z.div_unique (b * q + r) b q r); lia.
  - symmetry. apply (Z.mod_unique (b * q + r) b q r); lia.
Qed.

Lemma decomp n b : 0 < b -> 0 <= n -> n = b * (n / b) + n mod b /\ 0 <= n mod b < b /\ 0 <= n / b.
Proof.
  intros Hb Hn. repeat split.
  - apply Z.div_mod. lia.
  - apply Z.mod_pos_bound. lia.
  - apply Z.mod_pos_bound. lia.
  - apply Z.div_pos; lia.
Qed.

Lemma div_lt_bound n b c : 0 < b -> 0 <= n < b * c -> n / b < c.
Proof. intros. apply Z.div_lt_upper_bound; lia. Qed.

(* index level: reading the de-transposed array at t reads the original array at t *)
Theorem tr_detr_2d r2 r1 t : 0 < r2 -> 0 < r1 -> 0 <= t < r2 * r1 ->
  tr_src 2 0 0 r2 r1 (detr_src 2 0 0 r2 r1 t) = t /\ 0 <= detr_src 2 0 0 r2 r1 t < r2 * r1.
Proof.
  intros H2 H1 Ht. unfold tr_src, detr_src. cbn [Z.eqb Pos.eqb]. cbv zeta.
  destruct (decomp t r1 H1 (proj1 Ht)) as (E & Ha & Hb).
  set (a := t mod r1) in *. set (b := t / r1) in *.
  assert (Hb2: b < r2) by (apply div_lt_bound; lia).
  replace (a * r2 + b) with (r2 * a + b) by ring.
  destruct (split_index r2 a b ltac:(lia) ltac:(lia)) as [D M]. rewrite D, M. split; [lia|nia].
Qed.

Theorem tr_detr_3d r3 r2 r1 t : 0 < r3 -> 0 < r2 -> 0 < r1 -> 0 <= t < r3 * r2 * r1 ->
  tr_src 3 0 r3 r2 r1 (detr_src 3 0 r3 r2 r1 t) = t /\ 0 <= detr_src 3 0 r3 r2 r1 t < r3 * r2 * r1.
Proof.
  intros H3 H2 H1 Ht. unfold tr_src, detr_src. cbn [Z.eqb Pos.eqb]. cbv zeta.
  assert (HB: 0 < r1 * r2) by nia.
  destruct (decomp t (r1 * r2) HB (proj1 Ht)) as (E & Hrem & Hk).
  set (rem := t mod (r1 * r2)) in *. set (k := t / (r1 * r2)) in *.
  assert (Hk3: k < r3) by (apply div_lt_bound; nia).
  replace (rem * r3 + k) with (r3 * rem + k) by ring.
  destruct (split_index r3 rem k ltac:(lia) ltac:(lia)) as [D M]. rewrite D, M. split; [|nia].
  transitivity (r1 * r2 * k + rem); [ring|symmetry; exact E].
Qed.

Theorem tr_detr_4d r4 r3 r2 r1 t : 0 < r4 -> 0 < r3 -> 0 < r2 -> 0 < r1 -> 0 <= t < r4 * r3 * r2 * r1 ->
  tr_src 4 r4 r3 r2 r1 (detr_src 4 r4 r3 r2 r1 t) = t /\ 0 <= detr_src 4 r4 r3 r2 r1 t < r4 * r3 * r2 * r1.
Proof.
  intros H4 H3 H2 H1 Ht. unfold tr_src, detr_src. cbn [Z.eqb Pos.eqb]. cbv zeta.
  assert (HC: 0 < r2 * r1) by nia.
  assert (HB: 0 < r3 * (r2 * r1)) by nia.
  destruct (decomp t (r3 * (r2 * r1)) HB (proj1 Ht)) as (E & Hrem & Hw).
  set (rem := t mod (r3 * (r2 * r1))) in *. set (w := t / (r3 * (r2 * r1))) in *.
  assert (Hw4: w < r4) by (apply div_lt_bound; nia).
  (* rem = i*C + jk with i < r3, jk < C *)
  destruct (decomp rem (r2 * r1) HC (proj1 Hrem)) as (E2 & Hjk & Hi).
  set (jk := rem mod (r2 * r1)) in *. set (i := rem / (r2 * r1)) in *.
  assert (Hi3: i < r3) by (apply div_lt_bound; nia).
  (* s' = rem*r4 + w ; forward map: D = r2*r1*r4 ; j := s'/D, rem' := s' mod D, kw := rem'/r4, i' := rem' mod r4 *)
  assert (Es: rem * r4 + w = (r2 * r1 * r4) * i + (r4 * jk + w)) by (rewrite E2 at 1; ring).
  assert (HD: 0 < r2 * r1 * r4) by nia.
  assert (Hr: 0 <= r4 * jk + w < r2 * r1 * r4) by nia.
  rewrite Es.
  destruct (split_index (r2 * r1 * r4) i (r4 * jk + w) Hr ltac:(lia)) as [D1 M1]. rewrite D1, M1.
  destruct (split_index r4 jk w ltac:(lia) ltac:(lia)) as [D2 M2]. rewrite D2, M2.
  split; [|rewrite <- Es; nia].
  transitivity (r3 * (r2 * r1) * w + (r2 * r1 * i + jk)); [ring|]. rewrite <- E2. symmetry; exact E.
Qed.

(* list level *)
Lemma gather_length f n l : length (gather f n l) = n.
Proof. unfold gather. now rewrite map_length, seq_length. Qed.

Lemma nth_map_seq (h:nat -> Z) m n d : (n < m)%nat -> nth n (map h (seq 0 m)) d = h n.
Proof.
  intro H. rewrite (nth_indep _ d (h 0%nat)) by (rewrite map_length, seq_length; lia).
  rewrite map_nth, seq_nth by lia. reflexivity.
Qed.

Lemma gather_gather f g l :
  (forall t, 0 <= t < Z.of_nat (length l) -> f (g t) = t /\ 0 <= g t < Z.of_nat (length l)) ->
  gather g (length l) (gather f (length l) l) = l.
Proof.
  intro H. apply (nth_ext _ _ 0 0).
  - apply gather_length.
  - intros n Hn. rewrite gather_length in Hn.
    unfold gather at 1. rewrite nth_map_seq by exact Hn.
    destruct (H (Z.of_nat n) ltac:(lia)) as [E R].
    unfold gather. rewrite nth_map_seq by lia. rewrite Z2Nat.id by lia. rewrite E. now rewrite Nat2Z.id.
Qed.

Definition dims_ok (dim r4 r3 r2 r1:Z) : Prop :=
  (dim = 1 /\ 0 < r1) \/ (dim = 2 /\ 0 < r2 /\ 0 < r1) \/ (dim = 3 /\ 0 < r3 /\ 0 < r2 /\ 0 < r1) \/
  (dim = 4 /\ 0 < r4 /\ 0 < r3 /\ 0 < r2 /\ 0 < r1).

(* de-transposing the transposed array gives back the array, for every shape of rank 1..4 *)
Theorem detranspose_transpose dim r4 r3 r2 r1 l :
  dims_ok dim r4 r3 r2 r1 -> Z.of_nat (length l) = nelems dim r4 r3 r2 r1 ->
  detranspose dim r4 r3 r2 r1 (transpose dim r4 r3 r2 r1 l) = l.
Proof.
  intros Hd Hn. unfold detranspose, transpose. rewrite gather_length. apply gather_gather.
  intros t Ht. rewrite Hn in Ht.
  destruct Hd as [(-> & H1)|[(-> & H2 & H1)|[(-> & H3 & H2 & H1)|(-> & H4 & H3 & H2 & H1)]]]; cbn [nelems Z.eqb Pos.eqb] in Ht.
  - unfold tr_src, detr_src. cbn [Z.eqb Pos.eqb]. rewrite Hn. cbn [nelems Z.eqb Pos.eqb]. lia.
  - rewrite Hn. cbn [nelems Z.eqb Pos.eqb]. pose proof (tr_detr_2d r2 r1 t H2 H1 Ht) as [A B].
    unfold tr_src, detr_src in *. cbn [Z.eqb Pos.eqb] in *. split; [exact A|exact B].
  - rewrite Hn. cbn [nelems Z.eqb Pos.eqb]. pose proof (tr_detr_3d r3 r2 r1 t H3 H2 H1 Ht) as [A B].
    unfold tr_src, detr_src in *. cbn [Z.eqb Pos.eqb] in *. split; [exact A|exact B].
  - rewrite Hn. cbn [nelems Z.eqb Pos.eqb]. pose proof (tr_detr_4d r4 r3 r2 r1 t H4 H3 H2 H1 Ht) as [A B].
    unfold tr_src, detr_src in *. cbn [Z.eqb Pos.eqb] in *. split; [exact A|exact B].
Qed.

(* before the fix of detransposeData the 2-D inverse applied the forward map again: not an inverse
   for non-square shapes *)
Lemma forward_map_not_involutive_2d : exists r2 r1 t, 0 <= t < r2 * r1 /\
  tr_src 2 0 0 r2 r1 (tr_src 2 0 0 r2 r1 t) <> t.
Proof. exists 2, 3, 1. split; [lia|]. vm_compute. discriminate. Qed.
