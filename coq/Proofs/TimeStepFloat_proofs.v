(* The float / double instances of the time-step theorems (C17), with the kernel obligations evaluated. *)
From Coq Require Import ZArith List Bool.
Import ListNotations.
Require Import SZV.Base.FloatOps SZV.Model.Quant SZV.Model.QuantFloat SZV.Model.TimeStep SZV.Model.TimeStepFloat SZV.Proofs.TimeStep_proofs.
Local Open Scope Z_scope.

Lemma zeqb_eq a b : Z.eqb a b = true -> a = b.
Proof. apply Z.eqb_eq. Qed.

Theorem f_ts_checked_lockstep : forall ss hist, fst (f_run_flags hist ss) = true ->
  let '(ws, rs, hf) := f_enc_run hist ss in f_dec_run hist ws = Some (rs, hf).
Proof. exact (ts_checked_lockstep Z 0 fctx fpred1 fquant1 fdequant1 fexact ftctx ft_quant ft_dequant ft_exact Z.eqb f_ok ft_ok zeqb_eq). Qed.

Theorem d_ts_checked_lockstep : forall ss hist, fst (d_run_flags hist ss) = true ->
  let '(ws, rs, hf) := d_enc_run hist ss in d_dec_run hist ws = Some (rs, hf).
Proof. exact (ts_checked_lockstep Z 0 dctx dpred1 dquant1 ddequant1 dexact dctx dt_quant dt_dequant dt_exact Z.eqb d_ok dt_ok zeqb_eq). Qed.

Theorem f_ts_checked_bound : forall ss hist, snd (f_run_flags hist ss) = true ->
  let '(_, rs, _) := f_enc_run hist ss in
  Forall2 (fun sh r => Forall2 (fun x y => okb_step Z fctx ftctx f_ok ft_ok (snd sh) (fst sh) x y = true) (xs _ _ _ (fst sh)) r)
          (combine ss (hists Z 0 fctx fpred1 fquant1 fexact ftctx ft_quant ft_exact hist ss)) rs.
Proof. exact (ts_checked_bound Z 0 fctx fpred1 fquant1 fdequant1 fexact ftctx ft_quant ft_dequant ft_exact Z.eqb f_ok ft_ok zeqb_eq). Qed.

Theorem d_ts_checked_bound : forall ss hist, snd (d_run_flags hist ss) = true ->
  let '(_, rs, _) := d_enc_run hist ss in
  Forall2 (fun sh r => Forall2 (fun x y => okb_step Z dctx dctx d_ok dt_ok (snd sh) (fst sh) x y = true) (xs _ _ _ (fst sh)) r)
          (combine ss (hists Z 0 dctx dpred1 dquant1 dexact dctx dt_quant dt_exact hist ss)) rs.
Proof. exact (ts_checked_bound Z 0 dctx dpred1 dquant1 ddequant1 dexact dctx dt_quant dt_dequant dt_exact Z.eqb d_ok dt_ok zeqb_eq). Qed.

(* the quantiser of the temporal kernels passes the re-check by construction: a code is only emitted when
   the reconstruction is within the bound (after the repair of the double kernel, for both types) *)
Lemma ft_quant_ok c h p x q r : ft_quant c h p x = Some (q, r) -> ft_ok c x r = true.
Proof.
  unfold ft_quant. destruct (length h <? 2)%nat; [discriminate|].
  destruct (dlt _ _); [|discriminate].
  destruct (fge (F x) (F p)); cbn zeta;
    match goal with |- (if ft_ok ?c ?x ?rb then _ else _) = _ -> _ => destruct (ft_ok c x rb) eqn:E; [intro H; inversion H; subst; exact E|discriminate] end.
Qed.
Lemma dt_quant_ok c h p x q r : dt_quant c h p x = Some (q, r) -> dt_ok c x r = true.
Proof.
  unfold dt_quant. destruct (length h <? 2)%nat; [discriminate|].
  destruct (dlt _ _); [|discriminate].
  destruct (dge (D x) (D p)); cbn zeta;
    match goal with |- (if dt_ok ?c ?x ?rb then _ else _) = _ -> _ => destruct (dt_ok c x rb) eqn:E; [intro H; inversion H; subst; exact E|discriminate] end.
Qed.

(* before the repair: a verbatim temporal step followed by a temporal step -- the decompressor, fed the
   compressor's streams, returns a different reconstruction (values 1.0 / 1.5 / 2.0, bound 0.01, 32 intervals) *)
Definition w_steps : list (step Z fctx ftctx) :=
  map fstep_of [ (true, false, false, true, 0x3f847ae147ae147b, 32, [0x3f800000; 0x3fc00000; 0x40000000; 0x3f800000]);
                 (true, false, false, false, 0x3f847ae147ae147b, 32, [0x3f800000; 0x3fc00000; 0x40000000; 0x3f810000]) ].
Theorem old_verbatim_step_diverges :
  let '(ws, rs, hf) := f_enc_run_old (repeat 0 4) w_steps in
  exists rs' hf', f_dec_run_old (repeat 0 4) ws = Some (rs', hf') /\ rs' <> rs /\ hf' <> hf.
Proof. vm_compute. eexists; eexists; split; [reflexivity|]. split; intro H; discriminate H. Qed.
