(* The float / double instances of the time-step theorems (C17), with the kernel obligations evaluated. *)
From Coq Require Import ZArith List Bool.
Import ListNotations.
Require Import SZV.Base.FloatOps SZV.Model.Quant SZV.Model.QuantFloat SZV.Model.TimeStep SZV.Model.TimeStepFloat SZV.Proofs.TimeStep_proofs.
Local Open Scope Z_scope.

Lemma zeqb_eq a b : Z.eqb a b = true -> a = b.
Proof. apply Z.eqb_eq. Qed.

Theorem f_ts_checked_lockstep : forall ss hist, fst (f_run_flags hist ss) = true ->
  let '(ws, rs, hf) := f_enc_run hist ss in f_dec_run hist ws = Some (rs, hf).
Proof. exact (ts_checked_lockstep Z 0 fctx fpred1 fquant1 fdequant1 fexact ftctx ft_quant ft_dequant ft_exact Z.eqb f_ok ft_ok zeqb_eq). Qed.

Theorem d_ts_checked_lockstep : forall ss hist, fst (d_run_flags hist ss) = true ->
  let '(ws, rs, hf) := d_enc_run hist ss in d_dec_run hist ws = Some (rs, hf).
Proof. exact (ts_checked_lockstep Z 0 dctx dpred1 dquant1 ddequant1 dexact dctx dt_quant dt_dequant dt_exact Z.eqb d_ok dt_ok zeqb_eq). Qed.

Theorem f_ts_checked_bound : forall ss hist, snd (f_run_flags hist ss) = true ->
  let '(_, rs, _) := f_enc_run hist ss in
  Forall2 (fun sh r => Forall2 (fun x y => okb_step Z fctx ftctx f_ok ft_ok (snd sh) (fst sh) x y = true) (xs _ _ _ (fst sh)) r)
          (combine ss (hists Z 0 fctx fpred1 fquant1 fexact ftctx ft_quant ft_exact hist ss)) rs.
Proof. exact (ts_checked_bound Z 0 fctx fpred1 fquant1 fdequant1 fexact ftctx ft_quant ft_dequant ft_exact Z.eqb f_ok ft_ok zeqb_eq). Qed.

Theorem d_ts_checked_bound : forall ss hist, snd (d_run_flags hist ss) = true ->
  let '(_, rs, _) := d_enc_run hist ss in
  Forall2 (fun sh r => Forall2 (fun x y => okb_step Z dctx dctx d_ok dt_ok (snd sh) (fst sh) x y = true) (xs _ _ _ (fst sh)) r)
          (combine ss (hists Z 0 dctx dpred1 dquant1 dexact dctx dt_quant dt_exact hist ss)) rs.
Proof. exact (ts_checked_bound Z 0 dctx dpred1 dquant1 ddequant1 dexact dctx dt_quant dt_dequant dt_exact Z.eqb d_ok dt_ok zeqb_eq). Qed.

(* the quantiser of the temporal kernels passes the re-check by construction: a code is only emitted when
   the reconstruction is within the bound (after the repair of the double kernel, for both types) *)
Lemma ft_quant_ok c h p x q r : ft_quant c h p x = Some (q, r) -> ft_ok c x r = true.
Proof.
  unfold ft_quant. destruct (length h <? 2)%nat; [discriminate|].
  destruct (dlt _ _); [|discriminate].
  destruct (fge (F x) (F p)); cbn zeta;
    match goal with |- (if ft_ok ?c ?x ?rb then _ else _) = _ -> _ => destruct (ft_ok c x rb) eqn:E; [intro H; inversion H; subst; exact E|discriminate] end.
Qed.
Lemma dt_quant_ok c h p x q r : dt_quant c h p x = Some (q, r) -> dt_ok c x r = true.
Proof.
  unfold dt_quant. destruct (length h <? 2)%nat; [discriminate|].
  destruct (dlt _ _); [|discriminate].
  destruct (dge (D x) (D p)); cbn zeta;
    match goal with |- (if dt_ok ?c ?x ?rb then _ else _) = _ -> _ => destruct (dt_ok c x rb) eqn:E; [intro H; inversion H; subst; exact E|discriminate] end.
Qed.

(* before the repair: a verbatim temporal step followed by a temporal step -- the decompressor, fed the
   compressor's streams, returns a different reconstruction (values 1.0 / 1.5 / 2.0, bound 0.01, 32 intervals) *)
Definition w_steps : list (step Z fctx ftctx) :=
  map fstep_of [ (true, false, false, true, 0x3f847ae147ae147b, 32, [0x3f800000; 0x3fc00000; 0x40000000; 0x3f800000]);
                 (true, false, false, false, 0x3f847ae147ae147b, 32, [0x3f800000; 0x3fc00000; 0x40000000; 0x3f810000]) ].
Theorem old_verbatim_step_diverges :
  let '(ws, rs, hf) := f_enc_run_old (repeat 0 4) w_steps in
  exists rs' hf', f_dec_run_old (repeat 0 4) ws = Some (rs', hf') /\ rs' <> rs /\ hf' <> hf.
Proof. vm_compute. eexists; eexists; split; [reflexivity|]. split; intro H; discriminate H. Qed.

(* ---- value-range protection on the handed-out values: the clamp loop of the two decompression entries ---- *)
From Coq Require Import Reals Lra.
From Flocq Require Import Core.Core IEEE754.BinarySingleNaN IEEE754.Binary IEEE754.Bits.
Require Import SZV.Model.Clamp SZV.Proofs.Clamp_proofs.

Section MinMax.
  Variable prec emax : Z.
  Context (prec_gt_0_ : FLX.Prec_gt_0 prec).
  Context (prec_lt_emax_ : Prec_lt_emax prec emax).
  Notation bf := (binary_float prec emax).
  Notation fin := (is_finite prec emax).
  Notation R_ := (B2R prec emax).
  (* the scan of computeRangeSize_*: running minimum and maximum *)
  Fixpoint gminmax (mn mx:bf) (l:list bf) : bf * bf :=
    match l with
    | [] => (mn, mx)
    | x :: l' => if blt prec emax x mn then gminmax x mx l' else if blt prec emax mx x then gminmax mn x l' else gminmax mn mx l'
    end.
  Lemma gminmax_bounds l : forall mn mx, fin mn = true -> fin mx = true -> (R_ mn <= R_ mx)%R -> Forall (fun x => fin x = true) l ->
    let '(a, b) := gminmax mn mx l in
    fin a = true /\ fin b = true /\ (R_ a <= R_ mn)%R /\ (R_ mx <= R_ b)%R /\ Forall (fun x => (R_ a <= R_ x <= R_ b)%R) l.
  Proof.
    induction l as [|x l IH]; intros mn mx Fn Fx Hm Fl; cbn [gminmax].
    - repeat split; auto; lra.
    - inversion Fl as [|? ? Fx0 Fl']; subst.
      destruct (blt prec emax x mn) eqn:B1.
      + apply blt_spec in B1; auto. specialize (IH x mx Fx0 Fx ltac:(lra) Fl'). destruct (gminmax x mx l) as [a b].
        destruct IH as (Fa & Fb & H1 & H2 & H3). repeat split; auto; try lra. constructor; [|exact H3]. lra.
      + assert (N1 : (R_ mn <= R_ x)%R).
        { destruct (Rle_or_lt (R_ mn) (R_ x)) as [H|H]; [exact H|]. apply (blt_spec prec emax x mn Fx0 Fn) in H. congruence. }
        destruct (blt prec emax mx x) eqn:B2.
        * apply blt_spec in B2; auto. specialize (IH mn x Fn Fx0 ltac:(lra) Fl'). destruct (gminmax mn x l) as [a b].
          destruct IH as (Fa & Fb & H1 & H2 & H3). repeat split; auto; try lra. constructor; [|exact H3]. lra.
        * assert (N2 : (R_ x <= R_ mx)%R).
          { destruct (Rle_or_lt (R_ x) (R_ mx)) as [H|H]; [exact H|]. apply (blt_spec prec emax mx x Fx Fx0) in H. congruence. }
          specialize (IH mn mx Fn Fx Hm Fl'). destruct (gminmax mn mx l) as [a b].
          destruct IH as (Fa & Fb & H1 & H2 & H3). repeat split; auto. constructor; [|exact H3]. lra.
  Qed.

  (* clamping a reconstruction to the data's own [min, max] never moves it away from any element of the data *)
  Theorem clamp_to_data_closer x0 rest x v : Forall (fun y => fin y = true) (x0 :: rest) -> In x (x0 :: rest) -> fin v = true ->
    let '(mn, mx) := gminmax x0 x0 rest in
    (Rabs (R_ x - R_ (gclamp prec emax mn mx v)) <= Rabs (R_ x - R_ v))%R.
  Proof.
    intros Fl Hi Fv. inversion Fl as [|? ? F0 Fr]; subst.
    pose proof (gminmax_bounds rest x0 x0 F0 F0 ltac:(lra) Fr) as B. destruct (gminmax x0 x0 rest) as [mn mx].
    destruct B as (Fa & Fb & H1 & H2 & H3).
    assert (Fxx : fin x = true) by (rewrite Forall_forall in Fl; apply Fl, Hi).
    assert (Rg : (R_ mn <= R_ x <= R_ mx)%R).
    { destruct Hi as [E|Hi]; [subst; lra|]. rewrite Forall_forall in H3. apply H3, Hi. }
    apply gclamp_closer; auto; apply ble_spec; auto; lra.
  Qed.
End MinMax.

(* the model's scans are the generic one *)
Lemma dminmax_is_gminmax l : forall mn mx, dminmax mn mx l = gminmax 53 1024 mn mx (map D l).
Proof. induction l as [|x l IH]; intros mn mx; cbn [dminmax gminmax map]; [reflexivity|].
  change (dgt mn (D x)) with (blt 53 1024 (D x) mn). change (dlt mx (D x)) with (blt 53 1024 mx (D x)).
  destruct (blt 53 1024 (D x) mn); [apply IH|]. destruct (blt 53 1024 mx (D x)); apply IH. Qed.
Lemma fminmax_is_gminmax l : forall mn mx, fminmax mn mx l = gminmax 24 128 mn mx (map F l).
Proof. induction l as [|x l IH]; intros mn mx; cbn [fminmax gminmax map]; [reflexivity|].
  change (fgt mn (F x)) with (blt 24 128 (F x) mn). change (flt mx (F x)) with (blt 24 128 mx (F x)).
  destruct (blt 24 128 (F x) mn); [apply IH|]. destruct (blt 24 128 mx (F x)); apply IH. Qed.

Lemma D_Db (y:f64) : D (Db y) = y.
Proof.
  unfold D, Db, bits_of_b64, b64_of_bits. rewrite Z.mod_small.
  - exact (binary_float_of_bits_of_binary_float 52 11 eq_refl eq_refl eq_refl y).
  - apply (bits_of_binary_float_range 52 11); reflexivity.
Qed.
Lemma F_Fb (y:f32) : F (Fb y) = y.
Proof.
  unfold F, Fb, bits_of_b32, b32_of_bits. rewrite Z.mod_small.
  - exact (binary_float_of_bits_of_binary_float 23 8 eq_refl eq_refl eq_refl y).
  - apply (bits_of_binary_float_range 23 8); reflexivity.
Qed.

(* every value handed out under value-range protection is at least as close to the original as the reconstruction kept in the
   history (whose distance the step theorems bound): double and float *)
Theorem d_out1_closer data x r : Forall (fun y => is_finite 53 1024 (D y) = true) data -> In x data -> is_finite 53 1024 (D r) = true ->
  forall r', In r' (d_out1 data [r]) ->
  (Rabs (B2R 53 1024 (D x) - B2R 53 1024 (D r')) <= Rabs (B2R 53 1024 (D x) - B2R 53 1024 (D r)))%R.
Proof.
  intros Fl Hi Fr r' Hr'. destruct data as [|x0 rest]; [contradiction|]. cbn [d_out1] in Hr'.
  rewrite dminmax_is_gminmax in Hr'.
  assert (Fl' : Forall (fun y => is_finite 53 1024 y = true) (D x0 :: map D rest)).
  { change (D x0 :: map D rest) with (map D (x0 :: rest)). rewrite Forall_map. exact Fl. }
  assert (Hi' : In (D x) (D x0 :: map D rest)).
  { change (D x0 :: map D rest) with (map D (x0 :: rest)). apply in_map, Hi. }
  pose proof (clamp_to_data_closer 53 1024 (D x0) (map D rest) (D x) (D r) Fl' Hi' Fr) as C.
  destruct (gminmax 53 1024 (D x0) (D x0) (map D rest)) as [mn mx]. cbn [map In] in Hr'. destruct Hr' as [E|[]]. subst r'.
  rewrite D_Db, clamp64_is_gclamp. exact C.
Qed.

Theorem f_out1_closer data x r : Forall (fun y => is_finite 24 128 (F y) = true) data -> In x data -> is_finite 24 128 (F r) = true ->
  forall r', In r' (f_out1 data [r]) ->
  (Rabs (B2R 24 128 (F x) - B2R 24 128 (F r')) <= Rabs (B2R 24 128 (F x) - B2R 24 128 (F r)))%R.
Proof.
  intros Fl Hi Fr r' Hr'. destruct data as [|x0 rest]; [contradiction|]. cbn [f_out1] in Hr'.
  rewrite fminmax_is_gminmax in Hr'.
  assert (Fl' : Forall (fun y => is_finite 24 128 y = true) (F x0 :: map F rest)).
  { change (F x0 :: map F rest) with (map F (x0 :: rest)). rewrite Forall_map. exact Fl. }
  assert (Hi' : In (F x) (F x0 :: map F rest)).
  { change (F x0 :: map F rest) with (map F (x0 :: rest)). apply in_map, Hi. }
  pose proof (clamp_to_data_closer 24 128 (F x0) (map F rest) (F x) (F r) Fl' Hi' Fr) as C.
  destruct (gminmax 24 128 (F x0) (F x0) (map F rest)) as [mn mx]. cbn [map In] in Hr'. destruct Hr' as [E|[]]. subst r'.
  rewrite F_Fb, clamp32_is_gclamp. exact C.
Qed.
