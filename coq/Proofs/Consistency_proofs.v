From Coq Require Import List Bool Arith.
Require Import SZV.Model.Consistency.
Lemma header_constants_hold : header_constants_ok = true. Proof. vm_compute. reflexivity. Qed.
Lemma int_range_tags_hold : int_range_tags_ok = true. Proof. vm_compute. reflexivity. Qed.
Lemma block_offsets_hold : block_offsets_ok = true. Proof. vm_compute. reflexivity. Qed.
Lemma huff_marker_hold : huff_marker_ok = true. Proof. vm_compute. reflexivity. Qed.
