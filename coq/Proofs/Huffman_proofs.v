From Coq Require Import ZArith List Bool Lia.
Import ListNotations.
Require Import SZV.Base.Bytes SZV.Base.BitPack SZV.Model.Huffman SZV.Proofs.BitPack_proofs SZV.Proofs.Bytes_proofs.
Local Open Scope Z_scope.

(* ---------- prefix-code decoding ---------- *)
Lemma code_leaf_nil t c : code t c = Some [] -> t = Leaf c.
Proof.
  destruct t as [c'|l r]; cbn.
  - destruct (Z.eqb_spec c c'); [subst; auto|discriminate].
  - destruct (code l c); [discriminate|]. destruct (code r c); discriminate.
Qed.

Lemma walk_code root : forall cur c p rest n,
  code cur c = Some p -> p <> [] ->
  walk root cur (p ++ rest) (S n) = c :: walk root root rest n.
Proof.
  induction cur as [c'|l IHl r IHr]; intros c p rest n Hc Hp.
  - cbn in Hc. destruct (c =? c'); inversion Hc; subst; contradiction.
  - cbn in Hc.
    destruct (code l c) as [pl|] eqn:El.
    + inversion Hc; subst p; clear Hc. cbn [app walk].
      destruct pl as [|b pl'].
      * apply code_leaf_nil in El. subst l. reflexivity.
      * destruct l as [cl|ll lr].
        { cbn in El. destruct (c =? cl); discriminate. }
        { apply (IHl c (b :: pl') rest n El). discriminate. }
    + destruct (code r c) as [pr|] eqn:Er; [|discriminate].
      inversion Hc; subst p; clear Hc. cbn [app walk].
      destruct pr as [|b pr'].
      * apply code_leaf_nil in Er. subst r. reflexivity.
      * destruct r as [cr|rl rr].
        { cbn in Er. destruct (c =? cr); discriminate. }
        { apply (IHr c (b :: pr') rest n Er). discriminate. }
Qed.

Theorem decode_encode_bits l r s bits :
  encode (Node l r) s = Some bits -> forall pad, walk (Node l r) (Node l r) (bits ++ pad) (length s) = s.
Proof.
  unfold encode. revert bits. induction s as [|c s IH]; intros bits He pad.
  - cbn [length]. destruct (bits ++ pad); reflexivity.
  - cbn [encode_with] in He. destruct (code (Node l r) c) as [p|] eqn:Ec; [|discriminate].
    destruct (encode_with (code (Node l r)) s) as [q|] eqn:Es; [|discriminate].
    inversion He; subst bits; clear He.
    rewrite <- app_assoc. cbn [length].
    rewrite (walk_code (Node l r) (Node l r) c p (q ++ pad) (length s) Ec).
    + f_equal. apply IH. reflexivity.
    + intro; subst p. apply code_leaf_nil in Ec. discriminate.
Qed.

(* payload bytes followed by anything (padding, the rest of the buffer) decode to the sequence *)
Theorem decode_encode_bytes l r s payload :
  encode_bytes (Node l r) s = Some payload ->
  forall extra, decode (Node l r) (payload ++ extra) (length s) = s.
Proof.
  unfold encode_bytes. destruct (encode (Node l r) s) as [bits|] eqn:E; [|discriminate].
  intros H extra. inversion H; subst payload; clear H.
  unfold decode, unpack_bits. rewrite flat_map_app. fold (unpack_bits (pack_bits bits)).
  rewrite unpack_pack_bits, <- app_assoc. apply decode_encode_bits. exact E.
Qed.

(* single-symbol sequences: the tree is a leaf, no payload bit is written, the decoder repeats it *)
Theorem decode_encode_leaf c s :
  encode (Leaf c) s <> None -> forall bytes, decode (Leaf c) bytes (length s) = s /\ encode_bytes (Leaf c) s = Some [].
Proof.
  intros H bytes. unfold decode, encode_bytes, encode in *.
  remember (code (Leaf c)) as lk eqn:Hlk.
  assert (Hl: forall x, lk x = if x =? c then Some [] else None) by (intro; subst; reflexivity).
  clear Hlk.
  induction s as [|x s IH]; [split; reflexivity|].
  cbn [encode_with] in H |- *. rewrite Hl in H |- *.
  destruct (Z.eqb_spec x c) as [->|N]; [|contradiction H; reflexivity].
  destruct (encode_with lk s) as [q|] eqn:E; [|contradiction H; reflexivity].
  destruct (IH ltac:(discriminate)) as [I1 I2]. cbn [length repeat]. rewrite I1. split; [reflexivity|].
  cbn [app]. destruct q as [|b q]; [reflexivity|]. exfalso.
  injection I2 as I2. apply (f_equal (@length Z)) in I2. rewrite pack_bits_length in I2.
  cbn [length] in I2. unfold nbytes in I2. apply Nat.div_small_iff in I2; lia.
Qed.

Lemma encode_with_ext lk lk' s : (forall c, lk c = lk' c) -> encode_with lk s = encode_with lk' s.
Proof. intro H. induction s as [|c s IH]; [reflexivity|]. cbn. now rewrite H, IH. Qed.

(* every symbol that occurs among the leaves has a code *)
Lemma code_of_leaf t c : In c (leaves t) -> code t c <> None.
Proof.
  induction t as [c'|l IHl r IHr]; cbn [leaves code]; intro H.
  - destruct H as [->|[]]. rewrite Z.eqb_refl. discriminate.
  - apply in_app_or in H. destruct (code l c) eqn:El; [discriminate|].
    destruct H as [H|H]; [exfalso; now apply IHl|]. specialize (IHr H). destruct (code r c); [discriminate|contradiction].
Qed.

Lemma mem_In c l : mem c l = true -> In c l.
Proof.
  induction l as [|x l IH]; cbn; [discriminate|]. intro H. apply orb_true_iff in H as [H|H].
  - left. symmetry. now apply Z.eqb_eq. - right. auto.
Qed.

Theorem encode_total t s : tree_ok t s = true -> encode t s <> None.
Proof.
  unfold tree_ok, encode. intro H. apply andb_true_iff in H as [_ H]. rewrite forallb_forall in H.
  induction s as [|c s IH]; [discriminate|]. cbn [encode_with].
  pose proof (code_of_leaf t c (mem_In _ _ (H c (or_introl eq_refl)))) as Hc.
  destruct (code t c); [|contradiction].
  specialize (IH (fun x Hx => H x (or_intror Hx))). destruct (encode_with (code t) s); [discriminate|contradiction].
Qed.

(* ---------- table-driven decoder ---------- *)
Lemma walk1_code : forall cur c p rest fuel,
  code cur c = Some p -> (length p <= fuel)%nat -> walk1 cur (p ++ rest) fuel = Some (c, rest).
Proof.
  induction cur as [c'|l IHl r IHr]; intros c p rest fuel Hc Hf.
  - cbn in Hc. destruct (Z.eqb_spec c c'); inversion Hc; subst. reflexivity.
  - cbn in Hc. destruct (code l c) as [pl|] eqn:El.
    + inversion Hc; subst p; clear Hc. cbn [length] in Hf. destruct fuel; [lia|]. cbn [app walk1].
      apply IHl; [exact El|lia].
    + destruct (code r c) as [pr|] eqn:Er; [|discriminate].
      inversion Hc; subst p; clear Hc. cbn [length] in Hf. destruct fuel; [lia|]. cbn [app walk1].
      apply IHr; [exact Er|lia].
Qed.

Lemma descend_code : forall mb cur c p rest,
  code cur c = Some p ->
  exists cur' k, descend cur (p ++ rest) mb = (cur', k) /\ (k <= length p)%nat /\ code cur' c = Some (skipn k p).
Proof.
  induction mb as [|mb IH]; intros cur c p rest Hc.
  - exists cur, O. cbn. repeat split; [lia|exact Hc].
  - destruct cur as [c'|l r].
    + exists (Leaf c'), O. cbn. repeat split; [lia|exact Hc].
    + cbn in Hc. destruct (code l c) as [pl|] eqn:El.
      * inversion Hc; subst p; clear Hc. cbn [app descend].
        destruct (IH l c pl rest El) as (cur' & k & D & K & C). rewrite D.
        exists cur', (S k). cbn [length skipn]. repeat split; [lia|exact C].
      * destruct (code r c) as [pr|] eqn:Er; [|discriminate].
        inversion Hc; subst p; clear Hc. cbn [app descend].
        destruct (IH r c pr rest Er) as (cur' & k & D & K & C). rewrite D.
        exists cur', (S k). cbn [length skipn]. repeat split; [lia|exact C].
Qed.

Lemma code_length t c p : code t c = Some p -> (length p < nsize t)%nat.
Proof.
  revert p. induction t as [c'|l IHl r IHr]; intros p H; cbn [code nsize] in *.
  - destruct (c =? c'); inversion H; subst. cbn. lia.
  - destruct (code l c) as [pl|] eqn:El.
    + inversion H; subst. specialize (IHl pl eq_refl). cbn [length]. lia.
    + destruct (code r c) as [pr|] eqn:Er; [|discriminate]. inversion H; subst.
      specialize (IHr pr eq_refl). cbn [length]. lia.
Qed.

Theorem decode_table_encode t mb fuel s bits :
  (nsize t <= fuel)%nat ->
  encode t s = Some bits -> forall pad, decode_table t mb fuel (bits ++ pad) (length s) = s.
Proof.
  intro Hfuel. unfold encode. revert bits. induction s as [|c s IH]; intros bits He pad; [reflexivity|].
  cbn [encode_with] in He. destruct (code t c) as [p|] eqn:Ec; [|discriminate].
  destruct (encode_with (code t) s) as [q|] eqn:Es; [|discriminate].
  inversion He; subst bits; clear He. rewrite <- app_assoc. cbn [length decode_table].
  destruct (descend_code mb t c p (q ++ pad) Ec) as (cur' & k & D & K & C). rewrite D.
  assert (Hs: skipn k (p ++ q ++ pad) = skipn k p ++ q ++ pad).
  { rewrite skipn_app. replace (k - length p)%nat with O by lia. reflexivity. }
  rewrite Hs. rewrite (walk1_code cur' c (skipn k p) (q ++ pad) _ C).
  - f_equal. apply IH. reflexivity.
  - rewrite skipn_length. pose proof (code_length t c p Ec). lia.
Qed.

Theorem decode_msst19_encode_bytes l r mbz s payload :
  encode_bytes (Node l r) s = Some payload ->
  forall extra, decode_msst19 (Node l r) mbz (payload ++ extra) (length s) = s.
Proof.
  unfold encode_bytes. destruct (encode (Node l r) s) as [bits|] eqn:E; [|discriminate].
  intros H extra. inversion H; subst payload; clear H.
  unfold decode_msst19, unpack_bits. rewrite flat_map_app. fold (unpack_bits (pack_bits bits)).
  rewrite unpack_pack_bits, <- app_assoc. apply decode_table_encode; [apply le_n|exact E].
Qed.

(* ---------- tree table ---------- *)
Lemma size_nsize t : size t = Z.of_nat (nsize t).
Proof. induction t as [c|l IHl r IHr]; cbn [size nsize]; lia. Qed.

Lemma size_pos t : 0 < size t.
Proof. rewrite size_nsize. destruct t; cbn; lia. Qed.

Lemma unpad_S f rows i : unpad (S f) rows i =
  match nth_row rows i with
  | None => None
  | Some (L, R, c, true) => Some (Leaf c)
  | Some (L, R, c, false) =>
      if (L =? 0) || (R =? 0) then None else
      match unpad f rows L, unpad f rows R with
      | Some l, Some r => Some (Node l r)
      | _, _ => None
      end
  end.
Proof. reflexivity. Qed.

Lemma pad_length t i : length (pad t i) = nsize t.
Proof. revert i; induction t as [c|l IHl r IHr]; intro i; cbn; [reflexivity|]. rewrite app_length, IHl, IHr. reflexivity. Qed.

Lemma nth_row_app2 (pre post:list row) x : nth_row (pre ++ x :: post) (Z.of_nat (length pre)) = Some x.
Proof.
  unfold nth_row. destruct (Z.ltb_spec (Z.of_nat (length pre)) 0); [lia|].
  rewrite Nat2Z.id, nth_error_app2 by lia. rewrite Nat.sub_diag. reflexivity.
Qed.

Lemma unpad_pad : forall t pre post fuel,
  (nsize t <= fuel)%nat ->
  unpad fuel (pre ++ pad t (Z.of_nat (length pre)) ++ post) (Z.of_nat (length pre)) = Some t.
Proof.
  induction t as [c|l IHl r IHr]; intros pre post fuel Hf.
  - destruct fuel; [cbn in Hf; lia|]. rewrite unpad_S. cbn [pad app]. rewrite nth_row_app2. reflexivity.
  - destruct fuel; [cbn in Hf; lia|]. cbn [nsize] in Hf. rewrite unpad_S. cbn [pad app].
    rewrite nth_row_app2.
    pose proof (size_pos l) as Pl.
    destruct (Z.eqb_spec (Z.of_nat (length pre) + 1) 0); [lia|].
    destruct (Z.eqb_spec (Z.of_nat (length pre) + 1 + size l) 0); [lia|]. cbn [orb].
    remember (Z.of_nat (length pre) + 1, Z.of_nat (length pre) + 1 + size l, 0, false) as hd eqn:Ehd.
    assert (HL: unpad fuel (pre ++ hd :: (pad l (Z.of_nat (length pre) + 1) ++ pad r (Z.of_nat (length pre) + 1 + size l)) ++ post)
                      (Z.of_nat (length pre) + 1) = Some l).
    { pose proof (IHl (pre ++ [hd]) (pad r (Z.of_nat (length pre) + 1 + size l) ++ post) fuel ltac:(lia)) as H.
      rewrite app_length in H; cbn [length] in H.
      replace (Z.of_nat (length pre + 1)) with (Z.of_nat (length pre) + 1) in H by lia.
      repeat rewrite <- app_assoc in H. cbn [app] in H. repeat rewrite <- app_assoc. exact H. }
    assert (HR: unpad fuel (pre ++ hd :: (pad l (Z.of_nat (length pre) + 1) ++ pad r (Z.of_nat (length pre) + 1 + size l)) ++ post)
                      (Z.of_nat (length pre) + 1 + size l) = Some r).
    { pose proof (IHr (pre ++ hd :: pad l (Z.of_nat (length pre) + 1)) post fuel ltac:(lia)) as H.
      rewrite app_length in H; cbn [length] in H. rewrite pad_length in H.
      replace (Z.of_nat (length pre + S (nsize l))) with (Z.of_nat (length pre) + 1 + size l) in H by (rewrite size_nsize; lia).
      repeat rewrite <- app_assoc in H. cbn [app] in H. repeat rewrite <- app_assoc in H.
      repeat rewrite <- app_assoc. exact H. }
    rewrite HL, HR. reflexivity.
Qed.

Theorem tree_roundtrip t : unpad (nsize t) (pad t 0) 0 = Some t.
Proof. pose proof (unpad_pad t [] [] (nsize t) (le_n _)) as H. cbn [app length Z.of_nat] in H. rewrite app_nil_r in H. exact H. Qed.

(* indices written by pad stay below the node count: they fit the width chosen from it *)
Lemma pad_index_bound t i : 0 <= i ->
  Forall (fun r => 0 <= rowL r < i + size t /\ 0 <= rowR r < i + size t) (pad t i).
Proof.
  revert i. induction t as [c|l IHl r IHr]; intros i Hi; cbn [pad size].
  - constructor; [cbn [rowL rowR]; lia|constructor].
  - pose proof (size_pos l). pose proof (size_pos r).
    constructor; [cbn [rowL rowR]; lia|]. apply Forall_app. split.
    + eapply Forall_impl; [|apply (IHl (i + 1)); lia]. intros x [A B]. lia.
    + eapply Forall_impl; [|apply (IHr (i + 1 + size l)); lia]. intros x [A B]. lia.
Qed.

(* ---------- byte layout of the table ---------- *)
Lemma zip4_map rows : zip4 (map rowL rows) (map rowR rows) (map rowC rows) (map rowT rows) = rows.
Proof.
  induction rows as [|[[[L R] C] t] rows IH]; [reflexivity|]. cbn [map zip4 rowL rowR rowC rowT]. rewrite IH.
  destruct t; reflexivity.
Qed.

Theorem tree_bytes_roundtrip (w:nat) sysEnd rows :
  (0 < w)%nat ->
  Forall (fun r => 0 <= rowL r < 256 ^ Z.of_nat w /\ 0 <= rowR r < 256 ^ Z.of_nat w /\ 0 <= rowC r < 256 ^ Z.of_nat 4) rows ->
  parse_tree_bytes w (length rows) (tree_bytes w sysEnd rows) = rows.
Proof.
  intros Hw Hb. unfold parse_tree_bytes, tree_bytes. cbn [tl].
  set (n := length rows).
  set (A := array_to_bytes w 0 0 (map rowL rows)). set (B := array_to_bytes w 0 0 (map rowR rows)).
  set (C := array_to_bytes 4 0 0 (map rowC rows)). set (D := map rowT rows).
  assert (LA: length A = (w * n)%nat) by (unfold A; rewrite array_to_bytes_length, map_length; unfold n; lia).
  assert (LB: length B = (w * n)%nat) by (unfold B; rewrite array_to_bytes_length, map_length; unfold n; lia).
  assert (LC: length C = (4 * n)%nat) by (unfold C; rewrite array_to_bytes_length, map_length; unfold n; lia).
  assert (LD: length D = n) by (unfold D; now rewrite map_length).
  rewrite firstn_app, LA, Nat.sub_diag, firstn_O, app_nil_r, firstn_all2 by lia.
  rewrite skipn_app, LA, Nat.sub_diag, skipn_O, skipn_all2 by lia. cbn [app].
  rewrite firstn_app, LB, Nat.sub_diag, firstn_O, app_nil_r, firstn_all2 by lia.
  replace (2 * w * n)%nat with (length (A ++ B)) by (rewrite app_length; lia).
  rewrite app_assoc, skipn_app, Nat.sub_diag, skipn_O, skipn_all2 by lia. cbn [app].
  rewrite firstn_app, LC, Nat.sub_diag, firstn_O, app_nil_r, firstn_all2 by lia.
  replace (length (A ++ B) + 4 * n)%nat with (length ((A ++ B) ++ C)) by (rewrite !app_length; lia).
  rewrite app_assoc, skipn_app, Nat.sub_diag, skipn_O, skipn_all2 by lia. cbn [app].
  rewrite firstn_all2 by lia.
  unfold A, B, C.
  rewrite !array_roundtrip; try lia.
  - apply zip4_map.
  - apply Forall_forall. intros x Hx. apply in_map_iff in Hx as (r0 & <- & Hr). rewrite Forall_forall in Hb. apply (Hb r0 Hr).
  - apply Forall_forall. intros x Hx. apply in_map_iff in Hx as (r0 & <- & Hr). rewrite Forall_forall in Hb. apply (Hb r0 Hr).
  - apply Forall_forall. intros x Hx. apply in_map_iff in Hx as (r0 & <- & Hr). rewrite Forall_forall in Hb. apply (Hb r0 Hr).
Qed.

(* the width chosen from the node count is wide enough for every index pad writes *)
Theorem idx_width_sufficient t : size t < 2 ^ 32 ->
  Forall (fun r => 0 <= rowL r < 256 ^ Z.of_nat (idx_width 256 65536 (size t)) /\
                   0 <= rowR r < 256 ^ Z.of_nat (idx_width 256 65536 (size t))) (pad t 0).
Proof.
  intro H. eapply Forall_impl; [|apply (pad_index_bound t 0); lia]. intros x [A B].
  unfold idx_width. destruct (Z.leb_spec (size t) 256); [cbn; lia|].
  destruct (Z.leb_spec (size t) 65536); [cbn; lia|]. change (256 ^ Z.of_nat 4) with (2 ^ 32). lia.
Qed.
