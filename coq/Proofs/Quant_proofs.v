From Coq Require Import ZArith List Bool Lia.
Import ListNotations.
Require Import SZV.Model.Quant.
Local Open Scope Z_scope.

Section QuantProofs.
  Variable V : Type.
  Variable ctx : Type.
  Variable pred : ctx -> list V -> V.
  Variable quant : ctx -> list V -> V -> V -> option (Z * V).
  Variable dequant : ctx -> V -> Z -> V.
  Variable exact : ctx -> V -> V.
  Variable ok : ctx -> V -> V -> Prop.        (* the error bound *)

  (* the three obligations of a kernel instance *)
  Hypothesis quant_code_nonzero : forall c h p x q r, quant c h p x = Some (q, r) -> q <> 0.
  Hypothesis quant_dequant : forall c h p x q r, quant c h p x = Some (q, r) -> dequant c p q = r.

  Notation enc := (enc V ctx pred quant exact).
  Notation dec := (dec V ctx pred dequant).

  (* decoder history stays in lock-step with encoder history: the decoder reproduces exactly the
     reconstruction the encoder simulated, for every input, history and context *)
  Theorem lockstep c : forall xs h, let '(qs, es, rs) := enc c h xs in dec c h qs es = Some rs.
  Proof.
    induction xs as [|x xs IH]; intros h; cbn [Quant.enc].
    - reflexivity.
    - destruct (quant c h (pred c h) x) as [[q r]|] eqn:Q.
      + specialize (IH (r :: h)). destruct (enc c (r :: h) xs) as [[qs es] rs].
        cbn [Quant.dec]. pose proof (quant_code_nonzero _ _ _ _ _ _ Q) as Hq.
        destruct (q =? 0) eqn:E; [apply Z.eqb_eq in E; contradiction|].
        rewrite (quant_dequant _ _ _ _ _ _ Q). rewrite IH. reflexivity.
      + specialize (IH (exact c x :: h)). destruct (enc c (exact c x :: h) xs) as [[qs es] rs].
        cbn [Quant.dec Z.eqb]. rewrite IH. reflexivity.
  Qed.

  (* every element is within the bound provided each emitted code is (by the re-check, or by
     arithmetic) and each exactly stored value is *)
  Theorem within_bound c : forall xs h,
    (forall h p x q r, quant c h p x = Some (q, r) -> ok c x r) ->
    (forall x, In x xs -> ok c x (exact c x)) ->
    let '(_, _, rs) := enc c h xs in Forall2 (ok c) xs rs.
  Proof.
    induction xs as [|x xs IH]; intros h Hq Hex; cbn [Quant.enc].
    - constructor.
    - destruct (quant c h (pred c h) x) as [[q r]|] eqn:Q.
      + specialize (IH (r :: h) Hq (fun y Hy => Hex y (or_intror Hy))).
        destruct (enc c (r :: h) xs) as [[qs es] rs]. constructor; [eapply Hq; eauto|exact IH].
      + specialize (IH (exact c x :: h) Hq (fun y Hy => Hex y (or_intror Hy))).
        destruct (enc c (exact c x :: h) xs) as [[qs es] rs]. constructor; [apply Hex; left; auto|exact IH].
  Qed.

  Lemma enc_lengths c : forall xs h, let '(qs, _, rs) := enc c h xs in length qs = length xs /\ length rs = length xs.
  Proof.
    induction xs as [|x xs IH]; intros h; cbn [Quant.enc]; [auto|].
    destruct (quant c h (pred c h) x) as [[q r]|].
    - specialize (IH (r :: h)). destruct (enc c (r :: h) xs) as [[qs es] rs]. cbn [length]. lia.
    - specialize (IH (exact c x :: h)). destruct (enc c (exact c x :: h) xs) as [[qs es] rs]. cbn [length]. lia.
  Qed.
End QuantProofs.

(* The same two theorems with the obligations *evaluated* instead of assumed: for every input on which
   the model's own per-element checks pass, the decoder reproduces the encoder's reconstruction and
   every element is within the bound.  This is what a kernel gets when one of its obligations is not
   (yet) proved for all inputs: the check is computed on every case of the correspondence run. *)
Section Checked.
  Variable V : Type.
  Variable ctx : Type.
  Variable pred : ctx -> list V -> V.
  Variable quant : ctx -> list V -> V -> V -> option (Z * V).
  Variable dequant : ctx -> V -> Z -> V.
  Variable exact : ctx -> V -> V.
  Variable veq : V -> V -> bool.
  Variable okb : ctx -> V -> V -> bool.
  Hypothesis veq_eq : forall a b, veq a b = true -> a = b.

  Notation enc := (enc V ctx pred quant exact).
  Notation dec := (dec V ctx pred dequant).
  Notation run_checks := (run_checks V ctx pred quant dequant exact veq okb).

  Theorem checked_lockstep c : forall xs h,
    let '(nz, mir, _, _) := run_checks c h xs in
    nz = true -> mir = true -> let '(qs, es, rs) := enc c h xs in dec c h qs es = Some rs.
  Proof.
    induction xs as [|x xs IH]; intros h; cbn [Quant.run_checks Quant.enc]; [reflexivity|].
    destruct (quant c h (pred c h) x) as [[q r]|] eqn:Q.
    - specialize (IH (r :: h)). destruct (run_checks c (r :: h) xs) as [[[a b] o] ex].
      intros Hnz Hm. apply andb_true_iff in Hnz as [Hq Ha]. apply andb_true_iff in Hm as [He Hb].
      specialize (IH Ha Hb). destruct (enc c (r :: h) xs) as [[qs es] rs]. cbn [Quant.dec].
      destruct (q =? 0); [discriminate|]. rewrite (veq_eq _ _ He), IH. reflexivity.
    - specialize (IH (exact c x :: h)). destruct (run_checks c (exact c x :: h) xs) as [[[a b] o] ex].
      intros Hnz Hm. specialize (IH Hnz Hm). destruct (enc c (exact c x :: h) xs) as [[qs es] rs].
      cbn [Quant.dec Z.eqb]. rewrite IH. reflexivity.
  Qed.

  Theorem checked_bound c : forall xs h,
    let '(_, _, o, ex) := run_checks c h xs in
    o = true -> ex = true -> let '(_, _, rs) := enc c h xs in Forall2 (fun x r => okb c x r = true) xs rs.
  Proof.
    induction xs as [|x xs IH]; intros h; cbn [Quant.run_checks Quant.enc]; [constructor|].
    destruct (quant c h (pred c h) x) as [[q r]|] eqn:Q.
    - specialize (IH (r :: h)). destruct (run_checks c (r :: h) xs) as [[[a b] o] ex].
      intros Ho Hex. apply andb_true_iff in Ho as [H1 H2]. specialize (IH H2 Hex).
      destruct (enc c (r :: h) xs) as [[qs es] rs]. constructor; assumption.
    - specialize (IH (exact c x :: h)). destruct (run_checks c (exact c x :: h) xs) as [[[a b] o] ex].
      intros Ho Hex. apply andb_true_iff in Hex as [H1 H2]. specialize (IH Ho H2).
      destruct (enc c (exact c x :: h) xs) as [[qs es] rs]. constructor; assumption.
  Qed.
End Checked.
