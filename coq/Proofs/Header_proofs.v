From Coq Require Import ZArith List Bool Lia.
Import ListNotations.
Require Import SZV.Base.Bytes SZV.Gen.SrcConsts SZV.Model.Header SZV.Proofs.Bytes_proofs.
Local Open Scope Z_scope.

Lemma all_written_some l : all_written (some l) = true.
Proof. unfold all_written, some. induction l; cbn; auto. Qed.
Lemma all_written_app a b : all_written (a ++ b) = all_written a && all_written b.
Proof. unfold all_written. apply forallb_app. Qed.

Lemma modes_cases m : modes_ok m = true ->
  m = 0 \/ m = 1 \/ m = 2 \/ m = 3 \/ m = 4 \/ m = 10 \/ m = 11 \/ m = 12 \/ m = 13 \/ m = 14.
Proof.
  unfold modes_ok. cbn [existsb]. rewrite !orb_true_iff. intros H.
  repeat (destruct H as [H|H]; [apply Z.eqb_eq in H; subst; tauto|]). discriminate.
Qed.

(* C04: for every bound mode the library writes, every byte of the parameter block is assigned *)
Theorem params_all_written p : modes_ok (ebMode p) = true -> all_written (encode_params p) = true.
Proof.
  intro H. unfold encode_params. rewrite !all_written_app, !all_written_some. cbn [andb].
  assert (B: all_written (bound_bytes p) = true).
  { unfold bound_bytes, be4, zeros4. apply modes_cases in H.
    repeat (destruct H as [H|H]; [rewrite H; cbn [Z.eqb Pos.eqb orb]; rewrite ?all_written_app, ?all_written_some; reflexivity|]).
    rewrite H; cbn [Z.eqb Pos.eqb orb]; rewrite ?all_written_app, ?all_written_some; reflexivity. }
  rewrite B. cbn [andb]. destruct (dataType p =? 0); unfold be4; rewrite all_written_app, !all_written_some; reflexivity.
Qed.

Lemma some_length l : length (some l) = length l.
Proof. unfold some. apply map_length. Qed.

Theorem params_length p : modes_ok (ebMode p) = true ->
  Z.of_nat (length (encode_params p)) = if dataType p =? 0 then src_MetaDataByteLength else src_MetaDataByteLength_double.
Proof.
  intro H. unfold encode_params.
  assert (B: length (bound_bytes p) = 8%nat).
  { unfold bound_bytes, be4, zeros4, unset4. apply modes_cases in H.
    repeat (destruct H as [H|H]; [rewrite H; cbn [Z.eqb Pos.eqb orb]; rewrite ?app_length, ?some_length, ?to_be_length; reflexivity|]).
    rewrite H; cbn [Z.eqb Pos.eqb orb]; rewrite ?app_length, ?some_length, ?to_be_length; reflexivity. }
  rewrite !app_length, B, !some_length, !to_be_length.
  destruct (dataType p =? 0); unfold be4; rewrite !app_length, !some_length, !to_be_length; reflexivity.
Qed.

(* before the fix of convertSZParamsToBytes byte 15 was never assigned; the statement above would have
   been refuted by every parameter block *)

(* ---------- flag byte and mode/type byte: finite sweeps ---------- *)
Definition flag_sweep : bool :=
  forallb (fun a => forallb (fun b => forallb (fun c => forallb (fun d => forallb (fun e =>
    let f := ((((a * 2 + b) * 2 + c) * 4 + d) * 4 + e) mod 256 in
    ((f / 64) mod 2 =? a) && ((f / 32) mod 2 =? b) && ((f / 4) mod 4 =? d) && (f mod 4 =? e))
    [0; 1; 2]) [0; 1; 2; 3]) [0; 1]) [0; 1]) [0; 1].
Lemma flag_sweep_ok : flag_sweep = true. Proof. vm_compute. reflexivity. Qed.

Definition b5_sweep : bool :=
  forallb (fun m => forallb (fun t =>
    let b := ((m * 16) mod 256 + t mod 16) mod 256 in ((b / 16) mod 16 =? m) && (b mod 16 =? t))
    [0; 1; 2; 3; 4; 5; 6; 7; 8; 9]) [0; 1; 2; 3; 4; 10; 11; 12; 13; 14].
Lemma b5_sweep_ok : b5_sweep = true. Proof. vm_compute. reflexivity. Qed.

Lemma in_list01 v : (v =? 0) || (v =? 1) = true -> In v [0; 1].
Proof. rewrite orb_true_iff. intros [H|H]; apply Z.eqb_eq in H; subst; cbn; tauto. Qed.

Lemma flag_fields p : pblock_ok p = true ->
  let f := flag1 p in
  (f / 64) mod 2 = pb_optQuantMode p /\ (f / 32) mod 2 = dataEnd p /\ (f / 4) mod 4 = pb_szMode p /\ f mod 4 = gz_code (pb_gzipMode p).
Proof.
  unfold pblock_ok. intro H.
  repeat match goal with H: (_ && _) = true |- _ => apply andb_true_iff in H; destruct H as [? ?] end.
  assert (Ha: (pb_optQuantMode p =? 0) || (pb_optQuantMode p =? 1) = true) by assumption.
  assert (Hb: (dataEnd p =? 0) || (dataEnd p =? 1) = true) by assumption.
  assert (Hc: (sysEnd p =? 0) || (sysEnd p =? 1) = true) by assumption.
  assert (Hd1: (0 <=? pb_szMode p) = true) by assumption.
  assert (Hd2: (pb_szMode p <? 4) = true) by assumption.
  pose proof flag_sweep_ok as S. unfold flag_sweep in S.
  rewrite forallb_forall in S. specialize (S _ (in_list01 _ Ha)).
  rewrite forallb_forall in S. specialize (S _ (in_list01 _ Hb)).
  rewrite forallb_forall in S. specialize (S _ (in_list01 _ Hc)).
  apply Z.leb_le in Hd1. apply Z.ltb_lt in Hd2.
  assert (Hd: In (pb_szMode p) [0; 1; 2; 3]) by (cbn; lia).
  rewrite forallb_forall in S. specialize (S _ Hd).
  assert (He: In (gz_code (pb_gzipMode p)) [0; 1; 2]).
  { unfold gz_code. destruct (pb_gzipMode p =? 1); [cbn; tauto|]. destruct (pb_gzipMode p =? 0); [cbn; tauto|]. destruct (pb_gzipMode p =? 9); cbn; tauto. }
  rewrite forallb_forall in S. specialize (S _ He). cbv zeta in S.
  rewrite !andb_true_iff in S. destruct S as [[[S1 S2] S3] S4].
  apply Z.eqb_eq in S1, S2, S3, S4. unfold flag1. cbv zeta. auto.
Qed.

Lemma b5_fields m t : modes_ok m = true -> 0 <= t < 10 ->
  let b := ((m * 16) mod 256 + t mod 16) mod 256 in (b / 16) mod 16 = m /\ b mod 16 = t.
Proof.
  intros Hm Ht. pose proof b5_sweep_ok as S. unfold b5_sweep in S.
  apply modes_cases in Hm.
  assert (Im: In m [0; 1; 2; 3; 4; 10; 11; 12; 13; 14]) by (cbn; lia).
  assert (It: In t [0; 1; 2; 3; 4; 5; 6; 7; 8; 9]) by (cbn; lia).
  rewrite forallb_forall in S. specialize (S _ Im). rewrite forallb_forall in S. specialize (S _ It).
  cbv zeta in S. apply andb_true_iff in S as [S1 S2]. apply Z.eqb_eq in S1, S2. cbv zeta. auto.
Qed.

(* ---------- decode after encode ---------- *)
Lemma force_some l : force (some l) = l.
Proof. unfold force, some. rewrite map_map. apply map_id. Qed.
Lemma force_app a b : force (a ++ b) = force a ++ force b.
Proof. unfold force. apply map_app. Qed.

Lemma decode_shape f sd pt b5 B sol z IV MM :
  length sd = 2%nat -> length pt = 2%nat -> length B = 8%nat -> length IV = 4%nat ->
  decode_params ([f] ++ sd ++ pt ++ [b5] ++ B ++ [sol; z] ++ IV ++ MM) =
  {| v_optQuantMode := (f / 64) mod 2; v_dataEnd := (f / 32) mod 2; v_szMode := (f / 4) mod 4; v_gzipMode := gz_level (f mod 4);
     v_sampleDistance := to_signed 2 (from_be sd); v_predThr := to_signed 2 (from_be pt);
     v_ebMode := (b5 / 16) mod 16; v_dataType := b5 mod 16;
     v_b6 := from_be (firstn 4 B); v_b10 := from_be (skipn 4 B); v_sol := sol; v_intervals := from_be IV;
     v_min := if b5 mod 16 =? 0 then from_be (firstn 4 MM) else from_be (firstn 8 MM);
     v_max := if b5 mod 16 =? 0 then from_be (firstn 4 (skipn 4 MM)) else from_be (firstn 8 (skipn 8 MM)) |}.
Proof.
  intros H1 H2 H3 H4.
  destruct sd as [|s1 [|s0 [|]]]; try discriminate.
  destruct pt as [|t1 [|t0 [|]]]; try discriminate.
  destruct B as [|b0 [|b1 [|b2 [|b3 [|b4 [|b5' [|b6 [|b7 [|]]]]]]]]]; try discriminate.
  destruct IV as [|i0 [|i1 [|i2 [|i3 [|]]]]]; try discriminate.
  unfold decode_params, sub, byte_at. cbn [app skipn firstn nth]. reflexivity.
Qed.

Lemma signed2 v : -32768 <= v < 32768 -> to_signed 2 (from_be (to_be 2 (v mod 65536))) = v.
Proof.
  intro H. change 65536 with (256 ^ Z.of_nat 2). change (v mod 256 ^ Z.of_nat 2) with (to_unsigned 2 v).
  apply signed_roundtrip; [lia|]. change (256 ^ Z.of_nat 2 / 2) with 32768. lia.
Qed.

Ltac split_ok H :=
  unfold pblock_ok in H;
  repeat match goal with H: (_ && _) = true |- _ => apply andb_true_iff in H; destruct H as [? ?] end;
  repeat match goal with
  | H: (_ <=? _) = true |- _ => apply Z.leb_le in H
  | H: (_ <? _) = true |- _ => apply Z.ltb_lt in H
  end.

(* C06: every field the metadata query reports is the field the writer stored *)
Theorem decode_encode_params p : pblock_ok p = true -> decode_params (force (encode_params p)) = view_of p.
Proof.
  intro H. pose proof (flag_fields p H) as (F1 & F2 & F3 & F4).
  assert (Hm: modes_ok (ebMode p) = true).
  { unfold pblock_ok in H. repeat match goal with H: (_ && _) = true |- _ => apply andb_true_iff in H; destruct H as [? ?] end. assumption. }
  split_ok H.
  pose proof (b5_fields (ebMode p) (dataType p) Hm ltac:(lia)) as (G1 & G2).
  unfold encode_params. rewrite !force_app, !force_some.
  assert (LB: length (force (bound_bytes p)) = 8%nat).
  { unfold force. rewrite map_length. unfold bound_bytes, be4, zeros4, unset4. apply modes_cases in Hm.
    repeat (destruct Hm as [Hm|Hm]; [rewrite Hm; cbn [Z.eqb Pos.eqb orb]; rewrite ?app_length, ?some_length, ?to_be_length; reflexivity|]).
    rewrite Hm; cbn [Z.eqb Pos.eqb orb]; rewrite ?app_length, ?some_length, ?to_be_length; reflexivity. }
  rewrite (decode_shape _ _ _ _ _ _ _ _ _ (to_be_length 2 _) (to_be_length 2 _) LB (to_be_length 4 _)).
  rewrite F1, F2, F3, F4, G1, G2, !signed2 by lia.
  rewrite from_be_to_be by (change (256 ^ Z.of_nat 4) with (2 ^ 32); apply Z.mod_pos_bound; lia).
  rewrite (Z.mod_small (solID p)) by lia.
  rewrite (Z.mod_small (if pb_optQuantMode p =? 1 then maxQ p else quantI p)) by (destruct (pb_optQuantMode p =? 1); lia).
  unfold view_of. f_equal.
  - (* bytes 6..9 *)
    unfold bound_bytes, be4, zeros4. apply modes_cases in Hm.
    repeat (destruct Hm as [Hm|Hm]; [rewrite Hm; cbn [Z.eqb Pos.eqb orb]; rewrite force_app, !force_some;
      rewrite firstn_app; cbn [length]; rewrite ?to_be_length, ?Nat.sub_diag, ?firstn_O, ?app_nil_r; rewrite ?firstn_all2 by (rewrite ?to_be_length; cbn; lia);
      try reflexivity; apply from_be_to_be; change (256 ^ Z.of_nat 4) with (2 ^ 32); lia|]).
    rewrite Hm; cbn [Z.eqb Pos.eqb orb]; rewrite force_app, !force_some;
      rewrite firstn_app; cbn [length]; rewrite ?to_be_length, ?Nat.sub_diag, ?firstn_O, ?app_nil_r; rewrite ?firstn_all2 by (rewrite ?to_be_length; cbn; lia);
      try reflexivity; apply from_be_to_be; change (256 ^ Z.of_nat 4) with (2 ^ 32); lia.
  - (* bytes 10..13 *)
    unfold bound_bytes, be4, zeros4. apply modes_cases in Hm.
    repeat (destruct Hm as [Hm|Hm]; [rewrite Hm; cbn [Z.eqb Pos.eqb orb]; rewrite force_app, !force_some;
      rewrite skipn_app; cbn [length]; rewrite ?to_be_length, ?Nat.sub_diag, ?skipn_O; rewrite ?skipn_all2 by (rewrite ?to_be_length; cbn; lia); cbn [app];
      try reflexivity; apply from_be_to_be; change (256 ^ Z.of_nat 4) with (2 ^ 32); lia|]).
    rewrite Hm; cbn [Z.eqb Pos.eqb orb]; rewrite force_app, !force_some;
      rewrite skipn_app; cbn [length]; rewrite ?to_be_length, ?Nat.sub_diag, ?skipn_O; rewrite ?skipn_all2 by (rewrite ?to_be_length; cbn; lia); cbn [app];
      try reflexivity; apply from_be_to_be; change (256 ^ Z.of_nat 4) with (2 ^ 32); lia.
  - (* min *)
    destruct (dataType p =? 0); unfold be4; rewrite force_app, !force_some, firstn_app, to_be_length, Nat.sub_diag, firstn_O, app_nil_r;
    rewrite firstn_all2 by (rewrite to_be_length; lia); apply from_be_to_be;
    [change (256 ^ Z.of_nat 4) with (2 ^ 32)|change (256 ^ Z.of_nat 8) with (2 ^ 64)]; lia.
  - (* max *)
    destruct (dataType p =? 0); unfold be4; rewrite force_app, !force_some, skipn_app, to_be_length, Nat.sub_diag, skipn_O;
    rewrite skipn_all2 by (rewrite to_be_length; lia); cbn [app]; rewrite firstn_all2 by (rewrite to_be_length; lia); apply from_be_to_be;
    [change (256 ^ Z.of_nat 4) with (2 ^ 32)|change (256 ^ Z.of_nat 8) with (2 ^ 64)]; lia.
Qed.

(* ---------- the header walk of SZ_getMetadata ---------- *)
Definition hflag_sweep : bool :=
  forallb (fun c => forallb (fun l => forallb (fun s => forallb (fun o =>
    negb (Z.land o 81 =? 0) ||
    (let f := c + 16 * l + 64 * s + o in ((f mod 2 =? c) && ((f / 16) mod 2 =? l) && ((f / 64) mod 2 =? s))))
    (map Z.of_nat (seq 0 256))) [0; 1]) [0; 1]) [0; 1].
Lemma hflag_sweep_ok : hflag_sweep = true. Proof. vm_compute. reflexivity. Qed.

Lemma hflag_fields c l s o : In c [0; 1] -> In l [0; 1] -> In s [0; 1] -> 0 <= o < 256 -> Z.land o 81 = 0 ->
  let f := c + 16 * l + 64 * s + o in f mod 2 = c /\ (f / 16) mod 2 = l /\ (f / 64) mod 2 = s.
Proof.
  intros Hc Hl Hs Ho Hz. pose proof hflag_sweep_ok as S. unfold hflag_sweep in S.
  rewrite forallb_forall in S. specialize (S _ Hc). rewrite forallb_forall in S. specialize (S _ Hl).
  rewrite forallb_forall in S. specialize (S _ Hs). rewrite forallb_forall in S.
  assert (Io : In o (map Z.of_nat (seq 0 256))).
  { apply in_map_iff. exists (Z.to_nat o). split; [lia|]. apply in_seq. lia. }
  specialize (S _ Io). rewrite Hz in S. cbn [Z.eqb negb orb] in S. cbv zeta in S.
  rewrite !andb_true_iff in S. destruct S as [[S1 S2] S3]. apply Z.eqb_eq in S1, S2, S3. cbv zeta. auto.
Qed.

Definition header_ok (h:header) : bool :=
  pblock_ok (h_params h) && ((h_const h =? 0) || (h_const h =? 1)) && ((h_lossless h =? 0) || (h_lossless h =? 1)) &&
  ((h_size8 h =? 0) || (h_size8 h =? 1)) && (0 <=? h_other h) && (h_other h <? 256) && (Z.land (h_other h) 81 =? 0) &&
  (0 <=? h_length h) && (h_length h <? (if h_size8 h =? 1 then 2 ^ 64 else 2 ^ 32)).

(* the twenty bytes before min/max survive the truncation of the block to its field and anything that follows *)
Lemma walk_shape f sd pt b5 B sol z IV MM (m:nat) T :
  length sd = 2%nat -> length pt = 2%nat -> length B = 8%nat -> length IV = 4%nat -> (20 <= m)%nat ->
  let v := decode_params (firstn m ([f] ++ sd ++ pt ++ [b5] ++ B ++ [sol; z] ++ IV ++ MM) ++ T) in
  v_optQuantMode v = (f / 64) mod 2 /\ v_dataEnd v = (f / 32) mod 2 /\ v_szMode v = (f / 4) mod 4 /\ v_gzipMode v = gz_level (f mod 4) /\
  v_sampleDistance v = to_signed 2 (from_be sd) /\ v_predThr v = to_signed 2 (from_be pt) /\
  v_ebMode v = (b5 / 16) mod 16 /\ v_dataType v = b5 mod 16 /\ v_b6 v = from_be (firstn 4 B) /\ v_b10 v = from_be (skipn 4 B) /\
  v_sol v = sol /\ v_intervals v = from_be IV.
Proof.
  intros H1 H2 H3 H4 Hm.
  destruct sd as [|s1 [|s0 [|]]]; try discriminate.
  destruct pt as [|t1 [|t0 [|]]]; try discriminate.
  destruct B as [|b0 [|b1 [|b2 [|b3 [|b4 [|b5' [|b6 [|b7 [|]]]]]]]]]; try discriminate.
  destruct IV as [|i0 [|i1 [|i2 [|i3 [|]]]]]; try discriminate.
  do 20 (destruct m as [|m]; [lia|]).
  cbn [app firstn]. unfold decode_params, sub, byte_at. cbn [app skipn firstn nth]. cbv zeta. repeat split; reflexivity.
Qed.

Lemma skipn_app_exact {A} (a b:list A) n : length a = n -> skipn n (a ++ b) = b.
Proof. intro H. subst. rewrite skipn_app, skipn_all, Nat.sub_diag. reflexivity. Qed.
Lemma firstn_app_exact {A} (a b:list A) n : length a = n -> firstn n (a ++ b) = a.
Proof. intro H. subst. rewrite firstn_app, firstn_all, Nat.sub_diag, firstn_O, app_nil_r. reflexivity. Qed.

(* SZ_getMetadata on the prefix the serialisers write (whatever follows it): constant / lossless flags, size type,
   element count, and every field of the parameter block it reports *)
Theorem get_metadata_header h rest : header_ok h = true ->
  let m := get_metadata (header_bytes h ++ rest) in
  let p := h_params h in
  m_const m = h_const h /\ m_lossless m = h_lossless h /\ m_sizeType m = (if h_size8 h =? 1 then 8 else 4) /\ m_length m = h_length h /\
  v_dataType (m_view m) = dataType p /\ v_ebMode (m_view m) = ebMode p /\ v_szMode (m_view m) = pb_szMode p /\
  v_b6 (m_view m) = v_b6 (view_of p) /\ v_b10 (m_view m) = v_b10 (view_of p) /\ v_intervals (m_view m) = v_intervals (view_of p) /\
  v_optQuantMode (m_view m) = pb_optQuantMode p /\ v_sampleDistance (m_view m) = pb_sampleDistance p /\ v_predThr (m_view m) = predThr p /\
  v_sol (m_view m) = solID p.
Proof.
  intro H. unfold header_ok in H.
  repeat match goal with H: (_ && _) = true |- _ => apply andb_true_iff in H; destruct H as [? ?] end.
  match goal with H: pblock_ok _ = true |- _ => rename H into Hp end.
  assert (Hc : In (h_const h) [0; 1]) by (apply in_list01; assumption).
  assert (Hl : In (h_lossless h) [0; 1]) by (apply in_list01; assumption).
  assert (Hs : In (h_size8 h) [0; 1]) by (apply in_list01; assumption).
  repeat match goal with
  | H: (_ <=? _) = true |- _ => apply Z.leb_le in H
  | H: (_ <? _) = true |- _ => apply Z.ltb_lt in H
  | H: (Z.land _ _ =? 0) = true |- _ => apply Z.eqb_eq in H
  end.
  pose proof (hflag_fields _ _ _ (h_other h) Hc Hl Hs ltac:(lia) ltac:(assumption)) as (F1 & F2 & F3).
  pose proof (decode_encode_params _ Hp) as DE.
  pose proof (flag_fields _ Hp) as (G1 & G2 & G3 & G4).
  assert (Hm: modes_ok (ebMode (h_params h)) = true).
  { unfold pblock_ok in Hp. repeat match goal with H: (_ && _) = true |- _ => apply andb_true_iff in H; destruct H as [? ?] end. assumption. }
  pose proof Hp as Hp'. split_ok Hp'.
  pose proof (b5_fields (ebMode (h_params h)) (dataType (h_params h)) Hm ltac:(lia)) as (B1 & B2).
  (* shape of the encoded block *)
  assert (LB: length (force (bound_bytes (h_params h))) = 8%nat).
  { unfold force. rewrite map_length. unfold bound_bytes, be4, zeros4, unset4. apply modes_cases in Hm.
    repeat (destruct Hm as [Hm|Hm]; [rewrite Hm; cbn [Z.eqb Pos.eqb orb]; rewrite ?app_length, ?some_length, ?to_be_length; reflexivity|]).
    rewrite Hm; cbn [Z.eqb Pos.eqb orb]; rewrite ?app_length, ?some_length, ?to_be_length; reflexivity. }
  set (E := force (encode_params (h_params h))) in *.
  assert (EE : exists MM, E = [flag1 (h_params h)] ++ to_be 2 (pb_sampleDistance (h_params h) mod 65536) ++ to_be 2 (predThr (h_params h) mod 65536)
      ++ [((ebMode (h_params h) * 16) mod 256 + dataType (h_params h) mod 16) mod 256] ++ force (bound_bytes (h_params h))
      ++ [solID (h_params h) mod 256; 0] ++ to_be 4 ((if pb_optQuantMode (h_params h) =? 1 then maxQ (h_params h) else quantI (h_params h)) mod 2 ^ 32) ++ MM).
  { subst E. unfold encode_params. rewrite !force_app, !force_some. eexists. reflexivity. }
  destruct EE as [MM EE].
  assert (LE : length E = Z.to_nat (if dataType (h_params h) =? 0 then 28 else 36)).
  { pose proof (params_length (h_params h) Hm) as PL. subst E. unfold force. rewrite map_length.
    unfold SrcConsts.src_MetaDataByteLength, SrcConsts.src_MetaDataByteLength_double in PL. destruct (dataType (h_params h) =? 0); lia. }
  (* the walk *)
  unfold get_metadata, header_bytes. cbv zeta. fold E. cbn [m_view m_const m_lossless m_sizeType m_length].
  set (P := firstn (Z.to_nat (mdbl (dataType (h_params h)))) E).
  set (opt := if is_int (dataType (h_params h)) && (h_const h =? 0) && (h_lossless h =? 0) then [h_exactByteSize h] else []).
  set (st := if h_size8 h =? 1 then 8%nat else 4%nat).
  cbn [app]. unfold byte_at. cbn [nth]. rewrite !F1, !F2, !F3.
  cbn [skipn].
  assert (Mge : (20 <= Z.to_nat (mdbl (dataType (h_params h))))%nat).
  { unfold mdbl, SrcConsts.src_MetaDataByteLength_double, SrcConsts.src_MetaDataByteLength. destruct (dataType (h_params h) =? 1); lia. }
  pose proof (walk_shape (flag1 (h_params h)) (to_be 2 (pb_sampleDistance (h_params h) mod 65536)) (to_be 2 (predThr (h_params h) mod 65536))
                (((ebMode (h_params h) * 16) mod 256 + dataType (h_params h) mod 16) mod 256) (force (bound_bytes (h_params h))) (solID (h_params h) mod 256) 0
                (to_be 4 ((if pb_optQuantMode (h_params h) =? 1 then maxQ (h_params h) else quantI (h_params h)) mod 2 ^ 32)) MM
                (Z.to_nat (mdbl (dataType (h_params h)))) ((opt ++ to_be st (h_length h)) ++ rest)
                (to_be_length 2 _) (to_be_length 2 _) LB (to_be_length 4 _) Mge) as W.
  rewrite <- EE in W. fold P in W. cbv zeta in W.
  replace ((P ++ opt ++ to_be st (h_length h)) ++ rest) with (P ++ (opt ++ to_be st (h_length h)) ++ rest) by (rewrite <- !app_assoc; reflexivity).
  destruct W as (W1 & W2 & W3 & W4 & W5 & W6 & W7 & W8 & W9 & W10 & W11 & W12).
  rewrite W8, B2.
  (* the DE-derived fields *)
  assert (V : forall q, q = view_of (h_params h) -> True) by auto.
  split; [reflexivity|]. split; [reflexivity|]. split; [destruct Hs as [Hs|[Hs|[]]]; rewrite <- Hs; reflexivity|].
  split.
  { (* the element count *)
    assert (LP : length P = Z.to_nat (mdbl (dataType (h_params h)))).
    { subst P. rewrite firstn_length, LE. unfold mdbl, SrcConsts.src_MetaDataByteLength_double, SrcConsts.src_MetaDataByteLength.
      destruct (dataType (h_params h) =? 1) eqn:E1; destruct (dataType (h_params h) =? 0) eqn:E0; lia. }
    unfold sub.
    assert (Lopt : length opt = if is_int (dataType (h_params h)) && (h_const h =? 0) && (h_lossless h =? 0) then 1%nat else 0%nat).
    { subst opt. destruct (is_int _ && _ && _); reflexivity. }
    replace (Z.to_nat (4 + mdbl (dataType (h_params h)) + (if is_int (dataType (h_params h)) && (h_const h =? 0) && (h_lossless h =? 0) then 1 else 0)))
      with (4 + (length P + length opt))%nat.
    2:{ rewrite LP, Lopt. unfold mdbl, SrcConsts.src_MetaDataByteLength_double, SrcConsts.src_MetaDataByteLength.
        destruct (dataType (h_params h) =? 1); destruct (is_int _ && _ && _); lia. }
    cbn [plus skipn].
    replace (P ++ (opt ++ to_be st (h_length h)) ++ rest) with ((P ++ opt) ++ (to_be st (h_length h) ++ rest)) by (rewrite <- !app_assoc; reflexivity).
    rewrite skipn_app_exact by (rewrite app_length; reflexivity).
    replace (Z.to_nat (if h_size8 h =? 1 then 8 else 4)) with st by (subst st; destruct (h_size8 h =? 1); reflexivity).
    rewrite firstn_app_exact by apply to_be_length.
    apply from_be_to_be. subst st. destruct (h_size8 h =? 1); [change (256 ^ Z.of_nat 8) with (2 ^ 64)|change (256 ^ Z.of_nat 4) with (2 ^ 32)]; lia. }
  rewrite W7. rewrite B1. rewrite W3. rewrite G3. rewrite W1. rewrite G1. rewrite W11, W5, W6, W9, W10, W12.
  rewrite !signed2 by lia. rewrite (Z.mod_small (solID (h_params h))) by lia.
  (* b6, b10, intervals: as in decode_encode_params *)
  rewrite <- DE. subst E. unfold encode_params. rewrite !force_app, !force_some.
  rewrite (decode_shape _ _ _ _ _ _ _ _ _ (to_be_length 2 _) (to_be_length 2 _) LB (to_be_length 4 _)). cbn [v_b6 v_b10 v_intervals].
  repeat split; reflexivity.
Qed.

(* ---- integer streams: where the metadata query reads the real interval count ---- *)
Require Import SZV.Gen.SrcFacts.
Definition fwidth (st:Z) (f:Z) : Z := if f =? -1 then st else if f =? -2 then src_MetaDataByteLength else f.
Definition fsum (st:Z) (l:list Z) : Z := fold_right (fun f a => fwidth st f + a) 0 l.
(* the offset used by SZ_getMetadata for an integer stream is the end of the fields that convertTDPStoBytes_int writes before the
   coded type array, plus one word (encode_withTree stores the node count first and the real number of intervals second), for both
   size types; and the field list is the documented one *)
Definition meta_int_offset_checks : bool :=
  forallb (fun st => fsum st src_meta_int_offset_terms =? fsum st src_int_stream_fields + 4) [4; 8]
  && forallb (fun f => (f =? -1) || (f =? -2) || (0 <? f)) src_int_stream_fields
  && (if list_eq_dec Z.eq_dec src_int_stream_fields [3; 1; -2; 1; -1; 4; 4; 8; 8; -1; -1; -1] then true else false)
  && src_huffman_count_is_second_word.
Lemma meta_int_offset_ok : meta_int_offset_checks = true.
Proof. vm_compute. reflexivity. Qed.
