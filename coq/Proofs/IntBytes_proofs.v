(* The width in which the integer kernels store an exact value (its offset from the array's minimum): the function is
   translated from dataCompression.c on every run (Gen/SrcIntBytes.v, tie T1). *)
From Coq Require Import ZArith List Lia.
Import ListNotations.
Require Import SZV.Base.Bytes SZV.Proofs.Bytes_proofs SZV.Gen.SrcIntBytes.
Local Open Scope Z_scope.

Definition exact_width (r:Z) : nat := Z.to_nat (c_computeByteSizePerIntValue r).

Lemma exact_width_cases r : c_computeByteSizePerIntValue r = 1 \/ c_computeByteSizePerIntValue r = 2 \/
                            c_computeByteSizePerIntValue r = 4 \/ c_computeByteSizePerIntValue r = 8.
Proof. unfold c_computeByteSizePerIntValue. destruct (r <? 256); [auto|]. destruct (r <? 65536); [auto|]. destruct (r <? 4294967296); auto. Qed.

(* every offset 0..r of a value range r (a signed 64-bit quantity in the source) fits the chosen width *)
Lemma exact_width_fits r : 0 <= r < 2 ^ 63 -> r < 256 ^ Z.of_nat (exact_width r).
Proof.
  intros Hr. unfold exact_width, c_computeByteSizePerIntValue.
  destruct (Z.ltb_spec r 256); [change (256 ^ Z.of_nat (Z.to_nat 1)) with 256; lia|].
  destruct (Z.ltb_spec r 65536); [change (256 ^ Z.of_nat (Z.to_nat 2)) with 65536; lia|].
  destruct (Z.ltb_spec r 4294967296); [change (256 ^ Z.of_nat (Z.to_nat 4)) with 4294967296; lia|].
  change (256 ^ Z.of_nat (Z.to_nat 8)) with (2 ^ 64). assert (2 ^ 63 < 2 ^ 64) by (vm_compute; reflexivity). lia.
Qed.

(* an exact value written as its offset from the minimum in that width and read back is the value itself, for every value of the array *)
Theorem exact_value_roundtrip mn r v : 0 <= r < 2 ^ 63 -> mn <= v <= mn + r ->
  mn + from_be (to_be (exact_width r) (v - mn)) = v.
Proof.
  intros Hr Hv. pose proof (exact_width_fits r Hr) as F.
  rewrite from_be_to_be; lia.
Qed.

(* and no narrower width of the four would do at the boundaries: the choice is tight *)
Lemma exact_width_tight : c_computeByteSizePerIntValue 255 = 1 /\ c_computeByteSizePerIntValue 256 = 2 /\
  c_computeByteSizePerIntValue 65535 = 2 /\ c_computeByteSizePerIntValue 65536 = 4 /\
  c_computeByteSizePerIntValue 4294967295 = 4 /\ c_computeByteSizePerIntValue 4294967296 = 8.
Proof. repeat split; reflexivity. Qed.
