From Coq Require Import ZArith List Bool Lia.
Import ListNotations.
Require Import SZV.Base.CSem SZV.Gen.SrcFuns SZV.Model.Dims.
Local Open Scope Z_scope.

Ltac dz x := let E := fresh "Z" in destruct (x =? 0) eqn:E; [apply Z.eqb_eq in E; subst x | apply Z.eqb_neq in E].
Ltac d1 x := let E := fresh "O" in destruct (x =? 1) eqn:E; [apply Z.eqb_eq in E; subst x | apply Z.eqb_neq in E].

Ltac finish :=
  repeat (cbn; rewrite ?Z.geb_leb, ?Z.gtb_ltb; match goal with
  | |- context [?x <=? ?k] => destruct (Z.leb_spec x k); [try (exfalso; lia)|try (exfalso; lia)]
  | |- context [?x =? ?k] => destruct (Z.eqb_spec x k); [try (exfalso; lia)|try (exfalso; lia)]
  | |- context [?x <? ?k] => destruct (Z.ltb_spec x k); [try (exfalso; lia)|try (exfalso; lia)]
  end); cbn.

(* the filter removes exactly the size-1 dimensions (an all-ones shape becomes the 1-D shape (1))
   and leaves a well-formed tuple *)
Theorem filter_squeezes r5 r4 r3 r2 r1 :
  wf r5 r4 r3 r2 r1 ->
  let '(f5, f4, f3, f2, f1) := filtered r5 r4 r3 r2 r1 in
  dims_of f5 f4 f3 f2 f1 = canon (dims_of r5 r4 r3 r2 r1) /\ wf f5 f4 f3 f2 f1.
Proof.
  unfold wf, small, canon, dims_of, present, squeeze, filtered.
  intros (H5 & H4 & H3 & H2 & H1 & Hp & Z2 & Z3 & Z4).
  unfold c_filterDimension, c_computeDimension. cbv zeta.
  assert (Hs: (r2 = 0 /\ r3 = 0 /\ r4 = 0 /\ r5 = 0) \/ (r2 <> 0 /\ r3 = 0 /\ r4 = 0 /\ r5 = 0) \/
              (r2 <> 0 /\ r3 <> 0 /\ r4 = 0 /\ r5 = 0) \/ (r2 <> 0 /\ r3 <> 0 /\ r4 <> 0 /\ r5 = 0) \/
              (r2 <> 0 /\ r3 <> 0 /\ r4 <> 0 /\ r5 <> 0)) by lia.
  clear Z2 Z3 Z4.
  destruct Hs as [(-> & -> & -> & ->)|[(N2 & -> & -> & ->)|[(N2 & N3 & -> & ->)|[(N2 & N3 & N4 & ->)|(N2 & N3 & N4 & N5)]]]].
  all: cbn [Z.eqb filter negb].
  - (* 1-D *) d1 r1; finish; repeat split; try reflexivity; try lia.
  - (* 2-D *) d1 r1; d1 r2; finish; repeat split; try reflexivity; try lia.
  - (* 3-D *) d1 r1; d1 r2; d1 r3; finish; repeat split; try reflexivity; try lia.
  - (* 4-D *) d1 r1; d1 r2; d1 r3; d1 r4; finish; repeat split; try reflexivity; try lia.
  - (* 5-D *) d1 r1; d1 r2; d1 r3; d1 r4; d1 r5; finish; repeat split; try reflexivity; try lia.
Qed.

