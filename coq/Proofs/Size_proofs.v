From Coq Require Import ZArith List Bool Lia.
Import ListNotations.
Require Import SZV.Gen.SrcConsts SZV.Model.Size.
Local Open Scope Z_scope.
Ltac Zify.zify_post_hook ::= Z.div_mod_to_equations.

Definition ty_ok (ty:Z) : Prop := 0 <= ty <= 9.

Lemma esize_bounds ty : ty_ok ty -> 1 <= esize ty <= 8.
Proof.
  unfold ty_ok, esize. intro H.
  assert (ty = 0 \/ ty = 1 \/ ty = 2 \/ ty = 3 \/ ty = 4 \/ ty = 5 \/ ty = 6 \/ ty = 7 \/ ty = 8 \/ ty = 9) as C by lia.
  repeat (destruct C as [->|C]; [cbn; lia|]). subst. cbn. lia.
Qed.

Lemma mdbl_bounds ty : 28 <= mdbl ty <= 36.
Proof. unfold mdbl, src_MetaDataByteLength, src_MetaDataByteLength_double. destruct (ty =? 1); lia. Qed.

(* constant streams are below 64 bytes whatever the length of the array *)
Theorem const_stream_small ty st : ty_ok ty -> (st = 4 \/ st = 8) -> const_stream ty st < 64.
Proof.
  intros Ht Hs. unfold ty_ok in Ht.
  assert (ty = 0 \/ ty = 1 \/ ty = 2 \/ ty = 3 \/ ty = 4 \/ ty = 5 \/ ty = 6 \/ ty = 7 \/ ty = 8 \/ ty = 9) as C by lia.
  destruct Hs as [-> | ->]; repeat (destruct C as [->|C]; [vm_compute; reflexivity|]); subst; vm_compute; reflexivity.
Qed.

(* before the wrapper no path exceeds the raw size by more than the raw-copy header (or its own guard threshold) *)
Theorem presize_bound ty st n k thr : presize ty st n k thr <= Z.max (raw_stream ty st n) (thr - 1).
Proof. unfold presize. destruct (Z.leb_spec thr k); lia. Qed.

Section Wrapped.
  Variable wrap : Z -> Z.
  (* worst-case framing assumed of the back end in use: zstd stores incompressible input in raw blocks
     (3 bytes per 128 KiB + at most 22 bytes of frame header/checksum); zlib's deflateBound is
     len + len/4096 + len/16384 + len/2^25 + 13.  Both are below len + len/3000 + 40 for every len
     (backends_meet_wrap_bound below; len/3277, the figure sampled by the check, is tighter and holds for deflateBound only below 5.6e8 bytes). *)
  Hypothesis wrap_bound : forall s, 0 <= s -> wrap s <= s + s / 3000 + 40.

  Theorem out_size_bound ty st n tiny const best_speed k thr :
    ty_ok ty -> (st = 4 \/ st = 8) -> 0 <= n -> 0 <= k ->
    thr <= raw_stream ty st n + 8 ->        (* the guards in the source fire at raw + header (+ a few bytes) *)
    out_size wrap ty st n tiny const best_speed k thr <= raw ty n + 128 + raw ty n / 1000.
  Proof.
    intros Ht Hs Hn Hk Hthr. unfold out_size.
    pose proof (esize_bounds ty Ht) as He. pose proof (mdbl_bounds ty) as Hm.
    assert (Hr: 0 <= raw ty n) by (unfold raw; nia).
    assert (Hd: 0 <= raw ty n / 1000) by (apply Z.div_pos; lia).
    destruct tiny; [lia|].
    destruct const.
    - pose proof (const_stream_small ty st Ht Hs). lia.
    - pose proof (presize_bound ty st n k thr) as P.
      assert (S: presize ty st n k thr <= raw ty n + 56) by (unfold raw_stream in *; lia).
      assert (S0: 0 <= presize ty st n k thr) by (unfold presize, raw_stream; destruct (thr <=? k); lia).
      destruct best_speed; [lia|].
      pose proof (wrap_bound _ S0) as W.
      set (s := presize ty st n k thr) in *. set (r := raw ty n) in *.
      assert (s / 3000 <= (r + 56) / 3000) by (apply Z.div_le_mono; lia).
      assert ((r + 56) / 3000 <= r / 1000 + 1) by lia.
      lia.
  Qed.
End Wrapped.

(* the buffer sz_lossless_compress hands to ZSTD_compress is never smaller than zstd's worst case *)
Lemma zstd_buffer_sufficient : forall n, 0 <= n -> zstd_worst n <= zstd_buffer n.
Proof.
  intros n Hn. unfold zstd_worst, zstd_buffer, SrcFacts.src_zstd_small_limit, SrcFacts.src_zstd_small_size, SrcFacts.src_zstd_factor_milli.
  destruct (Z.ltb_spec n 100).
  - assert (n / 131072 = 0) by (apply Z.div_small; lia). lia.
  - pose proof (Z.div_mod n 131072 ltac:(lia)). pose proof (Z.mod_pos_bound n 131072 ltac:(lia)).
    pose proof (Z.div_mod (n * 1200) 1000 ltac:(lia)). pose proof (Z.mod_pos_bound (n * 1200) 1000 ltac:(lia)). lia.
Qed.

(* ---- the hypothesis of out_size_bound is met by both back ends' documented worst cases, for every length ---- *)
Lemma zstd_worst_meets_wrap_bound : forall s, 0 <= s -> zstd_worst s <= s + s / 3000 + 40.
Proof. intros s Hs. unfold zstd_worst. lia. Qed.

Lemma deflate_bound_meets_wrap_bound : forall s, 0 <= s -> deflate_bound s <= s + s / 3000 + 40.
Proof. intros s Hs. unfold deflate_bound. lia. Qed.

(* the tighter figure of the earlier statement (s/3277) is implied, and is NOT met by deflateBound for very long streams *)
Lemma wrap_3277_implies_3000 : forall s w, 0 <= s -> w <= s + s / 3277 + 40 -> w <= s + s / 3000 + 40.
Proof. intros s w Hs H. assert (s / 3277 <= s / 3000) by (apply Z.div_le_compat_l; lia). lia. Qed.

Lemma deflate_bound_exceeds_3277_refuted : exists s, 0 <= s /\ ~ deflate_bound s <= s + s / 3277 + 40.
Proof. exists 1000000000. split; [lia|]. vm_compute. intro H; apply H; reflexivity. Qed.

Theorem out_size_bound_backends (wrap:Z -> Z) :
  (forall s, 0 <= s -> wrap s <= zstd_worst s \/ wrap s <= deflate_bound s) ->
  forall ty st n tiny const best_speed k thr, ty_ok ty -> (st = 4 \/ st = 8) -> 0 <= n -> 0 <= k ->
  thr <= raw_stream ty st n + 8 ->
  out_size wrap ty st n tiny const best_speed k thr <= raw ty n + 128 + raw ty n / 1000.
Proof.
  intros H. apply out_size_bound. intros s Hs. destruct (H s Hs) as [W|W].
  - pose proof (zstd_worst_meets_wrap_bound s Hs). lia.
  - pose proof (deflate_bound_meets_wrap_bound s Hs). lia.
Qed.
