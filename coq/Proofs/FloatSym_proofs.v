(* Symmetry of round-to-nearest-even arithmetic under negation: (float)(-s), multiplication by a negated factor, and
   p - y = p + (-y), bit for bit.  Used to show that the decoder's pred + (code - radius) * interval reproduces the encoder's
   pred - state * interval (C01). *)
From Coq Require Import ZArith List Bool Lia SpecFloat.
From Flocq Require Import Core.Core IEEE754.BinarySingleNaN IEEE754.Binary IEEE754.Bits.
Module BSN := BinarySingleNaN.

Section Sym.
Variables prec emax : Z.
Context (prec_gt_0_ : FLX.Prec_gt_0 prec) (prec_lt_emax_ : BSN.Prec_lt_emax prec emax).

Lemma round_aux_opp sx mx ex lx :
  SFopp (BSN.binary_round_aux prec emax mode_NE sx mx ex lx) = BSN.binary_round_aux prec emax mode_NE (negb sx) mx ex lx.
Proof.
  unfold BSN.binary_round_aux.
  set (shr := shr_fexp _ _ _ _ _); case shr; intros mrs e''.
  unfold choice_mode.
  set (shr' := shr_fexp _ _ _ _ _); case shr'; intros mrs' e'''.
  unfold binary_fit_aux.
  now case (shr_m mrs') as [|p|p]; [|case Z.leb|].
Qed.

Lemma B2SF_Bopp (x : BSN.binary_float prec emax) : BSN.B2SF (BSN.Bopp x) = SFopp (BSN.B2SF x).
Proof. destruct x; reflexivity. Qed.

Lemma Bmult_Bopp_l (x y : BSN.binary_float prec emax) :
  BSN.Bmult mode_NE (BSN.Bopp x) y = BSN.Bopp (BSN.Bmult mode_NE x y).
Proof.
  destruct x as [sx|sx| |sx mx ex Hx], y as [sy|sy| |sy my ey Hy]; simpl; try reflexivity;
    try (now destruct sx, sy).
  apply BSN.B2SF_inj. rewrite B2SF_Bopp, !BSN.B2SF_SF2B, round_aux_opp. destruct sx, sy; reflexivity.
Qed.

(* (float)(-z) = -(float)z for z <> 0 *)
Lemma normalize_opp z e : z <> 0%Z ->
  BSN.binary_normalize prec emax prec_gt_0_ prec_lt_emax_ mode_NE (- z) e false =
  BSN.Bopp (BSN.binary_normalize prec emax prec_gt_0_ prec_lt_emax_ mode_NE z e false).
Proof.
  intro Hz. destruct z as [|p|p]; [contradiction| |]; simpl.
  - apply BSN.B2SF_inj. rewrite B2SF_Bopp, !BSN.B2SF_SF2B. unfold BSN.binary_round.
    destruct (BSN.shl_align_fexp prec emax p e) as [mz ez]. rewrite round_aux_opp. reflexivity.
  - apply BSN.B2SF_inj. rewrite B2SF_Bopp, !BSN.B2SF_SF2B. unfold BSN.binary_round.
    destruct (BSN.shl_align_fexp prec emax p e) as [mz ez]. rewrite round_aux_opp. reflexivity.
Qed.
Lemma Bminus_Bplus_Bopp m (x y : BSN.binary_float prec emax) : BSN.Bminus m x y = BSN.Bplus m x (BSN.Bopp y).
Proof. destruct x, y; reflexivity. Qed.
End Sym.

Require Import SZV.Base.FloatOps.

Lemma BSN2B_nonnan prec emax n1 n2 (X : BSN.binary_float prec emax) :
  BSN.is_nan X = false -> BSN2B prec emax n1 X = BSN2B prec emax n2 X.
Proof. destruct X; try reflexivity. discriminate. Qed.

(* p - (float)s * I = p + (float)(-s) * I bit for bit, s <> 0, result not a NaN *)
Theorem fmirror (p I : f32) (s : Z) : s <> 0%Z ->
  Binary.is_nan _ _ (fsub p (fmul (f32_of_Z s) I)) = false ->
  fsub p (fmul (f32_of_Z s) I) = fadd p (fmul (f32_of_Z (- s)) I).
Proof.
  intros Hs Hn. unfold fsub, fadd, fmul, b32_minus, b32_plus, b32_mult, Bminus, Bplus, Bmult in *.
  rewrite !B2BSN_BSN2B in *. rewrite is_nan_BSN2B in Hn.
  unfold f32_of_Z, binary_normalize in *. rewrite !B2BSN_BSN2B' in *.
  match goal with |- BSN2B _ _ ?n1 _ = BSN2B _ _ ?n2 _ => generalize n1 n2; intros n1' n2' end.
  rewrite (normalize_opp 24 128 Hp32 Hm32 s 0 Hs). rewrite Bmult_Bopp_l.
  rewrite Bminus_Bplus_Bopp in *. apply BSN2B_nonnan. exact Hn.
Qed.

Theorem dmirror (p I : f64) (s : Z) : s <> 0%Z ->
  Binary.is_nan _ _ (dsub p (dmul (f64_of_Z s) I)) = false ->
  dsub p (dmul (f64_of_Z s) I) = dadd p (dmul (f64_of_Z (- s)) I).
Proof.
  intros Hs Hn. unfold dsub, dadd, dmul, b64_minus, b64_plus, b64_mult, Bminus, Bplus, Bmult in *.
  rewrite !B2BSN_BSN2B in *. rewrite is_nan_BSN2B in Hn.
  unfold f64_of_Z, binary_normalize in *. rewrite !B2BSN_BSN2B' in *.
  match goal with |- BSN2B _ _ ?n1 _ = BSN2B _ _ ?n2 _ => generalize n1 n2; intros n1' n2' end.
  rewrite (normalize_opp 53 1024 Hp64 Hm64 s 0 Hs). rewrite Bmult_Bopp_l.
  rewrite Bminus_Bplus_Bopp in *. apply BSN2B_nonnan. exact Hn.
Qed.


Lemma TSFsym_D_Db (y:f64) : D (Db y) = y.
Proof.
  unfold D, Db, bits_of_b64, b64_of_bits. rewrite Z.mod_small.
  - exact (binary_float_of_bits_of_binary_float 52 11 eq_refl eq_refl eq_refl y).
  - apply (bits_of_binary_float_range 52 11); reflexivity.
Qed.
Lemma TSFsym_F_Fb (y:f32) : F (Fb y) = y.
Proof.
  unfold F, Fb, bits_of_b32, b32_of_bits. rewrite Z.mod_small.
  - exact (binary_float_of_bits_of_binary_float 23 8 eq_refl eq_refl eq_refl y).
  - apply (bits_of_binary_float_range 23 8); reflexivity.
Qed.
