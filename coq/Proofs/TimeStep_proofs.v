(* Proofs about time-step compression (C17): decoder history in lock-step with encoder history for every
   step sequence and schedule, every step within its own bound (no accumulation). *)
From Coq Require Import ZArith List Bool Lia.
Import ListNotations.
Require Import SZV.Model.Quant SZV.Proofs.Quant_proofs SZV.Model.TimeStep.
Local Open Scope Z_scope.

Section TimeStepProofs.
  Variable V : Type.
  Variable zeroV : V.
  Variable sctx : Type.
  Variable spred : sctx -> list V -> V.
  Variable squant : sctx -> list V -> V -> V -> option (Z * V).
  Variable sdequant : sctx -> V -> Z -> V.
  Variable sexact : sctx -> V -> V.
  Variable tctx : Type.
  Variable tquant : tctx * list V -> list V -> V -> V -> option (Z * V).
  Variable tdequant : tctx * list V -> V -> Z -> V.
  Variable texact : tctx * list V -> V -> V.

  (* the obligations of the two kernel instances (those of Quant_proofs) *)
  Hypothesis s_nonzero : forall c h p x q r, squant c h p x = Some (q, r) -> q <> 0.
  Hypothesis s_dequant : forall c h p x q r, squant c h p x = Some (q, r) -> sdequant c p q = r.
  Hypothesis t_nonzero : forall c h p x q r, tquant c h p x = Some (q, r) -> q <> 0.
  Hypothesis t_dequant : forall c h p x q r, tquant c h p x = Some (q, r) -> tdequant c p q = r.

  Notation enc_step := (enc_step V zeroV sctx spred squant sexact tctx tquant texact).
  Notation dec_step := (dec_step V zeroV sctx spred sdequant tctx tdequant).
  Notation enc_run := (enc_run V zeroV sctx spred squant sexact tctx tquant texact).
  Notation dec_run := (dec_run V zeroV sctx spred sdequant tctx tdequant).
  Notation step := (step V sctx tctx).

  (* one step: fed the compressor's wire form and the same history, the decompressor returns the
     compressor's reconstruction and arrives at the compressor's new history *)
  Lemma step_lockstep hist (s:step) :
    let '(w, r, h') := enc_step hist s in dec_step hist w = Some (r, h').
  Proof.
    unfold TimeStep.enc_step. destruct (tiny _ _ _ s); [reflexivity|].
    destruct (const _ _ _ s); [reflexivity|].
    destruct (temporal _ _ _ s).
    - pose proof (lockstep V (tctx * list V) (tpred V zeroV tctx) tquant tdequant texact t_nonzero t_dequant (tc _ _ _ s, hist) (xs _ _ _ s) []) as L.
      unfold tenc. destruct (enc V (tctx * list V) (tpred V zeroV tctx) tquant texact (tc V sctx tctx s, hist) [] (xs V sctx tctx s)) as [[qs es] rs].
      destruct (raw _ _ _ s); [reflexivity|]. cbn [TimeStep.dec_step]. unfold tdec. rewrite L. reflexivity.
    - pose proof (lockstep V sctx spred squant sdequant sexact s_nonzero s_dequant (sc _ _ _ s) (xs _ _ _ s) []) as L.
      unfold senc. destruct (enc V sctx spred squant sexact (sc V sctx tctx s) [] (xs V sctx tctx s)) as [[qs es] rs].
      destruct (raw _ _ _ s); [reflexivity|]. cbn [TimeStep.dec_step]. unfold sdec. rewrite L. reflexivity.
  Qed.

  (* every step sequence, every schedule, every choice: the decompressor, started from the same history and
     fed the step streams in order, reproduces every reconstruction and ends with the compressor's history *)
  Theorem ts_lockstep : forall (ss:list step) hist,
    let '(ws, rs, hf) := enc_run hist ss in dec_run hist ws = Some (rs, hf).
  Proof.
    induction ss as [|s ss IH]; intros hist; cbn [TimeStep.enc_run]; [reflexivity|].
    pose proof (step_lockstep hist s) as L.
    destruct (enc_step hist s) as [[w r] h'].
    specialize (IH h'). destruct (enc_run h' ss) as [[ws rs] hf].
    cbn [TimeStep.dec_run]. rewrite L, IH. reflexivity.
  Qed.

  (* ---- the bound ---- *)
  Variable oks : sctx -> V -> V -> Prop.
  Variable okt : tctx -> V -> V -> Prop.
  Definition ok_step (s:step) : V -> V -> Prop := if temporal _ _ _ s then okt (tc _ _ _ s) else oks (sc _ _ _ s).

  (* what a step needs for its own bound: codes and exact values within the bound (the kernels' re-check),
     the bound is reflexive, and the constant decision is only taken when every value is within the bound
     of the first one *)
  Definition step_ok (s:step) : Prop :=
    (forall x, ok_step s x x) /\
    (const _ _ _ s = true -> forall x, In x (xs _ _ _ s) -> ok_step s x (hd zeroV (xs _ _ _ s))) /\
    (forall hist h p x q r, tquant (tc _ _ _ s, hist) h p x = Some (q, r) -> okt (tc _ _ _ s) x r) /\
    (forall hist x, okt (tc _ _ _ s) x (texact (tc _ _ _ s, hist) x)) /\
    (forall h p x q r, squant (sc _ _ _ s) h p x = Some (q, r) -> oks (sc _ _ _ s) x r) /\
    (forall x, oks (sc _ _ _ s) x (sexact (sc _ _ _ s) x)).

  Lemma Forall2_refl (R:V->V->Prop) (l:list V) : (forall x, R x x) -> Forall2 R l l.
  Proof. intro H. induction l; constructor; auto. Qed.
  Lemma Forall2_repeat (R:V->V->Prop) (l:list V) v : (forall x, In x l -> R x v) -> Forall2 R l (repeat v (length l)).
  Proof. induction l as [|a l IH]; intro H; cbn; constructor; [apply H; left; auto|apply IH; intros; apply H; right; auto]. Qed.

  Lemma step_bound hist (s:step) : step_ok s ->
    let '(_, r, _) := enc_step hist s in Forall2 (ok_step s) (xs _ _ _ s) r.
  Proof.
    intros [Hr [Hc [Htq [Hte [Hsq Hse]]]]]. unfold TimeStep.enc_step.
    destruct (tiny _ _ _ s); [apply Forall2_refl, Hr|].
    destruct (const _ _ _ s) eqn:C; [apply Forall2_repeat; intros; apply Hc; auto|].
    unfold ok_step in *. destruct (temporal _ _ _ s).
    - pose proof (within_bound V (tctx * list V) (tpred V zeroV tctx) tquant texact (fun c => okt (fst c)) (tc _ _ _ s, hist) (xs _ _ _ s) []) as W.
      cbn [fst] in W. specialize (W (fun h p x q r => Htq hist h p x q r) (fun x _ => Hte hist x)).
      unfold tenc. destruct (enc V (tctx * list V) (tpred V zeroV tctx) tquant texact (tc V sctx tctx s, hist) [] (xs V sctx tctx s)) as [[qs es] rs].
      destruct (raw _ _ _ s); [apply Forall2_refl, Hr|exact W].
    - pose proof (within_bound V sctx spred squant sexact oks (sc _ _ _ s) (xs _ _ _ s) []) as W.
      specialize (W Hsq (fun x _ => Hse x)).
      unfold senc. destruct (enc V sctx spred squant sexact (sc V sctx tctx s) [] (xs V sctx tctx s)) as [[qs es] rs].
      destruct (raw _ _ _ s); [apply Forall2_refl, Hr|exact W].
  Qed.

  (* errors never accumulate: in a run of any length every step's reconstruction is within that step's own
     bound of that step's data, whatever the earlier steps were *)
  Theorem ts_bound : forall (ss:list step) hist, Forall step_ok ss ->
    let '(_, rs, _) := enc_run hist ss in Forall2 (fun s r => Forall2 (ok_step s) (xs _ _ _ s) r) ss rs.
  Proof.
    induction ss as [|s ss IH]; intros hist H; cbn [TimeStep.enc_run]; [constructor|].
    inversion H as [|? ? Hs Hss]; subst.
    pose proof (step_bound hist s Hs) as B.
    destruct (enc_step hist s) as [[w r] h'].
    specialize (IH h' Hss). destruct (enc_run h' ss) as [[ws rs] hf].
    constructor; assumption.
  Qed.

  (* and so is what the decompressor returns, by lock-step *)
  Theorem ts_decoded_within_bound : forall (ss:list step) hist, Forall step_ok ss ->
    let '(ws, _, _) := enc_run hist ss in
    exists rs hf, dec_run hist ws = Some (rs, hf) /\ Forall2 (fun s r => Forall2 (ok_step s) (xs _ _ _ s) r) ss rs.
  Proof.
    intros ss hist H. pose proof (ts_lockstep ss hist) as L. pose proof (ts_bound ss hist H) as B.
    destruct (enc_run hist ss) as [[ws rs] hf]. exists rs, hf. split; assumption.
  Qed.
End TimeStepProofs.

(* The same theorems with the kernel obligations evaluated on the run instead of assumed (for kernel
   instances whose obligations are not proved for all inputs: the float / double arithmetic). *)
Section TimeStepChecked.
  Variable V : Type.
  Variable zeroV : V.
  Variable sctx : Type.
  Variable spred : sctx -> list V -> V.
  Variable squant : sctx -> list V -> V -> V -> option (Z * V).
  Variable sdequant : sctx -> V -> Z -> V.
  Variable sexact : sctx -> V -> V.
  Variable tctx : Type.
  Variable tquant : tctx * list V -> list V -> V -> V -> option (Z * V).
  Variable tdequant : tctx * list V -> V -> Z -> V.
  Variable texact : tctx * list V -> V -> V.
  Variable veq : V -> V -> bool.
  Variable soks : sctx -> V -> V -> bool.
  Variable tokb : tctx * list V -> V -> V -> bool.
  Hypothesis veq_eq : forall a b, veq a b = true -> a = b.

  Notation enc_step := (enc_step V zeroV sctx spred squant sexact tctx tquant texact).
  Notation dec_step := (dec_step V zeroV sctx spred sdequant tctx tdequant).
  Notation enc_run := (enc_run V zeroV sctx spred squant sexact tctx tquant texact).
  Notation dec_run := (dec_run V zeroV sctx spred sdequant tctx tdequant).
  Notation step_flags := (step_flags V zeroV sctx spred squant sdequant sexact tctx tquant tdequant texact veq soks tokb).
  Notation run_flags := (run_flags V zeroV sctx spred squant sdequant sexact tctx tquant tdequant texact veq soks tokb).
  Notation okb_step := (okb_step V sctx tctx soks tokb).
  Notation step := (step V sctx tctx).

  Lemma step_checked hist (s:step) :
    let '(l, b) := step_flags hist s in
    let '(w, r, h') := enc_step hist s in
    (l = true -> dec_step hist w = Some (r, h')) /\
    (b = true -> Forall2 (fun x y => okb_step hist s x y = true) (xs _ _ _ s) r).
  Proof.
    unfold TimeStep.step_flags, TimeStep.enc_step.
    assert (R : forall l : list V, forallb (fun x => okb_step hist s x x) l = true -> Forall2 (fun x y => okb_step hist s x y = true) l l).
    { induction l as [|a l IH]; cbn; intro H; constructor; apply andb_true_iff in H as [H1 H2]; auto. }
    destruct (tiny _ _ _ s); [split; [reflexivity|apply R]|].
    destruct (const _ _ _ s).
    { split; [reflexivity|]. generalize (hd zeroV (xs _ _ _ s)). intro v.
      induction (xs _ _ _ s) as [|a l IH]; cbn; intro H; constructor; apply andb_true_iff in H as [H1 H2]; auto. }
    destruct (temporal _ _ _ s) eqn:T.
    - pose proof (checked_lockstep V (tctx * list V) (tpred V zeroV tctx) tquant tdequant texact veq tokb veq_eq (tc _ _ _ s, hist) (xs _ _ _ s) []) as L.
      pose proof (checked_bound V (tctx * list V) (tpred V zeroV tctx) tquant tdequant texact veq tokb (tc _ _ _ s, hist) (xs _ _ _ s) []) as B.
      destruct (run_checks V (tctx * list V) (tpred V zeroV tctx) tquant tdequant texact veq tokb (tc V sctx tctx s, hist) [] (xs V sctx tctx s)) as [[[nz mir] o] ex].
      unfold tenc. destruct (enc V (tctx * list V) (tpred V zeroV tctx) tquant texact (tc V sctx tctx s, hist) [] (xs V sctx tctx s)) as [[qs es] rs].
      destruct (raw _ _ _ s); [split; [reflexivity|apply R]|].
      split.
      + intro H. apply andb_true_iff in H as [H1 H2]. cbn [TimeStep.dec_step]. unfold tdec. rewrite (L H1 H2). reflexivity.
      + intro H. apply andb_true_iff in H as [H1 H2]. specialize (B H1 H2). unfold TimeStep.okb_step. rewrite T. exact B.
    - pose proof (checked_lockstep V sctx spred squant sdequant sexact veq soks veq_eq (sc _ _ _ s) (xs _ _ _ s) []) as L.
      pose proof (checked_bound V sctx spred squant sdequant sexact veq soks (sc _ _ _ s) (xs _ _ _ s) []) as B.
      destruct (run_checks V sctx spred squant sdequant sexact veq soks (sc V sctx tctx s) [] (xs V sctx tctx s)) as [[[nz mir] o] ex].
      unfold senc. destruct (enc V sctx spred squant sexact (sc V sctx tctx s) [] (xs V sctx tctx s)) as [[qs es] rs].
      destruct (raw _ _ _ s); [split; [reflexivity|apply R]|].
      split.
      + intro H. apply andb_true_iff in H as [H1 H2]. cbn [TimeStep.dec_step]. unfold sdec. rewrite (L H1 H2). reflexivity.
      + intro H. apply andb_true_iff in H as [H1 H2]. specialize (B H1 H2). unfold TimeStep.okb_step. rewrite T. exact B.
  Qed.

  (* for every run whose lock-step flag holds the decompressor reproduces every reconstruction and the final history *)
  Theorem ts_checked_lockstep : forall (ss:list step) hist,
    fst (run_flags hist ss) = true ->
    let '(ws, rs, hf) := enc_run hist ss in dec_run hist ws = Some (rs, hf).
  Proof.
    induction ss as [|s ss IH]; intros hist; cbn [TimeStep.run_flags TimeStep.enc_run]; [reflexivity|].
    pose proof (step_checked hist s) as S.
    destruct (step_flags hist s) as [l b]. destruct (enc_step hist s) as [[w r] h'].
    specialize (IH h'). destruct (run_flags h' ss) as [l' b']. cbn [fst] in *.
    intro H. apply andb_true_iff in H as [H1 H2]. specialize (IH H2).
    destruct (enc_run h' ss) as [[ws rs] hf]. cbn [TimeStep.dec_run].
    destruct S as [S1 _]. rewrite (S1 H1), IH. reflexivity.
  Qed.

  (* ... and for every run whose bound flag holds every step is within its own bound *)
  Fixpoint hists (hist:list V) (ss:list step) : list (list V) :=
    match ss with [] => [] | s :: ss' => hist :: hists (snd (enc_step hist s)) ss' end.
  Theorem ts_checked_bound : forall (ss:list step) hist,
    snd (run_flags hist ss) = true ->
    let '(_, rs, _) := enc_run hist ss in
    Forall2 (fun sh r => Forall2 (fun x y => okb_step (snd sh) (fst sh) x y = true) (xs _ _ _ (fst sh)) r) (combine ss (hists hist ss)) rs.
  Proof.
    induction ss as [|s ss IH]; intros hist; cbn [TimeStep.run_flags TimeStep.enc_run hists combine]; [constructor|].
    pose proof (step_checked hist s) as S.
    destruct (step_flags hist s) as [l b]. destruct (enc_step hist s) as [[w r] h'] eqn:E. cbn [snd].
    specialize (IH h'). destruct (run_flags h' ss) as [l' b']. cbn [snd] in *.
    intro H. apply andb_true_iff in H as [H1 H2]. specialize (IH H2).
    destruct (enc_run h' ss) as [[ws rs] hf]. constructor; [|exact IH].
    cbn [fst snd]. destruct S as [_ S2]. apply S2, H1.
  Qed.
End TimeStepChecked.
