From Coq Require Import ZArith List Bool Lia.
Import ListNotations.
Require Import SZV.Gen.SrcMasks SZV.Gen.SrcFacts SZV.Model.InlineUnpack.
Local Open Scope Z_scope.

Definition zrange (a n:nat) : list Z := map Z.of_nat (seq a n).
Lemma in_zrange a n z : Z.of_nat a <= z < Z.of_nat a + Z.of_nat n -> In z (zrange a n).
Proof. intro H. unfold zrange. apply in_map_iff. exists (Z.to_nat z). split; [lia|]. apply in_seq. lia. Qed.

(* both the unpacker and its specification are bitwise: the contribution of the two bytes can be taken apart *)
Lemma inline_split k w b0 b1 : inline_extract k w b0 b1 = Z.lor (inline_extract k w b0 0) (inline_extract k w 0 b1).
Proof.
  unfold inline_extract. destruct (0 <? c_getRightMovingSteps k w).
  - rewrite Z.land_0_l, Z.shiftr_0_l, Z.lor_0_r. reflexivity.
  - destruct (c_getRightMovingSteps k w <? 0).
    + rewrite !Z.land_0_l, Z.shiftr_0_l, Z.shiftl_0_l, Z.lor_0_r, Z.lor_0_l. reflexivity.
    + rewrite Z.land_0_l, Z.lor_0_r. reflexivity.
Qed.
Lemma spec_split k w b0 b1 : spec_extract k w b0 b1 = Z.lor (spec_extract k w b0 0) (spec_extract k w 0 b1).
Proof.
  unfold spec_extract. rewrite Z.shiftl_0_l, Z.lor_0_r, Z.lor_0_l, Z.shiftr_lor, Z.land_lor_distr_l. reflexivity.
Qed.

(* finite domains: offsets 0..7, widths 1..7 (a width of 0 skips the unpacker; whole bytes go to the byte array), every byte, each
   of the two positions separately *)
Definition inline_sweep : bool :=
  forallb (fun k => forallb (fun w => forallb (fun b =>
    (inline_extract k w b 0 =? spec_extract k w b 0) && (inline_extract k w 0 b =? spec_extract k w 0 b)
    && (inline_advance k w =? (if k + w <? 8 then 0 else 1)))
    (zrange 0 256)) (zrange 1 7)) (zrange 0 8).
Lemma inline_sweep_ok : inline_sweep = true.
Proof. vm_compute. reflexivity. Qed.

Theorem inline_extract_correct k w b0 b1 : 0 <= k < 8 -> 1 <= w < 8 -> 0 <= b0 < 256 -> 0 <= b1 < 256 ->
  inline_extract k w b0 b1 = spec_extract k w b0 b1 /\ inline_advance k w = (if k + w <? 8 then 0 else 1).
Proof.
  intros Hk Hw H0 H1. pose proof inline_sweep_ok as S. unfold inline_sweep in S.
  rewrite forallb_forall in S. specialize (S k (in_zrange 0 8 k ltac:(lia))).
  rewrite forallb_forall in S. specialize (S w (in_zrange 1 7 w ltac:(lia))).
  rewrite forallb_forall in S.
  pose proof (S b0 (in_zrange 0 256 b0 ltac:(lia))) as S0. pose proof (S b1 (in_zrange 0 256 b1 ltac:(lia))) as S1.
  apply andb_true_iff in S0 as [S0 A]. apply andb_true_iff in S0 as [S0 _].
  apply andb_true_iff in S1 as [S1 _]. apply andb_true_iff in S1 as [_ S1].
  apply Z.eqb_eq in S0, S1, A. split; [|exact A].
  rewrite inline_split, spec_split, S0, S1. reflexivity.
Qed.

Lemma inline_sites_ok : (src_inline_unpack_sites =? src_inline_unpack_exact) && (0 <? src_inline_unpack_sites) = true.
Proof. vm_compute. reflexivity. Qed.
