From Coq Require Import ZArith List Bool Lia.
Import ListNotations.
Require Import SZV.Model.Quant SZV.Model.QuantInt SZV.Proofs.Quant_proofs.
Local Open Scope Z_scope.
Ltac Zify.zify_post_hook ::= Z.div_mod_to_equations.

Definition ctx_ok (c:ictx) : Prop := 1 <= e c /\ 2 <= cap c /\ cap c mod 2 = 0.
(* x is an element of the array, hence a value of the element type; the 8/16-bit kernels clamp reconstructions to that range *)
Definition within (c:ictx) (x r:Z) : Prop := in_type (ty c) x = true -> Z.abs (x - r) <= e c.

Lemma quant_int_cases c h p x q r : ctx_ok c -> quant_int c h p x = Some (q, r) ->
  let d := Z.abs (x - p) in let s := (d + e c) / (2 * e c) in
  d < (cap c - 1) * e c /\ ((p <= x /\ q = radius c + s /\ r = clamp_ty (ty c) (p + s * (2 * e c))) \/ (x < p /\ q = radius c - s /\ r = clamp_ty (ty c) (p - s * (2 * e c)))).
Proof.
  intros (He & Hc & Hm) H. unfold quant_int in H. destruct (forced_exact c h); [discriminate|].
  destruct (Z.ltb_spec (Z.abs (x - p)) ((cap c - 1) * e c)); [|discriminate].
  destruct (Z.leb_spec p x); inversion H; subst; cbv zeta; (split; [assumption|]); [left|right]; repeat split; auto.
Qed.

Lemma state_lt_radius c d : ctx_ok c -> 0 <= d -> d < (cap c - 1) * e c -> 0 <= (d + e c) / (2 * e c) < radius c.
Proof.
  intros (He & Hc & Hm) Hd Hlt. unfold radius.
  assert (E: cap c = 2 * (cap c / 2)) by lia.
  split; [apply Z.div_pos; lia|].
  apply Z.div_lt_upper_bound; [lia|]. nia.
Qed.

(* (c) an emitted code is never the "unpredictable" code 0 *)
Lemma quant_int_code_nonzero c h p x q r : ctx_ok c -> quant_int c h p x = Some (q, r) -> q <> 0.
Proof.
  intros Hc H. destruct (quant_int_cases c h p x q r Hc H) as (Hlt & Hs).
  pose proof (state_lt_radius c (Z.abs (x - p)) Hc (Z.abs_nonneg _) Hlt) as [S0 S1].
  destruct Hs as [(_ & -> & _)|(_ & -> & _)]; lia.
Qed.

(* (a) the decoder's expression on the emitted code is the encoder's reconstruction *)
Lemma quant_int_dequant c h p x q r : ctx_ok c -> quant_int c h p x = Some (q, r) -> dequant_int c p q = r.
Proof.
  intros Hc H. destruct (quant_int_cases c h p x q r Hc H) as (_ & Hs). unfold dequant_int.
  destruct Hs as [(_ & -> & ->)|(_ & -> & ->)]; f_equal; ring.
Qed.

Lemma tmin_le_tmax t : 0 < bits t -> tmin t <= tmax t.
Proof. intro H. unfold tmin, tmax. destruct (sgn t); [|pose proof (Z.pow_pos_nonneg 2 (bits t) ltac:(lia) ltac:(lia)); lia].
  pose proof (Z.pow_nonneg 2 (bits t - 1) ltac:(lia)). lia. Qed.

(* clamping to the range that contains x never moves the reconstruction away from x *)
Lemma clamp_closer t x v : in_type t x = true -> Z.abs (x - clamp_ty t v) <= Z.abs (x - v).
Proof.
  unfold in_type, clamp_ty. intro H. apply andb_true_iff in H as [H1 H2]. apply Z.leb_le in H1, H2.
  destruct (clampT t); lia.
Qed.

(* (b) an emitted code means the reconstruction is within the bound: |d - 2e*floor((d+e)/2e)| <= e *)
Lemma quant_int_ok c h p x q r : ctx_ok c -> quant_int c h p x = Some (q, r) -> within c x r.
Proof.
  intros Hc H. destruct (quant_int_cases c h p x q r Hc H) as (_ & Hs). destruct Hc as (He & _ & _).
  unfold within. intro Hx.
  set (d := Z.abs (x - p)) in *. set (s := (d + e c) / (2 * e c)) in *.
  assert (B: 2 * e c * s <= d + e c < 2 * e c * s + 2 * e c).
  { unfold s. pose proof (Z.div_mod (d + e c) (2 * e c) ltac:(lia)). pose proof (Z.mod_pos_bound (d + e c) (2 * e c) ltac:(lia)). lia. }
  destruct Hs as [(Hle & _ & ->)|(Hlt & _ & ->)]; (etransitivity; [apply clamp_closer, Hx|]); unfold d in B; lia.
Qed.

Section Instance.
  Variable c : ictx.
  Hypothesis Hc : ctx_ok c.

  (* the generic theorems need the obligations for every context; restrict to [c] through a wrapper *)
  Definition quant_c (c':ictx) (h:list Z) (p x:Z) : option (Z * Z) := quant_int c h p x.
  Definition pred_c (c':ictx) (h:list Z) : Z := pred_int c h.
  Definition dequant_c (c':ictx) (p q:Z) : Z := dequant_int c p q.

  Lemma enc_c_eq xs : forall h, enc Z ictx pred_c quant_c (fun _ x => x) c h xs = enc_int c h xs.
  Proof. induction xs as [|x xs IH]; intro h; [reflexivity|]. unfold enc_int in *. cbn [enc]. unfold quant_c at 1, pred_c at 1.
    destruct (quant_int c h (pred_int c h) x) as [[q r]|]; rewrite IH; reflexivity. Qed.
  Lemma dec_c_eq qs : forall h es, dec Z ictx pred_c dequant_c c h qs es = dec_int c h qs es.
  Proof. induction qs as [|q qs IH]; intros h es; [reflexivity|]. unfold dec_int in *. cbn [dec]. unfold dequant_c at 1, pred_c at 1.
    destruct (q =? 0); [destruct es; [reflexivity|rewrite IH; reflexivity]|rewrite IH; reflexivity]. Qed.

  (* decoder history = encoder history for every array, shape and prediction *)
  Theorem int_lockstep xs h : let '(qs, es, rs) := enc_int c h xs in dec_int c h qs es = Some rs.
  Proof.
    pose proof (lockstep Z ictx pred_c quant_c dequant_c (fun _ x => x)
                  (fun c' h p x q r H => quant_int_code_nonzero c h p x q r Hc H)
                  (fun c' h p x q r H => quant_int_dequant c h p x q r Hc H) c xs h) as L.
    rewrite enc_c_eq in L. destruct (enc_int c h xs) as [[qs es] rs]. now rewrite dec_c_eq in L.
  Qed.

  (* every reconstructed element is within e of the original (and unpredictable ones are exact) *)
  Theorem int_within_bound xs h : let '(_, _, rs) := enc_int c h xs in Forall2 (within c) xs rs.
  Proof.
    pose proof (within_bound Z ictx pred_c quant_c (fun _ x => x) (fun _ => within c) c xs h
                  (fun h p x q r H => quant_int_ok c h p x q r Hc H)
                  (fun x _ => ltac:(unfold within; intros _; rewrite Z.sub_diag; cbn; destruct Hc; lia))) as W.
    rewrite enc_c_eq in W. exact W.
  Qed.
End Instance.

(* a non-integral bound: with e = 7/10 the C computes state 1 for a difference of 2 and stores
   trunc(p + 1.4) = p + 1: the error is 1 > 0.7.  (Arithmetic in tenths; Z.quot truncates toward zero.) *)
Lemma fractional_bound_refuted : exists p x e10,
  let d10 := 10 * Z.abs (x - p) in
  let s := (d10 + e10) / (2 * e10) in
  let r := Z.quot (10 * p + s * 2 * e10) 10 in
  0 < e10 < 10 /\ 10 * Z.abs (x - r) > e10.
Proof. exists 5, 7, 7. vm_compute. split; [split; reflexivity|reflexivity]. Qed.

(* a reconstruction that leaves the element type (the 32- and 64-bit files do not clamp): uint32, e = 3, pred 2^32-6,
   value 2^32-1 -> 2^32 wraps to 0 *)
Lemma narrowing_refuted : exists p x,
  let c := {| e := 3; cap := 32; shape := [100]; ty := ity_of 6 |} in
  match quant_int c [0; 0] p x with
  | Some (q, r) => in_type (ty c) x = true /\ in_type (ty c) p = true /\ in_type (ty c) r = false
  | None => False
  end.
Proof. exists 4294967290, 4294967295. vm_compute. repeat split. Qed.
