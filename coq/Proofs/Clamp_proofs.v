From Coq Require Import ZArith Reals List Bool Lia Lra.
From Flocq Require Import Core.Core IEEE754.BinarySingleNaN IEEE754.Binary IEEE754.Bits.
Require Import SZV.Base.FloatOps SZV.Model.Clamp.

(* ---- comparison of finite floats is comparison of their real values ---- *)
Section Generic.
  Variable prec emax : Z.
  Context (prec_gt_0_ : FLX.Prec_gt_0 prec).
  Context (prec_lt_emax_ : Prec_lt_emax prec emax).
  Notation bf := (binary_float prec emax).
  Definition ble (x y:bf) : bool := match Bcompare prec emax x y with Some Lt | Some Eq => true | _ => false end.
  Definition blt (x y:bf) : bool := match Bcompare prec emax x y with Some Lt => true | _ => false end.

  Lemma ble_spec x y : is_finite prec emax x = true -> is_finite prec emax y = true ->
    (ble x y = true <-> (B2R prec emax x <= B2R prec emax y)%R).
  Proof.
    intros Fx Fy. unfold ble. rewrite (Bcompare_correct prec emax x y Fx Fy).
    destruct (Rcompare_spec (B2R prec emax x) (B2R prec emax y)); split; intro H0; try reflexivity; try discriminate; lra.
  Qed.
  Lemma blt_spec x y : is_finite prec emax x = true -> is_finite prec emax y = true ->
    (blt x y = true <-> (B2R prec emax x < B2R prec emax y)%R).
  Proof.
    intros Fx Fy. unfold blt. rewrite (Bcompare_correct prec emax x y Fx Fy).
    destruct (Rcompare_spec (B2R prec emax x) (B2R prec emax y)); split; intro H0; try reflexivity; try discriminate; lra.
  Qed.

  Definition gclamp (lo hi v:bf) : bf :=
    if ble v hi && ble lo v then v else if blt v lo then lo else if blt hi v then hi else v.

  (* every clamped value lies in [lo, hi] *)
  Theorem gclamp_in_range lo hi v :
    is_finite prec emax lo = true -> is_finite prec emax hi = true -> is_finite prec emax v = true ->
    ble lo hi = true -> ble lo (gclamp lo hi v) = true /\ ble (gclamp lo hi v) hi = true /\ is_finite prec emax (gclamp lo hi v) = true.
  Proof.
    intros Fl Fh Fv Hlh. unfold gclamp.
    destruct (ble v hi) eqn:E1; destruct (ble lo v) eqn:E2; cbn [andb]; auto.
    - (* v <= hi, not lo <= v *)
      assert (L: blt v lo = true).
      { apply blt_spec; auto. destruct (Rle_or_lt (B2R prec emax lo) (B2R prec emax v)) as [H|H]; [|exact H].
        apply (ble_spec lo v Fl Fv) in H. congruence. }
      rewrite L. repeat split; auto. apply ble_spec; auto. lra.
    - (* not v <= hi *)
      assert (G: blt hi v = true).
      { apply blt_spec; auto. destruct (Rle_or_lt (B2R prec emax v) (B2R prec emax hi)) as [H|H]; [|exact H].
        apply (ble_spec v hi Fv Fh) in H. congruence. }
      assert (NL: blt v lo = false).
      { destruct (blt v lo) eqn:B; [|reflexivity]. apply blt_spec in B; auto. apply blt_spec in G; auto. apply ble_spec in Hlh; auto. lra. }
      rewrite NL, G. repeat split; auto. apply ble_spec; auto. lra.
    - assert (G: blt hi v = true).
      { apply blt_spec; auto. destruct (Rle_or_lt (B2R prec emax v) (B2R prec emax hi)) as [H|H]; [|exact H].
        apply (ble_spec v hi Fv Fh) in H. congruence. }
      assert (NL: blt v lo = false).
      { destruct (blt v lo) eqn:B; [|reflexivity]. apply blt_spec in B; auto. apply blt_spec in G; auto. apply ble_spec in Hlh; auto. lra. }
      rewrite NL, G. repeat split; auto. apply ble_spec; auto. lra.
  Qed.

  (* a value already in range is left alone (so the bound of C01 is untouched) *)
  Theorem gclamp_id lo hi v : ble v hi = true -> ble lo v = true -> gclamp lo hi v = v.
  Proof. intros H1 H2. unfold gclamp. now rewrite H1, H2. Qed.

  (* the clamp moves a value towards the original: if lo <= x <= hi then |x - clamp v| <= |x - v| over the reals *)
  Theorem gclamp_closer lo hi x v :
    is_finite prec emax lo = true -> is_finite prec emax hi = true -> is_finite prec emax v = true -> is_finite prec emax x = true ->
    ble lo x = true -> ble x hi = true ->
    (Rabs (B2R prec emax x - B2R prec emax (gclamp lo hi v)) <= Rabs (B2R prec emax x - B2R prec emax v))%R.
  Proof.
    intros Fl Fh Fv Fx Hlx Hxh. apply ble_spec in Hlx; auto. apply ble_spec in Hxh; auto. unfold gclamp.
    destruct (ble v hi && ble lo v); [lra|].
    destruct (blt v lo) eqn:B1.
    - apply blt_spec in B1; auto. rewrite !Rabs_right by lra. lra.
    - destruct (blt hi v) eqn:B2; [|lra]. apply blt_spec in B2; auto. rewrite !Rabs_left1 by lra. lra.
  Qed.
End Generic.

(* rounding is monotone in magnitude: the clamp cannot increase the error computed in the element type
   (round-to-nearest-even of the difference), for any FLT format *)
Section Round.
  Variable prec emax : Z.
  Context (prec_gt_0_ : FLX.Prec_gt_0 prec).
  Let fexp := FLT_exp (3 - emax - prec) prec.
  Notation rnd := (round radix2 fexp (round_mode mode_NE)).
  Lemma rnd_abs_le (u v:R) : (Rabs u <= Rabs v)%R -> (Rabs (rnd u) <= Rabs (rnd v))%R.
  Proof.
    intros H. rewrite <- !round_NE_abs by typeclasses eauto.
    apply round_le; try typeclasses eauto. exact H.
  Qed.
End Round.

(* instances for the two element types *)
Lemma clamp32_is_gclamp lo hi v : clamp32 lo hi v = gclamp 24 128 lo hi v.
Proof. reflexivity. Qed.
Lemma clamp64_is_gclamp lo hi v : clamp64 lo hi v = gclamp 53 1024 lo hi v.
Proof. reflexivity. Qed.

Theorem clamp32_in_range lo hi v :
  is_finite 24 128 lo = true -> is_finite 24 128 hi = true -> is_finite 24 128 v = true -> fle lo hi = true ->
  in_range32 lo hi (clamp32 lo hi v) = true.
Proof.
  intros Fl Fh Fv H. rewrite clamp32_is_gclamp. destruct (gclamp_in_range 24 128 lo hi v Fl Fh Fv H) as (A & B & _).
  unfold in_range32. apply andb_true_iff. split; [exact A|exact B].
Qed.

Theorem clamp64_in_range lo hi v :
  is_finite 53 1024 lo = true -> is_finite 53 1024 hi = true -> is_finite 53 1024 v = true -> dle lo hi = true ->
  in_range64 lo hi (clamp64 lo hi v) = true.
Proof.
  intros Fl Fh Fv H. rewrite clamp64_is_gclamp. destruct (gclamp_in_range 53 1024 lo hi v Fl Fh Fv H) as (A & B & _).
  unfold in_range64. apply andb_true_iff. split; [exact A|exact B].
Qed.
