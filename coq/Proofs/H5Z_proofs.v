From Coq Require Import ZArith List Bool Lia.
Import ListNotations.
Require Import SZV.Base.CSem SZV.Gen.SrcFuns SZV.Model.Dims SZV.Model.H5Z SZV.Proofs.Dims_proofs SZV.Proofs.Dims_corollaries.
Local Open Scope Z_scope.
Ltac Zify.zify_post_hook ::= Z.div_mod_to_equations.

Definition w32 (z:Z) : Prop := 0 <= z < 2 ^ 32.
Definition w64 (z:Z) : Prop := 0 <= z < 2 ^ 64.

(* a filtered tuple as refreshDim sees it: zeros leading, sizes within a word, 1-D length within 64 bits *)
Definition fwf (f5 f4 f3 f2 f1:Z) : Prop :=
  1 <= f1 /\ w32 f2 /\ w32 f3 /\ w32 f4 /\ w32 f5 /\
  (f2 = 0 -> f3 = 0) /\ (f3 = 0 -> f4 = 0) /\ (f4 = 0 -> f5 = 0) /\
  (if f2 =? 0 then w64 f1 else w32 f1).

Lemma join_hi_lo v : w64 v -> join (hi v) (lo v) = v.
Proof. unfold w64, join, hi, lo, W32. intro H. change (2 ^ 64) with (2 ^ 32 * 2 ^ 32) in *. lia. Qed.

Lemma word_id z : w32 z -> word z = z.
Proof. unfold w32, word, W32. intro H. apply Z.mod_small. exact H. Qed.

Lemma split_join v : w64 v -> hi v * W32 + lo v = v.
Proof. unfold w64, hi, lo, W32. intro H. change (2 ^ 64) with (2 ^ 32 * 2 ^ 32) in *. lia. Qed.

Ltac shapes f1 f2 f3 f4 f5 Z2 Z3 Z4 :=
  let Hs := fresh "Hs" in
  assert (Hs: (f2 = 0 /\ f3 = 0 /\ f4 = 0 /\ f5 = 0) \/ (f2 <> 0 /\ f3 = 0 /\ f4 = 0 /\ f5 = 0) \/
              (f2 <> 0 /\ f3 <> 0 /\ f4 = 0 /\ f5 = 0) \/ (f2 <> 0 /\ f3 <> 0 /\ f4 <> 0 /\ f5 = 0) \/
              (f2 <> 0 /\ f3 <> 0 /\ f4 <> 0 /\ f5 <> 0)) by lia;
  clear Z2 Z3 Z4;
  destruct Hs as [(-> & -> & -> & ->)|[(? & -> & -> & ->)|[(? & ? & -> & ->)|[(? & ? & ? & ->)|(? & ? & ? & ?)]]]].

Ltac nz := repeat match goal with
  | |- context [?x =? 0] => is_var x; destruct (Z.eqb_spec x 0); [exfalso; lia|]
  end.

Theorem decode_record ty old f5 f4 f3 f2 f1 : fwf f5 f4 f3 f2 f1 ->
  decode_cd (record_cd ty old f5 f4 f3 f2 f1) = (c_computeDimension f5 f4 f3 f2 f1, ty, rev_tuple f5 f4 f3 f2 f1).
Proof.
  unfold fwf, w32. intros (H1 & H2 & H3 & H4 & H5 & Z2 & Z3 & Z4 & HL).
  unfold record_cd, rev_tuple, c_computeDimension. cbv zeta.
  shapes f1 f2 f3 f4 f5 Z2 Z3 Z4; nz; cbn [Z.eqb Pos.eqb] in *; nz;
  unfold decode_cd, nthw; cbn [app nth Z.eqb Pos.eqb];
  rewrite ?join_hi_lo by assumption; rewrite ?word_id by (unfold w32; lia); reflexivity.
Qed.

(* the error-bound settings: mode (any int32) and the four doubles (any 64-bit pattern) *)
Theorem decode_err_record ty mode a r p s f5 f4 f3 f2 f1 : fwf f5 f4 f3 f2 f1 ->
  - 2 ^ 31 <= mode < 2 ^ 31 -> w64 a -> w64 r -> w64 p -> w64 s ->
  decode_err (record_cd ty (err_words mode a r p s) f5 f4 f3 f2 f1) = (mode, (a, r, p, s)).
Proof.
  unfold fwf, w32. intros (H1 & H2 & H3 & H4 & H5 & Z2 & Z3 & Z4 & HL) Hm Ha Hr Hp Hs.
  assert (Hw: wraps 32 (word mode) = mode).
  { unfold wraps, word, W32. change (2 ^ (32 - 1)) with (2 ^ 31). change (2 ^ 32) with (2 * 2 ^ 31) in *. lia. }
  unfold record_cd, c_computeDimension, err_words. cbv zeta.
  shapes f1 f2 f3 f4 f5 Z2 Z3 Z4; nz; cbn [Z.eqb Pos.eqb] in *; nz;
  unfold decode_err, nthw; cbn [app Z.eqb Pos.eqb firstn repeat nth];
  match goal with |- context [Z.to_nat ?x] => let v := eval vm_compute in (Z.to_nat x) in change (Z.to_nat x) with v end;
  cbn [Nat.add nth]; rewrite Hw, !split_join by assumption; reflexivity.
Qed.

Theorem with_err_record ty mode a r p s f5 f4 f3 f2 f1 : fwf f5 f4 f3 f2 f1 ->
  with_err (record_cd ty (err_words mode a r p s) f5 f4 f3 f2 f1) = true /\
  with_err (record_cd ty [] f5 f4 f3 f2 f1) = false.
Proof.
  unfold fwf, w32. intros (H1 & H2 & H3 & H4 & H5 & Z2 & Z3 & Z4 & HL).
  unfold record_cd, c_computeDimension, err_words. cbv zeta.
  shapes f1 f2 f3 f4 f5 Z2 Z3 Z4; nz; cbn [Z.eqb Pos.eqb] in *; nz;
  unfold with_err, nthw; cbn; split; reflexivity.
Qed.

(* composition with the filter: what H5Z_sz_set_local records for an HDF5 chunk shape decodes to the
   SZ-convention tuple with the last HDF5 dimension fastest and size-1 dimensions removed *)
Lemma wf_fwf f5 f4 f3 f2 f1 : wf f5 f4 f3 f2 f1 -> fwf f5 f4 f3 f2 f1.
Proof.
  unfold wf, small, fwf, w32, w64. intros (H5 & H4 & H3 & H2 & H1 & Hp & Z2 & Z3 & Z4).
  assert (P: 2 ^ 12 < 2 ^ 32) by (apply Z.pow_lt_mono_r; lia).
  assert (Q: 2 ^ 12 < 2 ^ 64) by (apply Z.pow_lt_mono_r; lia).
  repeat split; try lia. destruct (f2 =? 0); lia.
Qed.

Lemma rev_tuple_dims f5 f4 f3 f2 f1 : wf f5 f4 f3 f2 f1 ->
  tuple_dims (rev_tuple f5 f4 f3 f2 f1) = rev (dims_of f5 f4 f3 f2 f1).
Proof.
  unfold wf, small. intros (H5 & H4 & H3 & H2 & H1 & Hp & Z2 & Z3 & Z4).
  unfold rev_tuple, tuple_dims, dims_of, present, c_computeDimension. cbv zeta.
  shapes f1 f2 f3 f4 f5 Z2 Z3 Z4; nz; cbn [Z.eqb Pos.eqb filter negb] in *; nz; cbn [negb rev app]; try reflexivity.
  all: nz; cbn [negb rev app]; reflexivity.
Qed.

(* what H5Z_sz_set_local records for an HDF5 chunk shape (dims[0] slowest) decodes to the tuple whose
   sizes, fastest first, are the chunk's dimensions of size >= 2 from last to first *)
Theorem set_local_decodes ty old d0 d1 d2 d3 d4 : wf d4 d3 d2 d1 d0 ->
  let '(dim, ty', t) := decode_cd (set_local ty old d0 d1 d2 d3 d4) in
  ty' = ty /\ tuple_dims t = rev (canon (dims_of d4 d3 d2 d1 d0)) /\ dim = dispatch_dim d4 d3 d2 d1 d0.
Proof.
  intro W. unfold set_local, dispatch_dim.
  pose proof (filter_squeezes d4 d3 d2 d1 d0 W) as F.
  destruct (filtered d4 d3 d2 d1 d0) as [[[[f5 f4] f3] f2] f1]. destruct F as [F W'].
  rewrite (decode_record ty old f5 f4 f3 f2 f1 (wf_fwf _ _ _ _ _ W')). repeat split.
  rewrite (rev_tuple_dims _ _ _ _ _ W'), F. reflexivity.
Qed.

(* 1-D lengths beyond 32 bits *)
Theorem long_1d ty old n : 1 <= n < 2 ^ 64 ->
  decode_cd (record_cd ty old 0 0 0 0 n) = (1, ty, (0, 0, 0, 0, n)).
Proof.
  intro H. rewrite decode_record.
  - unfold rev_tuple, c_computeDimension. cbv zeta. destruct (Z.eqb_spec n 0); [lia|]. reflexivity.
  - unfold fwf, w32, w64. cbn [Z.eqb]. repeat split; try lia.
Qed.

(* the legacy helper writes the sizes in the opposite order of what the reader expects: a tuple of
   rank >= 2 comes back reversed *)
Theorem copymeta_reverses_2d : exists r2 r1, wf 0 0 0 r2 r1 /\
  decode_cd (copymeta_cd 0 0 0 0 r2 r1) = (2, 0, (0, 0, 0, r1, r2)) /\ r1 <> r2.
Proof. exists 30, 40. repeat split; try (vm_compute; congruence); try (vm_compute; reflexivity). Qed.
