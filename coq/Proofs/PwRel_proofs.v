From Coq Require Import Reals Lra List Bool ZArith Psatz Lia.
From Flocq Require Import Core.Core.
Import ListNotations.
Require Import SZV.Model.PwRel.
Local Open Scope R_scope.

Lemma Rabs_def2b (x a:R) : Rabs x <= a -> - a <= x <= a.
Proof. intro H. unfold Rabs in H. destruct (Rcase_abs x); lra. Qed.

Lemma ln2_pos : 0 < ln 2.
Proof. rewrite <- ln_1. apply ln_increasing; lra. Qed.

Lemma exp2_log2 x : 0 < x -> exp2R (log2R x) = x.
Proof.
  intro H. unfold exp2R, log2R. replace (ln x / ln 2 * ln 2) with (ln x) by (field; pose proof ln2_pos; lra).
  apply exp_ln, H.
Qed.

Lemma exp2_add a b : exp2R (a + b) = exp2R a * exp2R b.
Proof. unfold exp2R. rewrite Rmult_plus_distr_r. apply exp_plus. Qed.

Lemma exp2_pos y : 0 < exp2R y.
Proof. apply exp_pos. Qed.

Lemma exp2_mono a b : a <= b -> exp2R a <= exp2R b.
Proof.
  intro H. unfold exp2R. destruct H as [H|H].
  - left. apply exp_increasing. apply Rmult_lt_compat_r; [apply ln2_pos|exact H].
  - subst. right. reflexivity.
Qed.

Lemma exp2_log2_1r r : 0 < r -> exp2R (log2R (1 + r)) = 1 + r.
Proof. intro H. apply exp2_log2. lra. Qed.

Lemma exp2_neg y : exp2R (- y) = / exp2R y.
Proof. unfold exp2R. replace (- y * ln 2) with (- (y * ln 2)) by ring. apply exp_Ropp. Qed.

(* the heart of the log-transform path: an absolute error of at most log2(1+r) on log2 x is a relative
   error of at most r on x *)
Theorem log_domain_bound : forall r x y', 0 < r -> 0 < x ->
  Rabs (y' - log2R x) <= log2R (1 + r) -> Rabs (exp2R y' - x) <= r * x.
Proof.
  intros r x y' Hr Hx Hb.
  set (d := y' - log2R x) in *.
  assert (E : exp2R y' = x * exp2R d).
  { replace y' with (log2R x + d) by (unfold d; ring). rewrite exp2_add, exp2_log2 by exact Hx. reflexivity. }
  apply Rabs_def2b in Hb. destruct Hb as [Hlo Hhi].
  assert (U : exp2R d <= 1 + r). { rewrite <- (exp2_log2_1r r Hr). apply exp2_mono. lra. }
  assert (L : / (1 + r) <= exp2R d).
  { rewrite <- (exp2_log2_1r r Hr) at 1. rewrite <- exp2_neg. apply exp2_mono. lra. }
  assert (L' : 1 - r <= / (1 + r)).
  { apply Rmult_le_reg_r with (1 + r); [lra|]. rewrite Rinv_l by lra. nra. }
  rewrite E. replace (x * exp2R d - x) with (x * (exp2R d - 1)) by ring.
  rewrite Rabs_mult, (Rabs_right x) by lra. rewrite (Rmult_comm r x).
  apply Rmult_le_compat_l; [lra|]. apply Rabs_le. lra.
Qed.

(* zeros: with the placeholder a*e + ta*t and the threshold b*e + tb*t below the smallest log-magnitude, a - 1 > b > 1 and
   ta >= tb >= 0, an exact zero always decodes below the threshold and a non-zero value never does, whatever error of at
   most e the codec makes *)
Theorem zero_below_threshold : forall a ta b tb minlog e t y', 0 < e -> 0 <= t -> b + 1 < a -> tb <= ta ->
  Rabs (y' - zero_placeholder a ta minlog e t) <= e -> y' < zero_threshold b tb minlog e t.
Proof.
  unfold zero_placeholder, zero_threshold. intros a ta b tb minlog e t y' He Ht Hab Htt H. apply Rabs_def2b in H.
  assert (tb * t <= ta * t) by (apply Rmult_le_compat_r; assumption). nra.
Qed.
Theorem nonzero_above_threshold : forall b tb minlog e t y y', 0 < e -> 0 <= t -> 1 < b -> 0 <= tb -> minlog <= y ->
  Rabs (y' - y) <= e -> ~ y' < zero_threshold b tb minlog e t.
Proof.
  unfold zero_threshold. intros b tb minlog e t y y' He Ht Hb Htb Hy H. apply Rabs_def2b in H.
  assert (0 <= tb * t) by (apply Rmult_le_pos; assumption). nra.
Qed.

(* the constants before the repair (2.0001 and 1.0001, no rounding term) left no margin on the zero side *)
Theorem old_zero_edge_refuted : exists minlog e y', 0 < e /\
  Rabs (y' - zero_placeholder 2.0001 0 minlog e 0) <= e /\ ~ y' < zero_threshold 1.0001 0 minlog e 0.
Proof.
  exists 0, 1, (-1.0001). unfold zero_placeholder, zero_threshold. split; [lra|]. split.
  - apply Rabs_le. lra.
  - lra.
Qed.

(* one element through the whole log-transform path *)
Theorem pwrel_element : forall a ta b tb r minlog t x y',
  0 < r -> 0 <= t -> b + 1 < a -> 1 < b -> tb <= ta -> 0 <= tb ->
  (x <> 0 -> minlog <= log2R (Rabs x)) ->
  Rabs (y' - to_log a ta minlog (log2R (1 + r)) t x) <= log2R (1 + r) ->
  let x' := from_log b tb minlog (log2R (1 + r)) t (is_neg x) y' in
  Rabs (x' - x) <= r * Rabs x /\ (x = 0 -> x' = 0) /\ (0 < x -> 0 < x') /\ (x < 0 -> x' < 0).
Proof.
  intros a ta b tb r minlog t x y' Hr Ht Hab Hb Htt Htb Hmin H x'.
  assert (He : 0 < log2R (1 + r)).
  { unfold log2R. apply Rdiv_lt_0_compat; [|apply ln2_pos]. rewrite <- ln_1. apply ln_increasing; lra. }
  unfold to_log in H. subst x'. unfold from_log.
  destruct (Req_EM_T x 0) as [Z|NZ].
  - subst x. pose proof (zero_below_threshold a ta b tb minlog _ t y' He Ht Hab Htt H) as Hz.
    destruct (Rlt_dec y' (zero_threshold b tb minlog (log2R (1 + r)) t)) as [_|N]; [|contradiction].
    unfold is_neg. destruct (Rlt_dec 0 0) as [F|_]; [lra|].
    rewrite Rminus_0_r, Rabs_R0, Rmult_0_r. repeat split; intros; lra.
  - pose proof (nonzero_above_threshold b tb minlog _ t _ y' He Ht Hb Htb (Hmin NZ) H) as Hn.
    destruct (Rlt_dec y' (zero_threshold b tb minlog (log2R (1 + r)) t)) as [F|_]; [contradiction|].
    assert (Hax : 0 < Rabs x) by (apply Rabs_pos_lt, NZ).
    pose proof (log_domain_bound r (Rabs x) y' Hr Hax H) as B.
    pose proof (exp2_pos y') as P.
    unfold is_neg. destruct (Rlt_dec x 0) as [Ng|Ps].
    + rewrite (Rabs_left x Ng) in *. split; [|repeat split; intros; lra].
      replace (- exp2R y' - x) with (- (exp2R y' - - x)) by ring. rewrite Rabs_Ropp. exact B.
    + assert (0 < x) by lra. rewrite (Rabs_right x) in * by lra. split; [exact B|repeat split; intros; lra].
Qed.

Lemma pwr_source_facts_hold : pwr_source_facts_ok = true.
Proof. vm_compute. reflexivity. Qed.

(* ---- the exact-value codec keeps the bound for values inside the range it was sized for, and only for those ---- *)
Lemma cut_within_range : forall R e v, 0 < e -> e <= R -> Rabs v <= R -> Rabs (cut (keep R e) v - v) < e.
Proof.
  intros R e v He HeR Hv.
  assert (HR : 0 < R) by lra.
  assert (Hp : (0 < keep R e)%Z).
  { unfold keep. assert (mag radix2 e <= mag radix2 R)%Z by (apply mag_le; lra). lia. }
  destruct (Req_dec v 0) as [Z0|NZ].
  - subst v. unfold cut. rewrite round_0 by apply valid_rnd_ZR. rewrite Rminus_0_r, Rabs_R0. exact He.
  - unfold cut.
    assert (P : Prec_gt_0 (keep R e)) by exact Hp.
    apply Rlt_le_trans with (ulp radix2 (FLX_exp (keep R e)) v).
    + apply error_lt_ulp; [apply FLX_exp_valid; exact P| apply valid_rnd_ZR | exact NZ].
    + rewrite ulp_neq_0 by exact NZ. unfold cexp, FLX_exp, keep.
      assert (M : (mag radix2 v <= mag radix2 R)%Z).
      { apply mag_le_abs; [exact NZ|]. rewrite (Rabs_right R) by lra. exact Hv. }
      apply Rle_trans with (bpow radix2 (mag radix2 e - 1)).
      * apply bpow_le. lia.
      * destruct (mag radix2 e) as [ee Hee]. simpl. specialize (Hee (Rgt_not_eq _ _ He)). rewrite Rabs_right in Hee by lra. lra.
Qed.

Lemma mag_of (x:R) (k:Z) : bpow radix2 (k - 1) <= Rabs x < bpow radix2 k -> mag radix2 x = k :> Z.
Proof. intro H. apply mag_unique. exact H. Qed.

(* outside the range the codec was sized for, the same cut loses more than the zero threshold's margin of e/2 over e:
   radius 127/64, bound 33/64, a value 191/64 <= radius + 3 bounds away from the median *)
Lemma cut_outside_range_refuted :
  exists R e v, 0 < e /\ e <= R /\ Rabs v <= R + 3 * e /\ Rabs (cut (keep R e) v - v) > 3 / 2 * e.
Proof.
  exists (127 / 64), (33 / 64), (- (191 / 64)).
  assert (MR : mag radix2 (127 / 64) = 1%Z :> Z).
  { apply mag_of. simpl. rewrite Rabs_right by lra. lra. }
  assert (Me : mag radix2 (33 / 64) = 0%Z :> Z).
  { apply mag_of. simpl. rewrite Rabs_right by lra. lra. }
  assert (Mv : mag radix2 (- (191 / 64)) = 2%Z :> Z).
  { apply mag_of. simpl. rewrite Rabs_Ropp, Rabs_right by lra. lra. }
  assert (K : keep (127 / 64) (33 / 64) = 2%Z). { unfold keep. rewrite MR, Me. reflexivity. }
  assert (C : cut 2 (- (191 / 64)) = - 2).
  { unfold cut, round, F2R, scaled_mantissa, cexp, FLX_exp. rewrite Mv. simpl.
    replace (- (191 / 64) * 1) with (- (191 / 64)) by ring.
    rewrite Ztrunc_opp. rewrite Ztrunc_floor by lra.
    rewrite (Zfloor_imp 2) by (simpl; lra). simpl. lra. }
  repeat split; try lra.
  - rewrite Rabs_Ropp, Rabs_right by lra. lra.
  - rewrite K, C. replace (- 2 - - (191 / 64)) with (63 / 64) by lra. rewrite Rabs_right by lra. lra.
Qed.

Lemma exact_codec_within : forall R e median x, 0 < e -> e <= R -> Rabs (x - median) <= R ->
  Rabs (exact_codec R e median x - x) < e.
Proof.
  intros R e m x He HeR Hx. unfold exact_codec.
  replace (cut (keep R e) (x - m) + m - x) with (cut (keep R e) (x - m) - (x - m)) by ring.
  apply cut_within_range; assumption.
Qed.

(* the two facts together: a zero stored through the exact-value codec whose range covers the placeholder decodes below the zero
   threshold (so it comes back as an exact zero), and a non-zero magnitude stored through it never does *)
Lemma zero_through_exact_codec : forall a ta b tb minlog e t rad median,
  0 < e -> 0 <= t -> b + 1 < a -> tb <= ta -> e <= rad ->
  Rabs (zero_placeholder a ta minlog e t - median) <= rad ->
  exact_codec rad e median (zero_placeholder a ta minlog e t) < zero_threshold b tb minlog e t.
Proof.
  intros a ta b tb minlog e t rad median He Ht Hab Htt Her Hcov.
  apply (zero_below_threshold a ta b tb minlog e t); try assumption.
  left. apply exact_codec_within; assumption.
Qed.

Lemma nonzero_through_exact_codec : forall b tb minlog e t rad median y,
  0 < e -> 0 <= t -> 1 < b -> 0 <= tb -> e <= rad -> minlog <= y -> Rabs (y - median) <= rad ->
  ~ exact_codec rad e median y < zero_threshold b tb minlog e t.
Proof.
  intros b tb minlog e t rad median y He Ht Hb Htb Her Hy Hcov.
  apply (nonzero_above_threshold b tb minlog e t y); try assumption.
  left. apply exact_codec_within; assumption.
Qed.
