From Coq Require Import ZArith List Bool Lia.
Import ListNotations.
Require Import SZV.Base.Bytes SZV.Model.RW SZV.Proofs.Bytes_proofs.
Local Open Scope Z_scope.

Definition in_range (w:nat) (l:list Z) : Prop := Forall (fun u => 0 <= u < 256 ^ Z.of_nat w) l.

(* integer family: write and read under the same declaration, whichever it is *)
Theorem int_write_read w sysEnd dataEnd l : (0 < w)%nat -> in_range w l ->
  read_file w sysEnd dataEnd (Some (write_file false w sysEnd dataEnd l)) = Some l.
Proof. intros Hw Hl. cbn. f_equal. now apply array_roundtrip. Qed.

(* float/double family: declared data endianness = the machine's *)
Theorem fp_write_read w sysEnd l : (0 < w)%nat -> in_range w l ->
  read_file w sysEnd sysEnd (Some (write_file true w sysEnd sysEnd l)) = Some l.
Proof. intros Hw Hl. cbn. f_equal. now apply array_roundtrip. Qed.

Lemma other_end sysEnd : (sysEnd =? 1 - sysEnd) = false.
Proof. apply Z.eqb_neq. lia. Qed.

(* a file holding the elements in the opposite byte order is exactly what the writer produces
   under the opposite declaration ... *)
Theorem opposite_declaration_is_swapped_file w sysEnd l :
  array_to_bytes w sysEnd (1 - sysEnd) l = swapped_file w l.
Proof.
  unfold array_to_bytes, swapped_file, elem_to_bytes. rewrite other_end. reflexivity.
Qed.

(* ... and reading it with that order declared returns the original values *)
Theorem read_swapped_file w sysEnd l : (0 < w)%nat -> in_range w l ->
  read_file w sysEnd (1 - sysEnd) (Some (swapped_file w l)) = Some l.
Proof.
  intros Hw Hl. cbn. f_equal. rewrite <- (opposite_declaration_is_swapped_file w sysEnd). now apply array_roundtrip.
Qed.

(* element level: the reader under the opposite declaration is the byte swap of the native reader *)
Theorem elem_swap w sysEnd bs : length bs = w -> Forall is_byte bs ->
  bytes_to_elem sysEnd (1 - sysEnd) bs = swap_val w (bytes_to_elem sysEnd sysEnd bs).
Proof.
  intros Hl Hb. unfold bytes_to_elem, swap_val. rewrite Z.eqb_refl, other_end.
  unfold native_value, native_bytes, sym_transform. rewrite !rev_involutive.
  rewrite <- Hl, <- (rev_length bs). rewrite to_be_from_be by (apply rev_bytes; exact Hb).
  now rewrite rev_involutive.
Qed.

Theorem missing_file w sysEnd dataEnd : read_file w sysEnd dataEnd None = None.
Proof. reflexivity. Qed.

Theorem read_count w sysEnd dataEnd bytes l :
  read_file w sysEnd dataEnd (Some bytes) = Some l -> length l = Nat.div (length bytes) w.
Proof.
  cbn. intro H. inversion H; subst; clear H. unfold bytes_to_array. rewrite map_length.
  generalize (Nat.div (length bytes) w) as n. intro n. revert bytes. induction n as [|n IH]; intro bytes; cbn [chunks length]; [reflexivity|].
  now rewrite IH.
Qed.
