(* The 2-D float kernel (C01): what holds for every input. *)
From Coq Require Import ZArith List Bool Lia.
Import ListNotations.
Require Import SZV.Base.FloatOps SZV.Model.Quant SZV.Model.QuantFloat SZV.Model.QuantFloat2 SZV.Proofs.Quant_proofs SZV.Proofs.QuantFloat_proofs.
Local Open Scope Z_scope.

(* a code is only emitted after the re-check passed, and the decoder's expression is the encoder's: the same term *)
Lemma fquant2_inv c h p x q r : fquant2 c h p x = Some (q, r) -> f_ok2 c x r = true /\ fdequant2 c p q = r.
Proof.
  unfold fquant2, fdequant2, f_ok2. destruct h as [|h0 h']; [discriminate|].
  destruct (flt _ _); [|discriminate].
  destruct (f_ok (fc c) x _) eqn:E; [|discriminate]. intro H. inversion H; subst. split; [exact E|reflexivity].
Qed.
Lemma fquant2_ok c h p x q r : fquant2 c h p x = Some (q, r) -> f_ok2 c x r = true.
Proof. intro H. apply (fquant2_inv _ _ _ _ _ _ H). Qed.
Lemma fquant2_mirror c h p x q r : fquant2 c h p x = Some (q, r) -> fdequant2 c p q = r.
Proof. intro H. apply (fquant2_inv _ _ _ _ _ _ H). Qed.

(* hence two of the three evaluated flags are static *)
Theorem fchecks2_static c : forall xs h, let '(_, mir, o, _) := fchecks2 c h xs in mir = true /\ o = true.
Proof.
  unfold fchecks2. induction xs as [|x xs IH]; intro h; cbn [run_checks]; [split; reflexivity|].
  destruct (fquant2 c h (fpred2 c h) x) as [[q r]|] eqn:Q.
  - specialize (IH (r :: h)). destruct (run_checks _ _ _ _ _ _ _ _ c (r :: h) xs) as [[[a b] o] ex].
    rewrite (fquant2_ok _ _ _ _ _ _ Q), (fquant2_mirror _ _ _ _ _ _ Q), Z.eqb_refl. exact IH.
  - specialize (IH (fexact2 c x :: h)). destruct (run_checks _ _ _ _ _ _ _ _ c (fexact2 c x :: h) xs) as [[[a b] o] ex]. exact IH.
Qed.

(* lock-step: decoder = encoder reconstruction on every input on which no predicted element got the code 0 (evaluated) *)
Theorem f2d_lockstep c xs h :
  let '(nz, _, _, _) := fchecks2 c h xs in
  nz = true -> let '(qs, es, rs) := fenc2 c h xs in fdec2 c h qs es = Some rs.
Proof.
  pose proof (checked_lockstep Z f2ctx fpred2 fquant2 fdequant2 fexact2 Z.eqb f_ok2 zeqb_eq c xs h) as L.
  pose proof (fchecks2_static c xs h) as S. unfold fchecks2 in *.
  destruct (run_checks _ _ _ _ _ _ _ _ c h xs) as [[[a b] o] ex]. destruct S as [Sm So]. intro E. apply L; assumption.
Qed.

(* bound: every element within the bound whenever the exactly stored ones are (truncation check, evaluated) *)
Theorem f2d_bound c xs h :
  let '(_, _, _, ex) := fchecks2 c h xs in
  ex = true -> let '(_, _, rs) := fenc2 c h xs in Forall2 (fun x r => f_ok2 c x r = true) xs rs.
Proof.
  pose proof (checked_bound Z f2ctx fpred2 fquant2 fdequant2 fexact2 Z.eqb f_ok2 c xs h) as B.
  pose proof (fchecks2_static c xs h) as S. unfold fchecks2 in *.
  destruct (run_checks _ _ _ _ _ _ _ _ c h xs) as [[[a b] o] ex]. destruct S as [Sm So]. intro E. apply B; assumption.
Qed.
