(* Proofs about the global-state machine of Model/Api.v (C05). *)
From Coq Require Import ZArith List Bool Lia.
Import ListNotations.
Require Import SZV.Model.Api.
Local Open Scope Z_scope.

Lemma inv_init c : Inv c (init c).
Proof. unfold Inv, init; cbn; repeat split; constructor. Qed.

Lemma inv_step c s o : Inv c s -> Inv c (step s o).
Proof.
  intros [Hc [He [Hs [Hm [Ha Hp]]]]]. destruct o as [w d ch|k lo lf|k|]; cbn [step].
  - unfold Inv; cbn. repeat split; try assumption.
    apply Forall_app; split; [assumption|]. constructor; [cbn; assumption|constructor].
  - destruct (nth_error (store s) k) as [i|] eqn:Hk; [|unfold Inv; auto 10].
    unfold Inv; cbn. repeat split; try assumption.
    rewrite Forall_forall in Hs. apply Hs. eapply nth_error_In; eassumption.
  - destruct (nth_error (store s) k) as [i|] eqn:Hk; [|unfold Inv; auto 10].
    unfold Inv; cbn. repeat split; try assumption.
    rewrite Forall_forall in Hs. apply Hs. eapply nth_error_In; eassumption.
  - unfold Inv; cbn. rewrite Hc. repeat split; try assumption; reflexivity.
Qed.

Lemma inv_run c h : forall s, Inv c s -> Inv c (run h s).
Proof. induction h as [|o h IH]; intros s H; cbn [run fold_left]; [exact H|]. apply IH, inv_step, H. Qed.

Lemma view_of_inv c s w d : Inv c s -> view s w d = view (init c) w d.
Proof.
  intros [Hc [He [_ [Hm [Ha Hp]]]]]. unfold view, write_phase, args_of, cfg_during, init; cbn.
  destruct w; cbn; now rewrite ?Hc, ?He, ?Hm, ?Ha, ?Hp.
Qed.

(* what a compression can read does not depend on the history before it -- whether its bound is
   given explicitly, taken from the configured defaults, or it is the SZ1.4 entry *)
Theorem history_independent : forall c h w d, view (run h (init c)) w d = view (init c) w d.
Proof. intros c h w d. apply view_of_inv, inv_run, inv_init. Qed.

(* ... hence neither does anything computed from it: for any kernel (a function of the view and the
   data) the stream, and for any decoder (a function of the stream alone) the reconstruction *)
Theorem pair_history_independent : forall (Stream Recon Data:Type) (kernel : config * exe * call * Z -> Data -> Stream) (decoder : Stream -> Recon)
  c h w d x, decoder (kernel (view (run h (init c)) w d) x) = decoder (kernel (view (init c) w d) x).
Proof. intros. now rewrite history_independent. Qed.

(* the configuration part of the globals is the same after every history *)
Theorem config_preserved : forall c h, cfg (run h (init c)) = c.
Proof. intros c h. exact (proj1 (inv_run c h _ (inv_init c))). Qed.

Theorem defaults_preserved : forall c h, let s := run h (init c) in
  k_mode (scratch s) = c_mode c /\ k_abs (scratch s) = c_abs c /\ k_pwr (scratch s) = c_pwr c.
Proof. intros c h. cbn zeta. destruct (inv_run c h _ (inv_init c)) as [_ [_ [_ H]]]. exact H. Qed.

(* the state the next compression leaves in exe_params when the interval count is fixed *)
Theorem exe_after_fixed_compress : forall c h w d ch, 0 < c_qi c ->
  ex (step (run h (init c)) (Compress w d ch)) = derive c 8.
Proof.
  intros c h w d ch Hq. cbn [step]. cbn. rewrite (config_preserved c h).
  unfold derive. destruct (0 <? c_qi c) eqn:E; [reflexivity|lia].
Qed.

(* before the repairs the statement was false, in each of the three ways *)
Definition cfg0 : config := {| c_endian := 0; c_qi := 0; c_mrr := 32768; c_reg := 1; c_mode := 0; c_abs := 7; c_rel := 0; c_pwr := 0; c_rest := [] |}.
Definition dat (t:Z) (i:bool) : datum := {| d_type := t; d_min := 0; d_max := 9; d_isint := i |}.

Theorem old_exe_history_dependent :   (* an integer decompression left its interval count behind *)
  view_old (run_old [Compress (Explicit 0 1 0 0) (dat 7 true) 64; Decompress 0 1 64] (init cfg0)) (Explicit 0 1 0 0) (dat 0 false)
  <> view_old (init cfg0) (Explicit 0 1 0 0) (dat 0 false).
Proof. vm_compute. intro H. discriminate H. Qed.

Theorem old_defaults_history_dependent :   (* the defaults call used the previous explicit call's mode and bound *)
  view_old (run_old [Compress (Explicit 1 3 4 0) (dat 0 false) 64] (init cfg0)) Defaults (dat 0 false)
  <> view_old (init cfg0) Defaults (dat 0 false).
Proof. vm_compute. intro H. discriminate H. Qed.

Theorem old_custom14_history_dependent :   (* SZ1.4 left regression switched off *)
  view_old (run_old [Compress Custom14 (dat 0 false) 64] (init cfg0)) Defaults (dat 0 false)
  <> view_old (init cfg0) Defaults (dat 0 false).
Proof. vm_compute. intro H. discriminate H. Qed.

Lemma source_facts_hold : source_facts_ok = true.
Proof. vm_compute. reflexivity. Qed.

(* a thread-safe customize call with another bound, then a defaults compression: the view differs from the fresh one *)
Lemma threadsafe_leaves_bounds_history_dependent :
  view (step_ts (init cfg0) 0 500 0 0 (dat 0 false) 64) Defaults (dat 0 false) <> view (init cfg0) Defaults (dat 0 false).
Proof. vm_compute. discriminate. Qed.
