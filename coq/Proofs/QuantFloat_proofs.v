From Coq Require Import ZArith List Bool Lia.
From Flocq Require Import Core.Core IEEE754.BinarySingleNaN IEEE754.Binary IEEE754.Bits.
Import ListNotations.
Require Import SZV.Base.FloatOps SZV.Model.Quant SZV.Model.QuantFloat SZV.Proofs.Quant_proofs SZV.Proofs.FloatSym_proofs.
Local Open Scope Z_scope.

(* the float 1-D kernel emits a code only after its re-check passed, and never the code 0 *)
Lemma fquant1_inv c h p x q r : fquant1 c h p x = Some (q, r) -> f_ok c x r = true /\ q <> 0.
Proof.
  unfold fquant1. destruct (length h <? 2)%nat; [discriminate|].
  destruct (flt _ _); [|discriminate].
  destruct (fge (F x) (F p)).
  - destruct (f_ok c x _) eqn:E; [|discriminate]. destruct (_ =? 0) eqn:Q; [discriminate|]. cbn [andb negb].
    intro H. inversion H; subst. split; [exact E|]. apply Z.eqb_neq, Q.
  - destruct (f_ok c x _) eqn:E; [|discriminate]. destruct (_ =? 0) eqn:Q; [discriminate|]. cbn [andb negb].
    intro H. inversion H; subst. split; [exact E|]. apply Z.eqb_neq, Q.
Qed.
Lemma fquant1_ok c h p x q r : fquant1 c h p x = Some (q, r) -> f_ok c x r = true.
Proof. intro H. apply (fquant1_inv _ _ _ _ _ _ H). Qed.
Lemma fquant1_nonzero c h p x q r : fquant1 c h p x = Some (q, r) -> q <> 0.
Proof. intro H. apply (fquant1_inv _ _ _ _ _ _ H). Qed.

(* the decoder's pred + (float)(code - radius) * interval is the encoder's reconstruction bit for bit, for every input: above the
   prediction the two expressions coincide; below it they are p - s*I and p + (-s)*I, equal by the symmetry of round-to-nearest-even
   (FloatSym_proofs) unless s = 0 (then p = -0 gives -0 against +0) or the result is a NaN *)
Lemma fquant1_mirror c h p x q r : fquant1 c h p x = Some (q, r) ->
  Binary.is_nan 24 128 (F r) = false -> (q <> fradius c \/ fge (F x) (F p) = true) -> fdequant1 c p q = r.
Proof.
  unfold fquant1, fdequant1. destruct (length h <? 2)%nat; [discriminate|].
  destruct (flt _ _); [|discriminate].
  set (st := Z.shiftr _ 1).
  destruct (fge (F x) (F p)) eqn:G.
  - destruct (f_ok c x _ && _); [|discriminate]. intros H _ _. inversion H; subst.
    replace (fradius c + st - fradius c) with st by lia. reflexivity.
  - destruct (f_ok c x _ && _); [|discriminate]. intros H Hn [Hq|Hq]; [|discriminate]. inversion H; subst.
    replace (fradius c - st - fradius c) with (- st) by lia.
    assert (Hs : st <> 0) by (intro E; apply Hq; rewrite E; lia).
    f_equal. symmetry. apply fmirror; [exact Hs|].
    rewrite <- (TSFsym_F_Fb (fsub (F p) (fmul (f32_of_Z st) (finterval c)))). exact Hn.
Qed.

(* hence the "predicted elements within the bound" check holds on every input, statically *)
Theorem fchecks1_okpred c : forall xs h, let '(_, _, o, _) := fchecks1 c h xs in o = true.
Proof.
  unfold fchecks1. induction xs as [|x xs IH]; intro h; cbn [run_checks]; [reflexivity|].
  destruct (fquant1 c h (fpred1 c h) x) as [[q r]|] eqn:Q.
  - specialize (IH (r :: h)). destruct (run_checks _ _ _ _ _ _ _ _ c (r :: h) xs) as [[[a b] o] ex].
    rewrite (fquant1_ok _ _ _ _ _ _ Q). exact IH.
  - specialize (IH (fexact c x :: h)). destruct (run_checks _ _ _ _ _ _ _ _ c (fexact c x :: h) xs) as [[[a b] o] ex]. exact IH.
Qed.

Lemma zeqb_eq a b : (a =? b) = true -> a = b.
Proof. apply Z.eqb_eq. Qed.

(* float 1-D: lock-step and bound for every input on which the evaluated checks pass *)
Theorem f1d_lockstep c xs h :
  let '(nz, mir, _, _) := fchecks1 c h xs in
  nz = true -> mir = true -> let '(qs, es, rs) := fenc1 c h xs in fdec1 c h qs es = Some rs.
Proof. exact (checked_lockstep Z fctx fpred1 fquant1 fdequant1 fexact Z.eqb f_ok zeqb_eq c xs h). Qed.

Theorem f1d_bound c xs h :
  let '(_, _, _, ex) := fchecks1 c h xs in
  ex = true -> let '(_, _, rs) := fenc1 c h xs in Forall2 (fun x r => f_ok c x r = true) xs rs.
Proof.
  pose proof (checked_bound Z fctx fpred1 fquant1 fdequant1 fexact Z.eqb f_ok c xs h) as B.
  pose proof (fchecks1_okpred c xs h) as O. unfold fchecks1 in *.
  destruct (run_checks _ _ _ _ _ _ _ _ c h xs) as [[[a b] o] ex]. intro E. apply B; assumption.
Qed.

Lemma dle_not_dgt a b : dle a b = true -> dgt a b = false.
Proof.
  unfold dle, dgt, dlt. rewrite (Bcompare_swap 53 1024 a b) || idtac.
  destruct (b64_compare a b) as [[| |]|] eqn:E; try discriminate; intros _;
    unfold b64_compare in *; rewrite (Bcompare_swap _ _ a b), E; reflexivity.
Qed.

(* the double 1-D kernel (after the repair) emits a code only after its re-check passed, and never the code 0 *)
Lemma dquant1_inv c h p x q r : dquant1 c h p x = Some (q, r) -> d_ok c x r = true /\ q <> 0.
Proof.
  unfold dquant1. destruct (length h <? 2)%nat; [discriminate|].
  destruct (dlt _ _); [|discriminate].
  destruct (dge (D x) (D p)).
  - destruct (d_within c x _) eqn:E; [|discriminate]. destruct (_ =? 0) eqn:Q; [discriminate|]. cbn [andb negb].
    intro H. inversion H; subst. split; [|apply Z.eqb_neq, Q].
    unfold d_ok. rewrite TSFsym_D_Db. unfold d_within in E. rewrite (dle_not_dgt _ _ E). reflexivity.
  - destruct (d_within c x _) eqn:E; [|discriminate]. destruct (_ =? 0) eqn:Q; [discriminate|]. cbn [andb negb].
    intro H. inversion H; subst. split; [|apply Z.eqb_neq, Q].
    unfold d_ok. rewrite TSFsym_D_Db. unfold d_within in E. rewrite (dle_not_dgt _ _ E). reflexivity.
Qed.
Lemma dquant1_ok c h p x q r : dquant1 c h p x = Some (q, r) -> d_ok c x r = true.
Proof. intro H. apply (dquant1_inv _ _ _ _ _ _ H). Qed.
Lemma dquant1_nonzero c h p x q r : dquant1 c h p x = Some (q, r) -> q <> 0.
Proof. intro H. apply (dquant1_inv _ _ _ _ _ _ H). Qed.

Lemma dquant1_mirror c h p x q r : dquant1 c h p x = Some (q, r) ->
  Binary.is_nan 53 1024 (D r) = false -> (q <> dradius c \/ dge (D x) (D p) = true) -> ddequant1 c p q = r.
Proof.
  unfold dquant1, ddequant1. destruct (length h <? 2)%nat; [discriminate|].
  destruct (dlt _ _); [|discriminate].
  set (st := int_of_f64 _).
  destruct (dge (D x) (D p)) eqn:G.
  - destruct (d_within c x _ && _); [|discriminate]. intros H _ _. inversion H; subst.
    replace (dradius c + st - dradius c) with st by lia. reflexivity.
  - destruct (d_within c x _ && _); [|discriminate]. intros H Hn [Hq|Hq]; [|discriminate]. inversion H; subst.
    replace (dradius c - st - dradius c) with (- st) by lia.
    assert (Hs : st <> 0) by (intro E; apply Hq; rewrite E; lia).
    f_equal. symmetry. apply dmirror; [exact Hs|].
    rewrite <- (TSFsym_D_Db (dsub (D p) (dmul (f64_of_Z st) (dinterval c)))). exact Hn.
Qed.

Theorem dchecks1_okpred c : forall xs h, let '(_, _, o, _) := dchecks1 c h xs in o = true.
Proof.
  unfold dchecks1. induction xs as [|x xs IH]; intro h; cbn [run_checks]; [reflexivity|].
  destruct (dquant1 c h (dpred1 c h) x) as [[q r]|] eqn:Q.
  - specialize (IH (r :: h)). destruct (run_checks _ _ _ _ _ _ _ _ c (r :: h) xs) as [[[a b] o] ex].
    rewrite (dquant1_ok _ _ _ _ _ _ Q). exact IH.
  - specialize (IH (dexact c x :: h)). destruct (run_checks _ _ _ _ _ _ _ _ c (dexact c x :: h) xs) as [[[a b] o] ex]. exact IH.
Qed.

Theorem d1d_lockstep c xs h :
  let '(nz, mir, _, _) := dchecks1 c h xs in
  nz = true -> mir = true -> let '(qs, es, rs) := denc1 c h xs in ddec1 c h qs es = Some rs.
Proof. exact (checked_lockstep Z dctx dpred1 dquant1 ddequant1 dexact Z.eqb d_ok zeqb_eq c xs h). Qed.

Theorem d1d_bound c xs h :
  let '(_, _, _, ex) := dchecks1 c h xs in
  ex = true -> let '(_, _, rs) := denc1 c h xs in Forall2 (fun x r => d_ok c x r = true) xs rs.
Proof.
  pose proof (checked_bound Z dctx dpred1 dquant1 ddequant1 dexact Z.eqb d_ok c xs h) as B.
  pose proof (dchecks1_okpred c xs h) as O. unfold dchecks1 in *.
  destruct (run_checks _ _ _ _ _ _ _ _ c h xs) as [[[a b] o] ex]. intro E. apply B; assumption.
Qed.

(* the "code <> 0" check holds on every input, statically, for both kernels *)
Theorem fchecks1_nz c : forall xs h, let '(nz, _, _, _) := fchecks1 c h xs in nz = true.
Proof.
  unfold fchecks1. induction xs as [|x xs IH]; intro h; cbn [run_checks]; [reflexivity|].
  destruct (fquant1 c h (fpred1 c h) x) as [[q r]|] eqn:Q.
  - specialize (IH (r :: h)). destruct (run_checks _ _ _ _ _ _ _ _ c (r :: h) xs) as [[[a b] o] ex].
    pose proof (fquant1_nonzero _ _ _ _ _ _ Q) as N. apply Z.eqb_neq in N. rewrite N. exact IH.
  - specialize (IH (fexact c x :: h)). destruct (run_checks _ _ _ _ _ _ _ _ c (fexact c x :: h) xs) as [[[a b] o] ex]. exact IH.
Qed.
Theorem dchecks1_nz c : forall xs h, let '(nz, _, _, _) := dchecks1 c h xs in nz = true.
Proof.
  unfold dchecks1. induction xs as [|x xs IH]; intro h; cbn [run_checks]; [reflexivity|].
  destruct (dquant1 c h (dpred1 c h) x) as [[q r]|] eqn:Q.
  - specialize (IH (r :: h)). destruct (run_checks _ _ _ _ _ _ _ _ c (r :: h) xs) as [[[a b] o] ex].
    pose proof (dquant1_nonzero _ _ _ _ _ _ Q) as N. apply Z.eqb_neq in N. rewrite N. exact IH.
  - specialize (IH (dexact c x :: h)). destruct (run_checks _ _ _ _ _ _ _ _ c (dexact c x :: h) xs) as [[[a b] o] ex]. exact IH.
Qed.
