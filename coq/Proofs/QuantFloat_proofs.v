From Coq Require Import ZArith List Bool Lia.
Import ListNotations.
Require Import SZV.Base.FloatOps SZV.Model.Quant SZV.Model.QuantFloat SZV.Proofs.Quant_proofs.
Local Open Scope Z_scope.

(* the float 1-D kernel emits a code only after its re-check passed *)
Lemma fquant1_ok c h p x q r : fquant1 c h p x = Some (q, r) -> f_ok c x r = true.
Proof.
  unfold fquant1. destruct (length h <? 2)%nat; [discriminate|].
  destruct (flt _ _); [|discriminate].
  destruct (fge (F x) (F p)).
  - destruct (f_ok c x _) eqn:E; [|discriminate]. intro H. inversion H; subst. exact E.
  - destruct (f_ok c x _) eqn:E; [|discriminate]. intro H. inversion H; subst. exact E.
Qed.

(* hence the "predicted elements within the bound" check holds on every input, statically *)
Theorem fchecks1_okpred c : forall xs h, let '(_, _, o, _) := fchecks1 c h xs in o = true.
Proof.
  unfold fchecks1. induction xs as [|x xs IH]; intro h; cbn [run_checks]; [reflexivity|].
  destruct (fquant1 c h (fpred1 c h) x) as [[q r]|] eqn:Q.
  - specialize (IH (r :: h)). destruct (run_checks _ _ _ _ _ _ _ _ c (r :: h) xs) as [[[a b] o] ex].
    rewrite (fquant1_ok _ _ _ _ _ _ Q). exact IH.
  - specialize (IH (fexact c x :: h)). destruct (run_checks _ _ _ _ _ _ _ _ c (fexact c x :: h) xs) as [[[a b] o] ex]. exact IH.
Qed.

Lemma zeqb_eq a b : (a =? b) = true -> a = b.
Proof. apply Z.eqb_eq. Qed.

(* float 1-D: lock-step and bound for every input on which the evaluated checks pass *)
Theorem f1d_lockstep c xs h :
  let '(nz, mir, _, _) := fchecks1 c h xs in
  nz = true -> mir = true -> let '(qs, es, rs) := fenc1 c h xs in fdec1 c h qs es = Some rs.
Proof. exact (checked_lockstep Z fctx fpred1 fquant1 fdequant1 fexact Z.eqb f_ok zeqb_eq c xs h). Qed.

Theorem f1d_bound c xs h :
  let '(_, _, _, ex) := fchecks1 c h xs in
  ex = true -> let '(_, _, rs) := fenc1 c h xs in Forall2 (fun x r => f_ok c x r = true) xs rs.
Proof.
  pose proof (checked_bound Z fctx fpred1 fquant1 fdequant1 fexact Z.eqb f_ok c xs h) as B.
  pose proof (fchecks1_okpred c xs h) as O. unfold fchecks1 in *.
  destruct (run_checks _ _ _ _ _ _ _ _ c h xs) as [[[a b] o] ex]. intro E. apply B; assumption.
Qed.

Theorem d1d_lockstep c xs h :
  let '(nz, mir, _, _) := dchecks1 c h xs in
  nz = true -> mir = true -> let '(qs, es, rs) := denc1 c h xs in ddec1 c h qs es = Some rs.
Proof. exact (checked_lockstep Z dctx dpred1 dquant1 ddequant1 dexact Z.eqb d_ok zeqb_eq c xs h). Qed.

Theorem d1d_bound c xs h :
  let '(_, _, o, ex) := dchecks1 c h xs in
  o = true -> ex = true -> let '(_, _, rs) := denc1 c h xs in Forall2 (fun x r => d_ok c x r = true) xs rs.
Proof. exact (checked_bound Z dctx dpred1 dquant1 ddequant1 dexact Z.eqb d_ok c xs h). Qed.
