From Coq Require Import ZArith List Bool Lia.
Import ListNotations.
Require Import SZV.Base.Bytes.
Local Open Scope Z_scope.

Definition is_byte (b:Z) : Prop := 0 <= b < 256.

Lemma pow256_pos n : 0 < 256 ^ Z.of_nat n.
Proof. apply Z.pow_pos_nonneg; lia. Qed.

Lemma pow256_S n : 256 ^ Z.of_nat (S n) = 256 * 256 ^ Z.of_nat n.
Proof. rewrite Nat2Z.inj_succ, Z.pow_succ_r by lia. reflexivity. Qed.

Lemma fold_be_acc bs : forall acc,
  fold_left (fun a b => a * 256 + b) bs acc = acc * 256 ^ Z.of_nat (length bs) + from_be bs.
Proof.
  unfold from_be. induction bs as [|b bs IH]; intro acc.
  - cbn. lia.
  - cbn [fold_left length]. rewrite IH. rewrite (IH (0 * 256 + b)). rewrite pow256_S. ring.
Qed.

Lemma from_be_cons b bs : from_be (b :: bs) = b * 256 ^ Z.of_nat (length bs) + from_be bs.
Proof. unfold from_be at 1. cbn [fold_left]. rewrite fold_be_acc. ring. Qed.

Lemma from_be_app xs ys : from_be (xs ++ ys) = from_be xs * 256 ^ Z.of_nat (length ys) + from_be ys.
Proof. unfold from_be at 1 2. rewrite fold_left_app. apply fold_be_acc. Qed.

Lemma to_be_length w v : length (to_be w v) = w.
Proof. induction w as [|w IH]; cbn; [reflexivity|]. now rewrite IH. Qed.

Lemma to_be_bytes w v : Forall is_byte (to_be w v).
Proof.
  induction w as [|w IH]; cbn [to_be]; constructor; [|exact IH].
  unfold is_byte. apply Z.mod_pos_bound. lia.
Qed.

Lemma from_be_range bs : Forall is_byte bs -> 0 <= from_be bs < 256 ^ Z.of_nat (length bs).
Proof.
  induction 1 as [|b bs Hb _ IH].
  - cbn. lia.
  - rewrite from_be_cons. cbn [length]. rewrite pow256_S. unfold is_byte in Hb.
    pose proof (pow256_pos (length bs)). nia.
Qed.

Lemma div_mod_pow k w v : (k < w)%nat ->
  ((v mod 256 ^ Z.of_nat w) / 256 ^ Z.of_nat k) mod 256 = (v / 256 ^ Z.of_nat k) mod 256.
Proof.
  intro Hk.
  pose proof (pow256_pos k) as Ha. pose proof (pow256_pos (w - k - 1)) as Hc.
  replace (256 ^ Z.of_nat w) with (256 ^ Z.of_nat k * (256 * 256 ^ Z.of_nat (w - k - 1))).
  2:{ rewrite <- pow256_S, <- Z.pow_add_r by lia. f_equal. lia. }
  set (a := 256 ^ Z.of_nat k) in *. set (c := 256 ^ Z.of_nat (w - k - 1)) in *.
  rewrite Z.rem_mul_r by lia.
  rewrite (Z.mul_comm a), Z.div_add by lia.
  rewrite (Z.div_small (v mod a)) by (apply Z.mod_pos_bound; lia).
  cbn [Z.add].
  rewrite Z.rem_mul_r by lia.
  rewrite (Z.mul_comm 256), Z.mod_add by lia. apply Z.mod_mod. lia.
Qed.

Lemma to_be_mod k w v : (k <= w)%nat -> to_be k (v mod 256 ^ Z.of_nat w) = to_be k v.
Proof.
  induction k as [|k IH]; intro Hk; cbn [to_be]; [reflexivity|].
  rewrite IH by lia. f_equal. apply div_mod_pow. lia.
Qed.

Lemma to_be_add k w v c : (k <= w)%nat -> to_be k (c * 256 ^ Z.of_nat w + v) = to_be k v.
Proof.
  intro Hk. rewrite <- (to_be_mod k w (c * _ + v)) by exact Hk.
  rewrite Z.add_comm, Z.mod_add by (pose proof (pow256_pos w); lia). apply to_be_mod. exact Hk.
Qed.

(* reader after writer: every value of the width *)
Theorem from_be_to_be w v : 0 <= v < 256 ^ Z.of_nat w -> from_be (to_be w v) = v.
Proof.
  revert v. induction w as [|w IH]; intros v Hv.
  - cbn in *. lia.
  - cbn [to_be]. rewrite from_be_cons, to_be_length.
    rewrite pow256_S in Hv. pose proof (pow256_pos w) as Hp.
    assert (Hq: 0 <= v / 256 ^ Z.of_nat w < 256).
    { split; [apply Z.div_pos; lia|apply Z.div_lt_upper_bound; lia]. }
    rewrite (Z.mod_small _ 256 Hq).
    assert (Hm: to_be w v = to_be w (v mod 256 ^ Z.of_nat w)) by (symmetry; apply to_be_mod; lia).
    rewrite Hm, IH by (apply Z.mod_pos_bound; lia).
    rewrite Z.mul_comm. symmetry. apply Z.div_mod. lia.
Qed.

(* writer after reader: every byte string *)
Theorem to_be_from_be bs : Forall is_byte bs -> to_be (length bs) (from_be bs) = bs.
Proof.
  induction 1 as [|b bs Hb Hbs IH].
  - reflexivity.
  - cbn [length to_be]. rewrite from_be_cons.
    pose proof (from_be_range bs Hbs) as Hr. pose proof (pow256_pos (length bs)) as Hp.
    unfold is_byte in Hb.
    f_equal.
    + rewrite Z.div_add_l by lia. rewrite Z.div_small by lia. rewrite Z.add_0_r. apply Z.mod_small; lia.
    + rewrite to_be_add by lia. exact IH.
Qed.

(* signed readers are the two's-complement reading of the same bytes *)
Theorem signed_roundtrip w s :
  (0 < w)%nat -> - (256 ^ Z.of_nat w / 2) <= s < 256 ^ Z.of_nat w / 2 ->
  to_signed w (from_be (to_be w (to_unsigned w s))) = s.
Proof.
  intros Hw Hs. pose proof (pow256_pos w) as Hp.
  assert (He: 256 ^ Z.of_nat w = 2 * (256 ^ Z.of_nat w / 2)).
  { destruct w; [lia|]. rewrite pow256_S. replace (256 * 256 ^ Z.of_nat w) with ((128 * 256 ^ Z.of_nat w) * 2) by ring.
    rewrite Z.div_mul by lia. ring. }
  unfold to_unsigned. rewrite from_be_to_be by (apply Z.mod_pos_bound; lia).
  unfold to_signed.
  destruct (Z_lt_le_dec s 0) as [Hn|Hn].
  - assert (s mod 256 ^ Z.of_nat w = s + 256 ^ Z.of_nat w) as ->.
    { symmetry. apply (Z.mod_unique s _ (-1)); lia. }
    destruct (Z.ltb_spec (s + 256 ^ Z.of_nat w) (256 ^ Z.of_nat w / 2)); lia.
  - rewrite Z.mod_small by lia.
    destruct (Z.ltb_spec s (256 ^ Z.of_nat w / 2)); lia.
Qed.

Theorem sym_transform_involutive bs : sym_transform (sym_transform bs) = bs.
Proof. apply rev_involutive. Qed.

Lemma rev_bytes bs : Forall is_byte bs -> Forall is_byte (rev bs).
Proof. intro H. apply Forall_forall. intros x Hx. rewrite <- in_rev in Hx. revert x Hx. now apply Forall_forall. Qed.

(* float / double <-> bytes, on the bit pattern, under either sysEndianType *)
Theorem fp_roundtrip w sysEnd bits :
  0 <= bits < 256 ^ Z.of_nat w -> bytes_to_fp sysEnd (fp_to_bytes w sysEnd bits) = bits.
Proof.
  intro H. unfold bytes_to_fp, fp_to_bytes, native_value, native_bytes, sym_transform.
  destruct (sysEnd =? 0); rewrite ?rev_involutive; apply from_be_to_be; exact H.
Qed.

Theorem fp_roundtrip_bytes sysEnd bs :
  Forall is_byte bs -> fp_to_bytes (length bs) sysEnd (bytes_to_fp sysEnd bs) = bs.
Proof.
  intro H. unfold bytes_to_fp, fp_to_bytes, native_value, native_bytes, sym_transform.
  destruct (sysEnd =? 0).
  - rewrite !rev_involutive. apply to_be_from_be. exact H.
  - rewrite <- (rev_length bs). rewrite to_be_from_be by (apply rev_bytes; exact H). apply rev_involutive.
Qed.

(* element arrays under (sysEndianType, dataEndianType) *)
Theorem elem_roundtrip w sysEnd dataEnd u :
  0 <= u < 256 ^ Z.of_nat w -> bytes_to_elem sysEnd dataEnd (elem_to_bytes w sysEnd dataEnd u) = u.
Proof.
  intro H. unfold bytes_to_elem, elem_to_bytes, native_value, native_bytes, sym_transform.
  destruct (sysEnd =? dataEnd); rewrite ?rev_involutive; apply from_be_to_be; exact H.
Qed.

Lemma elem_to_bytes_length w s d u : length (elem_to_bytes w s d u) = w.
Proof. unfold elem_to_bytes, native_bytes, sym_transform. destruct (s =? d); rewrite ?rev_length; apply to_be_length. Qed.

Lemma array_to_bytes_length w s d l : length (array_to_bytes w s d l) = (length l * w)%nat.
Proof.
  induction l as [|u l IH]; cbn [array_to_bytes flat_map length]; [reflexivity|].
  rewrite app_length, elem_to_bytes_length. fold (array_to_bytes w s d l). rewrite IH. lia.
Qed.

Lemma chunks_array w s d l : (0 < w)%nat ->
  chunks w (length l) (array_to_bytes w s d l) = map (elem_to_bytes w s d) l.
Proof.
  intro Hw. induction l as [|u l IH]; [reflexivity|].
  cbn [length chunks array_to_bytes flat_map map]. fold (array_to_bytes w s d l).
  rewrite firstn_app, elem_to_bytes_length, Nat.sub_diag. cbn [firstn].
  rewrite firstn_all2 by (rewrite elem_to_bytes_length; lia). rewrite app_nil_r.
  rewrite skipn_app, elem_to_bytes_length, Nat.sub_diag. cbn [skipn].
  rewrite skipn_all2 by (rewrite elem_to_bytes_length; lia). cbn [app].
  now rewrite IH.
Qed.

Theorem array_roundtrip w sysEnd dataEnd l :
  (0 < w)%nat -> Forall (fun u => 0 <= u < 256 ^ Z.of_nat w) l ->
  bytes_to_array w sysEnd dataEnd (array_to_bytes w sysEnd dataEnd l) = l.
Proof.
  intros Hw Hl. unfold bytes_to_array. rewrite array_to_bytes_length.
  rewrite Nat.div_mul by lia. rewrite chunks_array by exact Hw.
  rewrite map_map. rewrite <- (map_id l) at 2. apply map_ext_in. intros u Hu.
  apply elem_roundtrip. rewrite Forall_forall in Hl. now apply Hl.
Qed.

(* declaring the opposite data endianness is exactly byte-swapping every element *)
Theorem other_endianness_is_swap w sysEnd u :
  elem_to_bytes w sysEnd (1 - sysEnd) u = sym_transform (elem_to_bytes w sysEnd sysEnd u).
Proof.
  unfold elem_to_bytes. rewrite Z.eqb_refl.
  destruct (sysEnd =? 1 - sysEnd) eqn:E; [apply Z.eqb_eq in E; lia|reflexivity].
Qed.

(* size fields *)
Theorem size_roundtrip8 n : 0 <= n < 2 ^ 64 -> bytes_to_size 8 (size_to_bytes 8 n) = n.
Proof.
  intro H. unfold bytes_to_size, size_to_bytes. cbn [Z.eqb Pos.eqb].
  rewrite firstn_all2 by (rewrite to_be_length; lia).
  change (2 ^ 64) with (256 ^ Z.of_nat 8) in H.
  rewrite from_be_to_be by exact H.
  change (256 ^ Z.of_nat 8) with (2 ^ 64) in H.
  unfold to_signed. change (256 ^ Z.of_nat 8) with (2 ^ 64).
  destruct (Z.ltb_spec n (2 ^ 64 / 2)).
  - apply Z.mod_small; lia.
  - replace (n - 2 ^ 64) with (n + (-1) * 2 ^ 64) by ring. rewrite Z.mod_add by lia. apply Z.mod_small; lia.
Qed.

Theorem size_roundtrip4 n : 0 <= n < 2 ^ 32 -> bytes_to_size 4 (size_to_bytes 4 n) = n.
Proof.
  intro H. unfold bytes_to_size, size_to_bytes. cbn [Z.eqb Pos.eqb].
  rewrite firstn_all2 by (rewrite to_be_length; lia).
  rewrite (Z.mod_small n (2 ^ 32)) by exact H.
  change (2 ^ 32) with (256 ^ Z.of_nat 4) in H.
  rewrite from_be_to_be by exact H.
  change (256 ^ Z.of_nat 4) with (2 ^ 32) in H.
  unfold to_signed. change (256 ^ Z.of_nat 4) with (2 ^ 32).
  destruct (Z.ltb_spec n (2 ^ 32 / 2)).
  - apply Z.mod_small; lia.
  - replace (n - 2 ^ 32) with (n + (-1) * 2 ^ 32) by ring. rewrite Z.mod_add by lia. apply Z.mod_small; lia.
Qed.
