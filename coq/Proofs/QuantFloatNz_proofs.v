(* The 2-D / 3-D float quantiser never emits the code 0, for every input (C01): (int)(itvNum/2) + radius with |itvNum| below the interval
   count.  Over the reals through Flocq's correctness theorems: division by 2 of a float is exact away from the underflow range, so its
   rounding stays strictly above -radius; itvNum is not negative because every operation that builds it keeps non-negative values non-negative
   (overflows become infinities, whose real value is 0). *)
From Coq Require Import ZArith Reals Lra Lia Psatz.
From Flocq Require Import Core.Core Mult_error IEEE754.BinarySingleNaN IEEE754.Binary IEEE754.Bits.
Local Open Scope R_scope.

Section Half.
Local Instance p24 : Prec_gt_0 24 := eq_refl.
Let fexp := FLT_exp (-149) 24.
Local Instance vfexp : Valid_exp fexp := FLT_exp_valid (-149) 24.
Notation fmt := (generic_format radix2 fexp).
Notation rnd := (round radix2 fexp (round_mode mode_NE)).

Lemma fmt_half_big s : fmt s -> 1 <= Rabs s -> fmt (s / 2).
Proof.
  intros Fs Hs. replace (s / 2) with (s * bpow radix2 (-1)) by (simpl; lra).
  apply (mult_bpow_exact_FLT radix2 (-149) 24); [exact Fs|].
  assert (1 <= mag radix2 s)%Z.
  { apply mag_ge_bpow. simpl. lra. }
  lia.
Qed.

Lemma fmt_neg_half : fmt (-1/2).
Proof.
  replace (-1/2) with (F2R (Float radix2 (-1) (-1))) by (unfold F2R; simpl; lra).
  apply generic_format_F2R. intros _. unfold cexp, fexp, FLT_exp. 
  replace (F2R (Float radix2 (-1) (-1))) with (- bpow radix2 (-1)) by (unfold F2R; simpl; lra).
  rewrite mag_opp, mag_bpow. simpl. lia.
Qed.

Lemma half_round_gt s (R:Z) : fmt s -> (1 <= R)%Z -> - 2 * IZR R < s -> - IZR R < rnd (s / 2).
Proof.
  intros Fs HR Hs. assert (1 <= IZR R) by (apply IZR_le in HR; exact HR).
  destruct (Rle_or_lt 1 (Rabs s)) as [B|S].
  - pose proof (round_generic radix2 fexp (round_mode mode_NE) (s / 2) (fmt_half_big s Fs B)) as E. rewrite E. lra.
  - apply Rabs_def2 in S. 
    assert (L : rnd (-1/2) <= rnd (s/2)) by (apply round_le; [exact vfexp|apply valid_rnd_round_mode|lra]).
    pose proof (round_generic radix2 fexp (round_mode mode_NE) (-1/2) fmt_neg_half) as E. rewrite E in L. lra.
Qed.
End Half.

Require Import SZV.Base.FloatOps.

Lemma fmt_two : generic_format radix2 (FLT_exp (-149) 24) 2.
Proof.
  replace 2 with (bpow radix2 1) by (simpl; lra). apply generic_format_bpow. unfold FLT_exp. simpl. lia.
Qed.
Lemma B2R_two : B2R 24 128 (f32_of_Z 2) = 2.
Proof.
  unfold f32_of_Z. pose proof (binary_normalize_correct 24 128 Hp32 Hm32 mode_NE 2 0 false) as C.
  assert (F : F2R (Float radix2 2 0) = 2) by (unfold F2R; simpl; lra).
  rewrite F in C. change (SpecFloat.fexp 24 128) with (FLT_exp (-149) 24) in C.
  rewrite (round_generic radix2 (FLT_exp (-149) 24) (round_mode mode_NE) 2 fmt_two) in C.
  rewrite Rlt_bool_true in C.
  - destruct C as [C _]. exact C.
  - rewrite Rabs_right by lra. replace 2 with (bpow radix2 1) by (simpl; lra). apply bpow_lt. lia.
Qed.

Lemma Ztrunc_gt (x:R) (R:Z) : (1 <= R)%Z -> - IZR R < x -> Ztrunc x <> (- R)%Z.
Proof.
  intros HR Hx E. destruct (Rlt_or_le x 0) as [N|P].
  - rewrite Ztrunc_ceil in E by lra. pose proof (Zceil_ub x) as U. rewrite E in U. rewrite opp_IZR in U. lra.
  - rewrite Ztrunc_floor in E by lra. pose proof (Zfloor_lub 0 x P) as L. lia.
Qed.

(* (int)(x / 2.0f) is never -R when x > -2R *)
Lemma nz_core (x:f32) (R:Z) : (1 <= R)%Z -> - 2 * IZR R < B2R 24 128 x -> int_of_f32 (fdiv x (f32_of_Z 2)) <> (- R)%Z.
Proof.
  intros HR Hx. unfold int_of_f32, fdiv, b32_div.
  assert (H1 : 1 <= IZR R) by (apply IZR_le in HR; exact HR).
  pose proof (half_round_gt (B2R 24 128 x) R (generic_format_B2R 24 128 x) HR Hx) as G.
  assert (Y : - IZR R < B2R 24 128 (Bdiv 24 128 (@eq_refl _ Lt) (@eq_refl _ Lt) binop_nan_pl32 mode_NE x (f32_of_Z 2))).
  { pose proof (Bdiv_correct 24 128 (@eq_refl _ Lt) (@eq_refl _ Lt) binop_nan_pl32 mode_NE x (f32_of_Z 2)) as C.
    rewrite B2R_two in C. specialize (C ltac:(lra)). change (SpecFloat.fexp 24 128) with (FLT_exp (-149) 24) in C.
    destruct (Rlt_bool _ _).
    - destruct C as [C _]. rewrite C. exact G.
    - (* overflow: the quotient is an infinity, whose real value is 0 *)
      set (y := Bdiv _ _ _ _ _ _ _ _) in *. destruct y; simpl in C; try discriminate; simpl; lra. }
  intro E. apply (Ztrunc_gt _ R HR Y). apply eq_IZR. rewrite <- E.
  rewrite Btrunc_correct, round_FIX_IZR. reflexivity.
  all: try reflexivity.
Qed.

Lemma fmt_int (n:Z) : (0 < n < 2 ^ 24)%Z -> generic_format radix2 (FLT_exp (-149) 24) (IZR n).
Proof.
  intro H. replace (IZR n) with (F2R (Float radix2 n 0)) by (unfold F2R; simpl; lra).
  apply generic_format_F2R. intros _. unfold cexp, FLT_exp.
  assert (mag radix2 (F2R (Float radix2 n 0)) <= 24)%Z.
  { apply mag_le_bpow.
    - unfold F2R; simpl. rewrite Rmult_1_r. apply IZR_neq. lia.
    - unfold F2R; simpl. rewrite Rmult_1_r, Rabs_right by (apply IZR_ge; lia).
      change (bpow radix2 24) with (IZR (2 ^ 24)). apply IZR_lt. lia. }
  simpl. lia.
Qed.

Lemma f32_of_Z_pos (n:Z) : (0 < n < 2 ^ 24)%Z -> B2R 24 128 (f32_of_Z n) = IZR n /\ is_finite 24 128 (f32_of_Z n) = true.
Proof.
  intro H. unfold f32_of_Z. pose proof (binary_normalize_correct 24 128 Hp32 Hm32 mode_NE n 0 false) as C.
  assert (F : F2R (Float radix2 n 0) = IZR n) by (unfold F2R; simpl; lra).
  rewrite F in C. change (SpecFloat.fexp 24 128) with (FLT_exp (-149) 24) in C.
  rewrite (round_generic radix2 (FLT_exp (-149) 24) (round_mode mode_NE) (IZR n) (fmt_int n H)) in C.
  rewrite Rlt_bool_true in C.
  - destruct C as [C1 [C2 _]]. split; assumption.
  - rewrite Rabs_right by (apply IZR_ge; lia). apply Rlt_le_trans with (bpow radix2 24).
    + change (bpow radix2 24) with (IZR (2 ^ 24)). apply IZR_lt. lia.
    + apply bpow_le. lia.
Qed.

Lemma flt_lt (a:f32) (n:Z) : (0 < n < 2 ^ 24)%Z -> flt a (f32_of_Z n) = true -> B2R 24 128 a < IZR n.
Proof.
  intros H L. destruct (f32_of_Z_pos n H) as [Cv Cf]. unfold flt, b32_compare in L.
  assert (P : 0 < IZR n) by (apply IZR_lt; lia).
  destruct a as [sa|sa|sa pl pf|sa ma ea pf].
  - simpl. exact P.
  - simpl. exact P.
  - simpl. exact P.
  - rewrite Bcompare_correct in L by (auto; reflexivity). rewrite Cv in L.
    destruct (Rcompare_spec (B2R 24 128 (B754_finite 24 128 sa ma ea pf)) (IZR n)); try discriminate. assumption.
Qed.

(* ---- values whose real value is not negative (infinities and NaNs count: their real value is 0) ---- *)
Section NonNeg.
  Variable prec emax : Z.
  Context (prec_gt_0_ : Prec_gt_0 prec) (prec_lt_emax_ : Prec_lt_emax prec emax).
  Notation bf := (binary_float prec emax).
  Notation R_ := (B2R prec emax).
  Let fexp := SpecFloat.fexp prec emax.
  Local Instance vfx : Valid_exp fexp := fexp_correct prec emax prec_gt_0_.
  Notation rnd := (round radix2 fexp (round_mode mode_NE)).

  Lemma rnd_nonneg x : 0 <= x -> 0 <= rnd x.
  Proof.
    intro H. rewrite <- (round_0 radix2 fexp (round_mode mode_NE)).
    apply round_le; [exact vfx|apply valid_rnd_round_mode|exact H].
  Qed.

  (* a value whose float form is an overflow result has real value 0 under round-to-nearest *)
  Lemma overflow_real (y:bf) s : B2FF prec emax y = binary_overflow prec emax mode_NE s -> R_ y = 0.
  Proof. destruct y; simpl; intro H; try reflexivity; discriminate H. Qed.

  Lemma nn_mult nanf (a b:bf) : 0 <= R_ a -> 0 <= R_ b -> 0 <= R_ (Bmult prec emax prec_gt_0_ prec_lt_emax_ nanf mode_NE a b).
  Proof.
    intros Ha Hb. pose proof (Bmult_correct prec emax prec_gt_0_ prec_lt_emax_ nanf mode_NE a b) as C.
    destruct (Rlt_bool _ _).
    - destruct C as [C _]. rewrite C. apply rnd_nonneg. apply Rmult_le_pos; assumption.
    - rewrite (overflow_real _ _ C). lra.
  Qed.

  Lemma nn_plus nanf (a b:bf) : 0 <= R_ a -> 0 <= R_ b -> is_finite prec emax b = true ->
    0 <= R_ (Bplus prec emax prec_gt_0_ prec_lt_emax_ nanf mode_NE a b).
  Proof.
    intros Ha Hb Fb. destruct (is_finite prec emax a) eqn:Fa.
    - pose proof (Bplus_correct prec emax prec_gt_0_ prec_lt_emax_ nanf mode_NE a b Fa Fb) as C.
      destruct (Rlt_bool _ _).
      + destruct C as [C _]. rewrite C. apply rnd_nonneg. lra.
      + destruct C as [C _]. rewrite (overflow_real _ _ C). lra.
    - (* an infinity or a NaN plus a finite value is an infinity or a NaN *)
      destruct a as [sa|sa|sa pl pf|sa ma ea pf]; try discriminate Fa;
        destruct b as [sb|sb|sb plb pfb|sb mb eb pfb]; try discriminate Fb; simpl; lra.
  Qed.

  Lemma nn_normalize m e sz : (0 <= m)%Z -> 0 <= R_ (binary_normalize prec emax prec_gt_0_ prec_lt_emax_ mode_NE m e sz).
  Proof.
    intro Hm. pose proof (binary_normalize_correct prec emax prec_gt_0_ prec_lt_emax_ mode_NE m e sz) as C.
    destruct (Rlt_bool _ _).
    - destruct C as [C _]. rewrite C. apply rnd_nonneg. apply F2R_ge_0. exact Hm.
    - rewrite (overflow_real _ _ C). lra.
  Qed.
End NonNeg.

Lemma finite_nonneg_sign prec emax s m e pf : 0 <= B2R prec emax (B754_finite prec emax s m e pf) -> s = false.
Proof.
  destruct s; [|reflexivity]. simpl. intro H. exfalso.
  assert (F2R (Float radix2 (Z.neg m) e) < 0) by (apply F2R_lt_0; reflexivity). simpl in H. lra.
Qed.

Lemma nn_f64_of_f32 (f:f32) : 0 <= B2R 24 128 f -> 0 <= B2R 53 1024 (f64_of_f32 f).
Proof.
  intro H. destruct f as [sa|sa|sa pl pf|sa ma ea pf]; simpl; try lra.
  rewrite (finite_nonneg_sign _ _ _ _ _ _ H). apply nn_normalize. simpl. lia.
Qed.
Lemma nn_f32_of_f64 (d:f64) : 0 <= B2R 53 1024 d -> 0 <= B2R 24 128 (f32_of_f64 d).
Proof.
  intro H. destruct d as [sa|sa|sa pl pf|sa ma ea pf]; simpl; try lra.
  rewrite (finite_nonneg_sign _ _ _ _ _ _ H). apply nn_normalize. simpl. lia.
Qed.

(* itvNum = (float)(fabs(diff) * recip + 1) is not negative when recip is not *)
Lemma itv_nonneg (diff recip:f32) : 0 <= B2R 24 128 recip ->
  0 <= B2R 24 128 (f32_of_f64 (dadd (dmul (f64_of_f32 (fabs32 diff)) (f64_of_f32 recip)) (f64_of_Z 1))).
Proof.
  intro Hr. apply nn_f32_of_f64. unfold dadd, dmul, b64_plus, b64_mult. apply nn_plus.
  - apply nn_mult; apply nn_f64_of_f32; [|exact Hr]. unfold fabs32, b32_abs. rewrite B2R_Babs. apply Rabs_pos.
  - unfold f64_of_Z. apply nn_normalize. lia.
  - vm_compute. reflexivity.
Qed.

Require Import SZV.Model.Quant SZV.Model.QuantFloat SZV.Model.QuantFloat2.
From Coq Require Import List.

(* the 2-D/3-D float quantiser never emits the code 0 (the marker of an exactly stored element), for every input, under a context with
   at least two and fewer than 2^24 intervals and a non-negative 1/e *)
Theorem fquant2_nonzero c h p x q r :
  (1 <= fradius (fc c))%Z -> (2 * fradius (fc c) < 2 ^ 24)%Z -> 0 <= B2R 24 128 (frecip (fc c)) ->
  fquant2 c h p x = Some (q, r) -> q <> 0%Z.
Proof.
  intros HR HR2 Hrec. unfold fquant2. destruct h as [|h0 h']; [discriminate|].
  set (diff := fsub (F x) (F p)).
  set (itv := f32_of_f64 (dadd (dmul (f64_of_f32 (fabs32 diff)) (f64_of_f32 (frecip (fc c)))) (f64_of_Z 1))).
  destruct (flt itv (f32_of_Z (2 * fradius (fc c)))) eqn:L; [|discriminate].
  destruct (f_ok (fc c) x _); [|discriminate]. intro H. inversion H as [[Hq Hr]]. clear H Hr.
  pose proof (flt_lt itv (2 * fradius (fc c)) ltac:(lia) L) as Up. rewrite mult_IZR in Up.
  pose proof (itv_nonneg diff (frecip (fc c)) Hrec) as Lo. fold itv in Lo.
  assert (1 <= IZR (fradius (fc c))) by (apply IZR_le in HR; exact HR).
  intro Z0. apply (nz_core (if flt diff f32_zero then fopp32 itv else itv) (fradius (fc c)) HR); [|lia].
  destruct (flt diff f32_zero).
  - unfold fopp32, b32_opp. rewrite B2R_Bopp. lra.
  - lra.
Qed.
