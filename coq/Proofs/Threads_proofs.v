(* Proofs about concurrent calls over the process globals (C15). *)
From Coq Require Import ZArith List Bool Arith Lia.
Import ListNotations.
Require Import SZV.Model.Threads.
Local Open Scope Z_scope.

Fixpoint wrote (b:block) : list nat :=
  match b with [] => [] | Wr g _ :: b' => g :: wrote b' | Rd _ :: b' => wrote b' | Cp _ _ :: b' => wrote b' end.
Definition agrees (vg:nat -> Z) (b:block) : Prop := forall g v, In (Wr g v) b -> v = vg g.
(* tracked globals: the ones calls read.  Copies (a setting saved into a local and put back on return) may only land in
   untracked globals, reads only look at tracked ones *)
Definition cp_untracked (tr:nat -> bool) (b:block) : Prop := forall sg dg, In (Cp sg dg) b -> tr dg = false.
Definition rd_tracked (tr:nat -> bool) (b:block) : Prop := forall g, In (Rd g) b -> tr g = true.

Lemma agrees_cons vg a b : agrees vg (a :: b) -> agrees vg b.
Proof. intros H g v Hi. apply H. right. exact Hi. Qed.
Lemma agrees_app_l vg a b : agrees vg (a ++ b) -> agrees vg a.
Proof. intros H g v Hi. apply H, in_or_app. left. exact Hi. Qed.
Lemma agrees_app_r vg a b : agrees vg (a ++ b) -> agrees vg b.
Proof. intros H g v Hi. apply H, in_or_app. right. exact Hi. Qed.
Lemma cpu_cons tr a b : cp_untracked tr (a :: b) -> cp_untracked tr b.
Proof. intros H sg dg Hi. eapply H. right. exact Hi. Qed.
Lemma cpu_app_l tr a b : cp_untracked tr (a ++ b) -> cp_untracked tr a.
Proof. intros H sg dg Hi. eapply H, in_or_app. left. exact Hi. Qed.
Lemma cpu_app_r tr a b : cp_untracked tr (a ++ b) -> cp_untracked tr b.
Proof. intros H sg dg Hi. eapply H, in_or_app. right. exact Hi. Qed.
Lemma rdt_cons tr a b : rd_tracked tr (a :: b) -> rd_tracked tr b.
Proof. intros H g Hi. apply H. right. exact Hi. Qed.
Lemma rdt_app_l tr a b : rd_tracked tr (a ++ b) -> rd_tracked tr a.
Proof. intros H g Hi. apply H, in_or_app. left. exact Hi. Qed.
Lemma rdt_app_r tr a b : rd_tracked tr (a ++ b) -> rd_tracked tr b.
Proof. intros H g Hi. apply H, in_or_app. right. exact Hi. Qed.

Lemma wrote_app a b : wrote (a ++ b) = wrote a ++ wrote b.
Proof. induction a as [|[g v|g|sg dg] a IH]; cbn; [reflexivity|rewrite IH; reflexivity|exact IH|exact IH]. Qed.

Lemma run_block_app b1 : forall m b2,
  run_block m (b1 ++ b2) = let '(m1, o1) := run_block m b1 in let '(m2, o2) := run_block m1 b2 in (m2, o1 ++ o2).
Proof.
  induction b1 as [|[g v|g|sg dg] b1 IH]; intros m b2; cbn [app run_block].
  - destruct (run_block m b2); reflexivity.
  - apply IH.
  - rewrite IH. destruct (run_block m b1) as [m1 o1]. destruct (run_block m1 b2) as [m2 o2]. reflexivity.
  - apply IH.
Qed.

Lemma run_block_preserve tr vg b : forall m g, agrees vg b -> cp_untracked tr b -> tr g = true -> m g = vg g -> fst (run_block m b) g = vg g.
Proof.
  induction b as [|[g' v|g'|sg dg] b IH]; intros m g Ha Hc Tg Hm; cbn [run_block]; [exact Hm| | |].
  - apply IH; [eapply agrees_cons; eauto|eapply cpu_cons; eauto|exact Tg|]. unfold upd. destruct (Nat.eqb g g') eqn:E; [|exact Hm].
    apply Nat.eqb_eq in E. subst. apply Ha. left. reflexivity.
  - specialize (IH m g (agrees_cons _ _ _ Ha) (cpu_cons _ _ _ Hc) Tg Hm). destruct (run_block m b). exact IH.
  - apply IH; [eapply agrees_cons; eauto|eapply cpu_cons; eauto|exact Tg|]. unfold upd. destruct (Nat.eqb g dg) eqn:E; [|exact Hm].
    apply Nat.eqb_eq in E. subst. rewrite (Hc sg dg (or_introl eq_refl)) in Tg. discriminate Tg.
Qed.

Lemma run_block_written tr vg b : forall m g, agrees vg b -> cp_untracked tr b -> tr g = true -> In g (wrote b) -> fst (run_block m b) g = vg g.
Proof.
  induction b as [|[g' v|g'|sg dg] b IH]; intros m g Ha Hc Tg Hi; cbn [run_block wrote] in *; [contradiction| | |].
  - destruct Hi as [E|Hi].
    + subst. apply (run_block_preserve tr); [eapply agrees_cons; eauto|eapply cpu_cons; eauto|exact Tg|]. unfold upd. rewrite Nat.eqb_refl. apply Ha. left. reflexivity.
    + apply IH; [eapply agrees_cons; eauto|eapply cpu_cons; eauto|exact Tg|exact Hi].
  - specialize (IH m g (agrees_cons _ _ _ Ha) (cpu_cons _ _ _ Hc) Tg Hi). destruct (run_block m b). exact IH.
  - apply IH; [eapply agrees_cons; eauto|eapply cpu_cons; eauto|exact Tg|exact Hi].
Qed.

Lemma existsb_in g w : existsb (Nat.eqb g) w = true <-> In g w.
Proof.
  rewrite existsb_exists. split.
  - intros [x [Hx E]]. apply Nat.eqb_eq in E. subst. exact Hx.
  - intro H. exists g. split; [exact H|apply Nat.eqb_refl].
Qed.

Lemma own_before_mono b : forall w w', (forall g, In g w -> In g w') -> own_before w b = true -> own_before w' b = true.
Proof.
  induction b as [|[g v|g|sg dg] b IH]; intros w w' Hs H; cbn [own_before] in *; [reflexivity| | |].
  - eapply IH; [|exact H]. intros x [E|Hx]; [left; exact E|right; apply Hs, Hx].
  - apply andb_true_iff in H as [H1 H2]. apply andb_true_iff. split; [|eapply IH; eauto].
    apply existsb_in. apply Hs. apply existsb_in. exact H1.
  - eapply IH; eauto.
Qed.

Lemma own_before_app a : forall w b, own_before w (a ++ b) = true -> own_before w a = true /\ own_before (wrote a ++ w) b = true.
Proof.
  induction a as [|[g v|g|sg dg] a IH]; intros w b H; cbn [app own_before wrote] in *.
  - split; [reflexivity|exact H].
  - destruct (IH _ _ H) as [H1 H2]. split; [exact H1|].
    eapply own_before_mono; [|exact H2]. intros x Hx. apply in_app_or in Hx as [Hx|[E|Hx]].
    + right. apply in_or_app. left. exact Hx.
    + left. exact E.
    + right. apply in_or_app. right. exact Hx.
  - apply andb_true_iff in H as [H0 H]. destruct (IH _ _ H) as [H1 H2]. split; [|exact H2].
    apply andb_true_iff. split; assumption.
  - apply IH, H.
Qed.

(* a block that reads only tracked globals its thread wrote before reads the same values in any two memories that
   hold the agreed values of those globals; copies touch untracked globals only *)
Lemma obs_agree tr vg b : forall w m1 m2, own_before w b = true -> agrees vg b -> cp_untracked tr b -> rd_tracked tr b ->
  (forall g, In g w -> tr g = true -> m1 g = vg g) -> (forall g, In g w -> tr g = true -> m2 g = vg g) ->
  snd (run_block m1 b) = snd (run_block m2 b).
Proof.
  induction b as [|[g v|g|sg dg] b IH]; intros w m1 m2 Ho Ha Hc Hr H1 H2; cbn [run_block own_before] in *; [reflexivity| | |].
  - eapply IH; [exact Ho|eapply agrees_cons; eauto|eapply cpu_cons; eauto|eapply rdt_cons; eauto| |]; intros x [E|Hx] Tx; unfold upd.
    + subst. rewrite Nat.eqb_refl. apply Ha. left. reflexivity.
    + destruct (Nat.eqb x g) eqn:E; [apply Nat.eqb_eq in E; subst; apply Ha; left; reflexivity|apply H1; assumption].
    + subst. rewrite Nat.eqb_refl. apply Ha. left. reflexivity.
    + destruct (Nat.eqb x g) eqn:E; [apply Nat.eqb_eq in E; subst; apply Ha; left; reflexivity|apply H2; assumption].
  - apply andb_true_iff in Ho as [Hg Ho]. apply existsb_in in Hg.
    pose proof (Hr g (or_introl eq_refl)) as Tg.
    specialize (IH w m1 m2 Ho (agrees_cons _ _ _ Ha) (cpu_cons _ _ _ Hc) (rdt_cons _ _ _ Hr) H1 H2).
    destruct (run_block m1 b) as [m1' o1]. destruct (run_block m2 b) as [m2' o2]. cbn [snd] in *.
    rewrite IH, (H1 _ Hg Tg), (H2 _ Hg Tg). reflexivity.
  - pose proof (Hc sg dg (or_introl eq_refl)) as Td.
    eapply IH; [exact Ho|eapply agrees_cons; eauto|eapply cpu_cons; eauto|eapply rdt_cons; eauto| |]; intros x Hx Tx; unfold upd;
      (destruct (Nat.eqb x dg) eqn:E; [apply Nat.eqb_eq in E; subst; rewrite Td in Tx; discriminate Tx|]); [apply H1|apply H2]; assumption.
Qed.

Section Agree.
  Variable P : nat -> prog.
  Variable vg : nat -> Z.
  Variable m0 : nat -> Z.
  Variable tr : nat -> bool.
  (* every thread that writes a global writes the same value (same element type, bound mode, bound ... ) *)
  Hypothesis HA : forall t, agrees vg (concat (P t)).
  (* and reads a global only after having written it *)
  Hypothesis HO : forall t, own_before [] (concat (P t)) = true.
  (* reads look at tracked globals only; saved-and-restored settings (copies) land in untracked ones *)
  Hypothesis HR : forall t, rd_tracked tr (concat (P t)).
  Hypothesis HC : forall t, cp_untracked tr (concat (P t)).

  Definition Inv (s:st) : Prop :=
    forall t, exists dn, P t = dn ++ rem s t /\ obs s t = snd (run_block m0 (concat dn)) /\
                         (forall g, In g (wrote (concat dn)) -> tr g = true -> mem s g = vg g).

  Lemma inv_init : Inv (init_st m0 P).
  Proof. intro t. exists []. cbn. split; [reflexivity|]. split; [reflexivity|]. intros g []. Qed.

  Lemma block_agrees u dn b bs : P u = dn ++ b :: bs -> agrees vg b /\ cp_untracked tr b /\ rd_tracked tr b.
  Proof.
    intro E. pose proof (HA u) as H. pose proof (HC u) as H2. pose proof (HR u) as H3.
    rewrite E, concat_app in H, H2, H3. cbn [concat] in H, H2, H3.
    apply agrees_app_r in H. apply agrees_app_l in H.
    apply cpu_app_r in H2. apply cpu_app_l in H2.
    apply rdt_app_r in H3. apply rdt_app_l in H3. repeat split; assumption.
  Qed.

  Lemma inv_step u s : Inv s -> Inv (step_thread u s).
  Proof.
    intros I. unfold step_thread. destruct (rem s u) as [|b bs] eqn:R; [exact I|].
    destruct (run_block (mem s) b) as [m' o] eqn:RB.
    destruct (I u) as [dnu [Eu [Ou Mu]]]. rewrite R in Eu.
    destruct (block_agrees u dnu b bs Eu) as [Ab [Cb Rb]].
    intro t. cbn [mem rem obs]. destruct (Nat.eqb t u) eqn:Etu.
    - apply Nat.eqb_eq in Etu. subst t. exists (dnu ++ [b]).
      split; [rewrite <- app_assoc; exact Eu|]. rewrite concat_app. cbn [concat]. rewrite app_nil_r.
      split.
      + rewrite run_block_app. destruct (run_block m0 (concat dnu)) as [md od] eqn:RD.
        destruct (run_block md b) as [m2 o2] eqn:R2. cbn [snd]. rewrite Ou. cbn [snd]. f_equal.
        assert (Hob : own_before (wrote (concat dnu) ++ []) b = true).
        { pose proof (HO u) as H. rewrite Eu, concat_app in H. cbn [concat] in H.
          apply own_before_app in H as [_ H]. apply own_before_app in H as [H _]. exact H. }
        pose proof (obs_agree tr vg b (wrote (concat dnu) ++ []) (mem s) md Hob Ab Cb Rb) as L.
        rewrite RB, R2 in L. cbn [snd] in L. apply L.
        * intros g Hg Tg. rewrite app_nil_r in Hg. apply Mu; assumption.
        * intros g Hg Tg. rewrite app_nil_r in Hg.
          replace md with (fst (run_block m0 (concat dnu))) by (rewrite RD; reflexivity).
          apply (run_block_written tr); [| |exact Tg|exact Hg].
          -- pose proof (HA u) as H. rewrite Eu, concat_app in H. eapply agrees_app_l; eauto.
          -- pose proof (HC u) as H. rewrite Eu, concat_app in H. eapply cpu_app_l; eauto.
      + intros g Hg Tg. rewrite wrote_app in Hg. replace m' with (fst (run_block (mem s) b)) by (rewrite RB; reflexivity).
        apply in_app_or in Hg as [Hg|Hg].
        * apply (run_block_preserve tr); [exact Ab|exact Cb|exact Tg|apply Mu; assumption].
        * apply (run_block_written tr); [exact Ab|exact Cb|exact Tg|exact Hg].
    - destruct (I t) as [dn [Et [Ot Mt]]]. exists dn. repeat split; [exact Et|exact Ot|].
      intros g Hg Tg. replace m' with (fst (run_block (mem s) b)) by (rewrite RB; reflexivity).
      apply (run_block_preserve tr); [exact Ab|exact Cb|exact Tg|apply Mt; assumption].
  Qed.

  Lemma inv_sched sched : forall s, Inv s -> Inv (run_sched sched s).
  Proof. induction sched as [|t sched IH]; intros s I; cbn [run_sched]; [exact I|]. apply IH, inv_step, I. Qed.
  Lemma inv_drain_thread fuel : forall t s, Inv s -> Inv (drain_thread fuel t s).
  Proof. induction fuel as [|f IH]; intros t s I; cbn [drain_thread]; [exact I|]. destruct (rem s t); [exact I|]. apply IH, inv_step, I. Qed.
  Lemma inv_drain n : forall t fuel s, Inv s -> Inv (drain n t fuel s).
  Proof. induction n as [|n IH]; intros t fuel s I; cbn [drain]; [exact I|]. apply IH, inv_drain_thread, I. Qed.

  (* ---- every thread runs to completion ---- *)
  Lemma step_rem_other u t s : t <> u -> rem (step_thread u s) t = rem s t.
  Proof.
    intro N. unfold step_thread. destruct (rem s u) as [|b bs]; [reflexivity|].
    destruct (run_block (mem s) b). cbn [rem]. destruct (Nat.eqb t u) eqn:E; [apply Nat.eqb_eq in E; contradiction|reflexivity].
  Qed.
  Lemma step_rem_self u s : length (rem (step_thread u s) u) = Nat.pred (length (rem s u)).
  Proof.
    unfold step_thread. destruct (rem s u) as [|b bs] eqn:R; [rewrite R; reflexivity|].
    destruct (run_block (mem s) b). cbn [rem]. rewrite Nat.eqb_refl. reflexivity.
  Qed.
  Lemma drain_thread_done fuel : forall t s, (length (rem s t) <= fuel)%nat -> rem (drain_thread fuel t s) t = [].
  Proof.
    induction fuel as [|f IH]; intros t s H; cbn [drain_thread].
    - destruct (rem s t); [reflexivity|cbn in H; lia].
    - destruct (rem s t) eqn:R; [exact R|]. apply IH. rewrite step_rem_self, R. cbn in *. lia.
  Qed.
  Lemma drain_thread_other fuel : forall t u s, u <> t -> rem (drain_thread fuel t s) u = rem s u.
  Proof.
    induction fuel as [|f IH]; intros t u s N; cbn [drain_thread]; [reflexivity|].
    destruct (rem s t); [reflexivity|]. rewrite IH by exact N. apply step_rem_other, N.
  Qed.
  Lemma drain_below n : forall t0 fuel s u, (u < t0)%nat -> rem (drain n t0 fuel s) u = rem s u.
  Proof.
    induction n as [|n IH]; intros t0 fuel s u H; cbn [drain]; [reflexivity|].
    rewrite IH by lia. apply drain_thread_other. lia.
  Qed.
  Lemma drain_done n : forall t0 fuel s, (forall u, (t0 <= u < t0 + n)%nat -> (length (rem s u) <= fuel)%nat) ->
    forall u, (t0 <= u < t0 + n)%nat -> rem (drain n t0 fuel s) u = [].
  Proof.
    induction n as [|n IH]; intros t0 fuel s H u Hu; cbn [drain]; [lia|].
    destruct (Nat.eq_dec u t0) as [E|N].
    - subst. rewrite drain_below by lia. apply drain_thread_done, H. lia.
    - apply IH; [|lia]. intros v Hv. rewrite drain_thread_other by lia. apply H. lia.
  Qed.

  Lemma inv_rem_le s t : Inv s -> (length (rem s t) <= length (P t))%nat.
  Proof. intro I. destruct (I t) as [dn [E _]]. rewrite E, app_length. lia. Qed.

  Lemma total_ge n : forall t, (t < n)%nat -> (length (P t) <= total_blocks n P)%nat.
  Proof.
    unfold total_blocks. intros t Ht. assert (In t (seq 0 n)) as Hi by (apply in_seq; lia).
    induction (seq 0 n) as [|x l IH]; [contradiction|]. cbn [fold_right].
    destruct Hi as [E|Hi]; [subst; lia|specialize (IH Hi); lia].
  Qed.

  (* under agreement every call observes, in every schedule, exactly what it observes when run alone *)
  Theorem agree_schedule_independent : forall n sched t, (t < n)%nat ->
    obs (concurrent m0 n P sched) t = alone_obs m0 (P t).
  Proof.
    intros n sched t Ht. unfold concurrent, alone_obs.
    set (s1 := run_sched sched (init_st m0 P)).
    assert (I1 : Inv s1) by (apply inv_sched, inv_init).
    set (s2 := drain n 0 (total_blocks n P) s1).
    assert (I2 : Inv s2) by (apply inv_drain, I1).
    assert (D : rem s2 t = []).
    { apply drain_done; [|lia]. intros u Hu. etransitivity; [apply inv_rem_le, I1|apply total_ge; lia]. }
    destruct (I2 t) as [dn [E [O _]]]. rewrite D, app_nil_r in E. subst dn. exact O.
  Qed.
End Agree.

(* without agreement the statement is false: two calls with different bounds, schedule 0 1 0 *)
Definition racy (t:nat) : prog :=
  match t with
  | O => [[Wr 0 7]; [Rd 0]]
  | S O => [[Wr 0 9]; [Rd 0]]
  | _ => []
  end.
Theorem race_refuted : obs (concurrent (fun _ => 0) 2 racy [0%nat; 1%nat; 0%nat]) 0%nat <> alone_obs (fun _ => 0) (racy 0%nat).
Proof. vm_compute. intro H. discriminate H. Qed.
