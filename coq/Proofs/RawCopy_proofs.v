From Coq Require Import ZArith List Bool Lia.
Import ListNotations.
Require Import SZV.Model.RawCopy.
Local Open Scope Z_scope.

Lemma guarded_write_fits : forall strict stream block meta szt w n,
  stream <= block -> guard strict stream meta szt w n = true -> record_size meta szt w n <= block.
Proof.
  intros strict stream block meta szt w n Hb G. unfold guard in G. destruct strict.
  - apply Z.ltb_lt in G. lia.
  - apply Z.leb_le in G. lia.
Qed.

(* with the raw data alone on the other side of the comparison a stream of 100 bytes for 21 floats passes the guard and the
   124-byte record overruns its block *)
Lemma raw_only_guard_refuted : exists stream meta szt w n,
  guard_raw_only stream w n = true /\ stream < record_size meta szt w n.
Proof. exists 100, 28, 8, 4, 21. split; vm_compute; reflexivity. Qed.

Lemma rawcopy_sites_hold : rawcopy_sites_ok = true.
Proof. vm_compute. reflexivity. Qed.
