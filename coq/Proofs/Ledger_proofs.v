From Coq Require Import ZArith List Bool Lia.
Import ListNotations.
Require Import SZV.Model.Ledger.
Local Open Scope Z_scope.

(* the library never owns more than its three parameter blocks, however long the history *)
Theorem lib_live_bounded : forall h s, 0 <= lib_live (lrun h s) <= 3.
Proof. intros h s. unfold lib_live. destruct (inited (lrun h s)), (has_dec (lrun h s)); lia. Qed.

Lemma lrun_app h1 h2 s : lrun (h1 ++ h2) s = lrun h2 (lrun h1 s).
Proof. unfold lrun. apply fold_left_app. Qed.

Lemma caller_frees n : forall s, caller (lrun (repeat LCallerFree n) s) = caller s - Z.of_nat n
  /\ inited (lrun (repeat LCallerFree n) s) = inited s /\ has_dec (lrun (repeat LCallerFree n) s) = has_dec s.
Proof.
  induction n as [|n IH]; intros s; cbn [repeat lrun fold_left]; [repeat split; lia|].
  specialize (IH (lstep s LCallerFree)). unfold lrun in IH. destruct IH as [A [B C]].
  rewrite A, B, C. cbn. repeat split; lia.
Qed.

(* once the caller has freed every block it was given and finalised, nothing is live *)
Theorem balanced : forall h s, 0 <= caller (lrun h s) ->
  total_live (lrun (h ++ repeat LCallerFree (Z.to_nat (caller (lrun h s))) ++ [LFinalize]) s) = 0.
Proof.
  intros h s Hc. rewrite lrun_app, lrun_app.
  destruct (caller_frees (Z.to_nat (caller (lrun h s))) (lrun h s)) as [A [B C]].
  set (s1 := lrun (repeat LCallerFree (Z.to_nat (caller (lrun h s)))) (lrun h s)) in *.
  cbn [lrun fold_left lstep]. unfold total_live, lib_live. cbn. rewrite A. lia.
Qed.
