From Coq Require Import ZArith List Bool Lia.
Import ListNotations.
Require Import SZV.Base.BitPack.
Local Open Scope Z_scope.

(* ---------- finite sweeps over one byte, lifted to universally quantified lemmas ---------- *)

Definition widths : list nat := seq 0 9.
Definition byte_vals : list Z := map Z.of_nat (seq 0 256).

Fixpoint all_bits (k:nat) : list (list bool) :=
  match k with
  | O => [[]]
  | S k' => map (cons false) (all_bits k') ++ map (cons true) (all_bits k')
  end.

Lemma all_bits_complete k : forall bs, length bs = k -> In bs (all_bits k).
Proof.
  induction k as [|k IH]; intros bs Hl.
  - destruct bs; [left; reflexivity|discriminate].
  - destruct bs as [|b bs]; [discriminate|]. cbn [all_bits]. apply in_or_app.
    injection Hl as Hl. destruct b; [right|left]; apply in_map; apply IH; exact Hl.
Qed.

Lemma val_bits_sweep :
  forallb (fun k => forallb (fun v => negb (v <? 2 ^ Z.of_nat k) || (val (bits k v) =? v)) byte_vals) widths = true.
Proof. vm_compute. reflexivity. Qed.

Lemma in_byte_vals v : 0 <= v < 256 -> In v byte_vals.
Proof.
  intro H. unfold byte_vals. replace v with (Z.of_nat (Z.to_nat v)) by lia.
  apply in_map. apply in_seq. lia.
Qed.

Lemma val_bits k v : (k <= 8)%nat -> 0 <= v < 2 ^ Z.of_nat k -> val (bits k v) = v.
Proof.
  intros Hk Hv. pose proof val_bits_sweep as S.
  rewrite forallb_forall in S. specialize (S k ltac:(apply in_seq; lia)).
  rewrite forallb_forall in S.
  assert (Hb: 0 <= v < 256).
  { split; [lia|]. apply Z.lt_le_trans with (2 ^ Z.of_nat k); [lia|].
    change 256 with (2 ^ 8). apply Z.pow_le_mono_r; lia. }
  specialize (S v (in_byte_vals v Hb)).
  destruct (Z.ltb_spec v (2 ^ Z.of_nat k)); [|lia]. cbn [negb orb] in S. now apply Z.eqb_eq.
Qed.

(* direct, simpler: sweep with list equality decided by list_eq on bools *)
Fixpoint beq_list (xs ys:list bool) : bool :=
  match xs, ys with
  | [], [] => true
  | x :: xs', y :: ys' => Bool.eqb x y && beq_list xs' ys'
  | _, _ => false
  end.
Lemma beq_list_eq xs : forall ys, beq_list xs ys = true -> xs = ys.
Proof.
  induction xs as [|x xs IH]; destruct ys as [|y ys]; cbn; intro H; try discriminate; [reflexivity|].
  apply andb_true_iff in H as [H1 H2]. apply Bool.eqb_prop in H1. subst. f_equal. now apply IH.
Qed.

Lemma bits_val_sweep' :
  forallb (fun k => forallb (fun bs => beq_list (bits k (val bs)) bs && (0 <=? val bs) && (val bs <? 2 ^ Z.of_nat k))
                            (all_bits k)) widths = true.
Proof. vm_compute. reflexivity. Qed.

Lemma bits_val k bs : (k <= 8)%nat -> length bs = k ->
  bits k (val bs) = bs /\ 0 <= val bs < 2 ^ Z.of_nat k.
Proof.
  intros Hk Hl. pose proof bits_val_sweep' as S.
  rewrite forallb_forall in S. specialize (S k ltac:(apply in_seq; lia)).
  rewrite forallb_forall in S.
  specialize (S bs (all_bits_complete k bs Hl)).
  rewrite !andb_true_iff in S. destruct S as [[S1 S2] S3].
  split; [now apply beq_list_eq|]. split; [now apply Z.leb_le|now apply Z.ltb_lt].
Qed.

Lemma bits_length k v : length (bits k v) = k.
Proof. induction k as [|k IH]; cbn; [reflexivity|]. now rewrite IH. Qed.

(* ---------- grouping into bytes ---------- *)

Lemma pad_to_length n bs : (length bs <= n)%nat -> length (pad_to n bs) = n.
Proof. intro H. unfold pad_to. rewrite app_length, repeat_length. lia. Qed.

Lemma group8_concat n : forall bs, (length bs <= 8 * n)%nat ->
  concat (group8 n bs) = bs ++ repeat false (8 * n - length bs).
Proof.
  induction n as [|n IH]; intros bs Hl.
  - destruct bs; [reflexivity|cbn in Hl; lia].
  - cbn [group8 concat]. rewrite IH by (rewrite skipn_length; lia).
    unfold pad_to. rewrite skipn_length, firstn_length.
    destruct (Nat.le_gt_cases (length bs) 8) as [Hs|Hs].
    + rewrite firstn_all2 by exact Hs. rewrite skipn_all2 by exact Hs. cbn [app].
      rewrite Nat.min_r by lia. rewrite <- app_assoc. f_equal. rewrite <- repeat_app. f_equal. lia.
    + rewrite Nat.min_l by lia. rewrite Nat.sub_diag. cbn [repeat]. rewrite app_nil_r.
      rewrite app_assoc. rewrite firstn_skipn. f_equal. f_equal. lia.
Qed.

Lemma group8_lengths n : forall bs g, In g (group8 n bs) -> length g = 8%nat.
Proof.
  induction n as [|n IH]; intros bs g Hg; cbn [group8] in Hg; [contradiction|].
  destruct Hg as [<-|Hg]; [|now apply IH in Hg].
  apply pad_to_length. rewrite firstn_length. lia.
Qed.

Lemma unpack_map_val groups : (forall g, In g groups -> length g = 8%nat) ->
  unpack_bits (map val groups) = concat groups.
Proof.
  unfold unpack_bits. induction groups as [|g gs IH]; intro H; [reflexivity|].
  cbn [map flat_map concat]. rewrite IH by (intros; apply H; now right).
  f_equal. apply bits_val; [lia|]. apply H. now left.
Qed.

Lemma nbytes_bound n : (n <= 8 * nbytes n)%nat.
Proof.
  unfold nbytes. pose proof (Nat.div_mod (n + 7) 8 ltac:(lia)). pose proof (Nat.mod_upper_bound (n + 7) 8 ltac:(lia)). lia.
Qed.

Theorem unpack_pack_bits bs :
  unpack_bits (pack_bits bs) = bs ++ repeat false (8 * nbytes (length bs) - length bs).
Proof.
  unfold pack_bits. rewrite unpack_map_val by (apply group8_lengths).
  apply group8_concat. apply nbytes_bound.
Qed.

Lemma pack_bits_length bs : length (pack_bits bs) = nbytes (length bs).
Proof.
  unfold pack_bits. rewrite map_length. generalize (nbytes (length bs)) as n. intro n. revert bs.
  induction n as [|n IH]; intro bs; cbn [group8 length]; [reflexivity|]. now rewrite IH.
Qed.

Lemma pack_bits_bytes bs : Forall (fun b => 0 <= b < 256) (pack_bits bs).
Proof.
  unfold pack_bits. apply Forall_forall. intros b Hb. apply in_map_iff in Hb as (g & <- & Hg).
  apply group8_lengths in Hg. change 256 with (2 ^ Z.of_nat 8). apply (bits_val 8 g); [lia|exact Hg].
Qed.

(* ---------- reading the values back ---------- *)

Lemma take_vals_flat k l : (k <= 8)%nat -> Forall (fun v => 0 <= v < 2 ^ Z.of_nat k) l ->
  forall rest, take_vals k (length l) (flat_map (bits k) l ++ rest) = l.
Proof.
  intros Hk Hl rest. induction Hl as [|v l Hv _ IH]; [reflexivity|].
  cbn [length take_vals flat_map]. rewrite <- app_assoc.
  rewrite firstn_app, bits_length, Nat.sub_diag. cbn [firstn]. rewrite app_nil_r.
  rewrite firstn_all2 by (rewrite bits_length; lia).
  rewrite skipn_app, bits_length, Nat.sub_diag. cbn [skipn].
  rewrite skipn_all2 by (rewrite bits_length; lia). cbn [app].
  rewrite IH. f_equal. apply val_bits; assumption.
Qed.

(* the main codec law: every width 0..8, every length, every in-range content *)
Theorem unpack_pack k l : (k <= 8)%nat -> Forall (fun v => 0 <= v < 2 ^ Z.of_nat k) l ->
  unpack k (length l) (pack k l) = l.
Proof.
  intros Hk Hl. unfold unpack, pack. rewrite unpack_pack_bits. apply take_vals_flat; assumption.
Qed.

Lemma flat_bits_length k l : length (flat_map (bits k) l) = (k * length l)%nat.
Proof.
  induction l as [|v l IH]; cbn [flat_map length]; [lia|]. rewrite app_length, bits_length, IH. lia.
Qed.

Theorem pack_length k l : length (pack k l) = packed_len k (length l).
Proof. unfold pack, packed_len. rewrite pack_bits_length, flat_bits_length. reflexivity. Qed.

(* trailing garbage after the packed bytes does not matter (the decoders read from larger buffers) *)
Theorem unpack_pack_prefix k l extra : (k <= 8)%nat -> Forall (fun v => 0 <= v < 2 ^ Z.of_nat k) l ->
  unpack k (length l) (pack k l ++ extra) = l.
Proof.
  intros Hk Hl. unfold unpack, pack, unpack_bits. rewrite flat_map_app.
  fold (unpack_bits (pack_bits (flat_map (bits k) l))). rewrite unpack_pack_bits, <- app_assoc.
  apply take_vals_flat; assumption.
Qed.
