(* The 3-D float kernel (C01): what holds for every input (the quantiser is the 2-D kernel's). *)
From Coq Require Import ZArith List Bool Lia.
Import ListNotations.
Require Import SZV.Base.FloatOps SZV.Model.Quant SZV.Model.QuantFloat SZV.Model.QuantFloat2 SZV.Model.QuantFloat3
               SZV.Proofs.Quant_proofs SZV.Proofs.QuantFloat_proofs SZV.Proofs.QuantFloat2_proofs.
Local Open Scope Z_scope.

Lemma fquant3_ok c h p x q r : fquant3 c h p x = Some (q, r) -> f_ok3 c x r = true.
Proof. apply fquant2_ok. Qed.
Lemma fquant3_mirror c h p x q r : fquant3 c h p x = Some (q, r) -> fdequant3 c p q = r.
Proof. apply fquant2_mirror. Qed.

Theorem fchecks3_static c : forall xs h, let '(_, mir, o, _) := fchecks3 c h xs in mir = true /\ o = true.
Proof.
  unfold fchecks3. induction xs as [|x xs IH]; intro h; cbn [run_checks]; [split; reflexivity|].
  destruct (fquant3 c h (fpred3 c h) x) as [[q r]|] eqn:Q.
  - specialize (IH (r :: h)). destruct (run_checks _ _ _ _ _ _ _ _ c (r :: h) xs) as [[[a b] o] ex].
    rewrite (fquant3_ok _ _ _ _ _ _ Q), (fquant3_mirror _ _ _ _ _ _ Q), Z.eqb_refl. exact IH.
  - specialize (IH (fexact3 c x :: h)). destruct (run_checks _ _ _ _ _ _ _ _ c (fexact3 c x :: h) xs) as [[[a b] o] ex]. exact IH.
Qed.

Theorem f3d_lockstep c xs h :
  let '(nz, _, _, _) := fchecks3 c h xs in
  nz = true -> let '(qs, es, rs) := fenc3 c h xs in fdec3 c h qs es = Some rs.
Proof.
  pose proof (checked_lockstep Z f3ctx fpred3 fquant3 fdequant3 fexact3 Z.eqb f_ok3 zeqb_eq c xs h) as L.
  pose proof (fchecks3_static c xs h) as S. unfold fchecks3 in *.
  destruct (run_checks _ _ _ _ _ _ _ _ c h xs) as [[[a b] o] ex]. destruct S as [Sm So]. intro E. apply L; assumption.
Qed.

Theorem f3d_bound c xs h :
  let '(_, _, _, ex) := fchecks3 c h xs in
  ex = true -> let '(_, _, rs) := fenc3 c h xs in Forall2 (fun x r => f_ok3 c x r = true) xs rs.
Proof.
  pose proof (checked_bound Z f3ctx fpred3 fquant3 fdequant3 fexact3 Z.eqb f_ok3 c xs h) as B.
  pose proof (fchecks3_static c xs h) as S. unfold fchecks3 in *.
  destruct (run_checks _ _ _ _ _ _ _ _ c h xs) as [[[a b] o] ex]. destruct S as [Sm So]. intro E. apply B; assumption.
Qed.
