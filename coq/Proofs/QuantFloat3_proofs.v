(* The 3-D float kernel (C01): what holds for every input (the quantiser is the 2-D kernel's). *)
From Coq Require Import ZArith List Bool Lia.
Import ListNotations.
Require Import SZV.Base.FloatOps SZV.Model.Quant SZV.Model.QuantFloat SZV.Model.QuantFloat2 SZV.Model.QuantFloat3
               SZV.Proofs.Quant_proofs SZV.Proofs.QuantFloat_proofs SZV.Proofs.QuantFloat2_proofs.
Local Open Scope Z_scope.

Lemma fquant3_ok c h p x q r : fquant3 c h p x = Some (q, r) -> f_ok3 c x r = true.
Proof. apply fquant2_ok. Qed.
Lemma fquant3_mirror c h p x q r : fquant3 c h p x = Some (q, r) -> fdequant3 c p q = r.
Proof. apply fquant2_mirror. Qed.

Theorem fchecks3_static c : forall xs h, let '(_, mir, o, _) := fchecks3 c h xs in mir = true /\ o = true.
Proof.
  unfold fchecks3. induction xs as [|x xs IH]; intro h; cbn [run_checks]; [split; reflexivity|].
  destruct (fquant3 c h (fpred3 c h) x) as [[q r]|] eqn:Q.
  - specialize (IH (r :: h)). destruct (run_checks _ _ _ _ _ _ _ _ c (r :: h) xs) as [[[a b] o] ex].
    rewrite (fquant3_ok _ _ _ _ _ _ Q), (fquant3_mirror _ _ _ _ _ _ Q), Z.eqb_refl. exact IH.
  - specialize (IH (fexact3 c x :: h)). destruct (run_checks _ _ _ _ _ _ _ _ c (fexact3 c x :: h) xs) as [[[a b] o] ex]. exact IH.
Qed.

Theorem f3d_lockstep c xs h :
  let '(nz, _, _, _) := fchecks3 c h xs in
  nz = true -> let '(qs, es, rs) := fenc3 c h xs in fdec3 c h qs es = Some rs.
Proof.
  pose proof (checked_lockstep Z f3ctx fpred3 fquant3 fdequant3 fexact3 Z.eqb f_ok3 zeqb_eq c xs h) as L.
  pose proof (fchecks3_static c xs h) as S. unfold fchecks3 in *.
  destruct (run_checks _ _ _ _ _ _ _ _ c h xs) as [[[a b] o] ex]. destruct S as [Sm So]. intro E. apply L; assumption.
Qed.

Theorem f3d_bound c xs h :
  let '(_, _, _, ex) := fchecks3 c h xs in
  ex = true -> let '(_, _, rs) := fenc3 c h xs in Forall2 (fun x r => f_ok3 c x r = true) xs rs.
Proof.
  pose proof (checked_bound Z f3ctx fpred3 fquant3 fdequant3 fexact3 Z.eqb f_ok3 c xs h) as B.
  pose proof (fchecks3_static c xs h) as S. unfold fchecks3 in *.
  destruct (run_checks _ _ _ _ _ _ _ _ c h xs) as [[[a b] o] ex]. destruct S as [Sm So]. intro E. apply B; assumption.
Qed.

(* ---- unconditional lock-step: with the quantiser's code proved non-zero (QuantFloatNz_proofs) no evaluated flag is left ---- *)
From Flocq Require Import Core.Core IEEE754.Binary IEEE754.Bits.
From Coq Require Import Reals.
Require Import SZV.Proofs.QuantFloatNz_proofs.

Definition ctx_ok2 (c:fctx) : Prop := 1 <= fradius c /\ 2 * fradius c < 2 ^ 24 /\ (0 <= B2R 24 128 (frecip c))%R.

Theorem fchecks2_nz c : ctx_ok2 (fc c) -> forall xs h, let '(nz, _, _, _) := fchecks2 c h xs in nz = true.
Proof.
  intros (H1 & H2 & H3). unfold fchecks2. induction xs as [|x xs IH]; intro h; cbn [run_checks]; [reflexivity|].
  destruct (fquant2 c h (fpred2 c h) x) as [[q r]|] eqn:Q.
  - specialize (IH (r :: h)). destruct (run_checks _ _ _ _ _ _ _ _ c (r :: h) xs) as [[[a b] o] ex].
    pose proof (fquant2_nonzero _ _ _ _ _ _ H1 H2 H3 Q) as N. apply Z.eqb_neq in N. rewrite N. exact IH.
  - specialize (IH (fexact2 c x :: h)). destruct (run_checks _ _ _ _ _ _ _ _ c (fexact2 c x :: h) xs) as [[[a b] o] ex]. exact IH.
Qed.
Theorem fchecks3_nz c : ctx_ok2 (fc (f2 c)) -> forall xs h, let '(nz, _, _, _) := fchecks3 c h xs in nz = true.
Proof.
  intros (H1 & H2 & H3). unfold fchecks3. induction xs as [|x xs IH]; intro h; cbn [run_checks]; [reflexivity|].
  destruct (fquant3 c h (fpred3 c h) x) as [[q r]|] eqn:Q.
  - specialize (IH (r :: h)). destruct (run_checks _ _ _ _ _ _ _ _ c (r :: h) xs) as [[[a b] o] ex].
    pose proof (fquant2_nonzero _ _ _ _ _ _ H1 H2 H3 Q) as N. apply Z.eqb_neq in N. rewrite N. exact IH.
  - specialize (IH (fexact3 c x :: h)). destruct (run_checks _ _ _ _ _ _ _ _ c (fexact3 c x :: h) xs) as [[[a b] o] ex]. exact IH.
Qed.

Theorem f2d_lockstep_all c xs h : ctx_ok2 (fc c) -> let '(qs, es, rs) := fenc2 c h xs in fdec2 c h qs es = Some rs.
Proof.
  intro K. pose proof (f2d_lockstep c xs h) as L. pose proof (fchecks2_nz c K xs h) as N.
  destruct (fchecks2 c h xs) as [[[nz mir] o] ex]. apply L, N.
Qed.
Theorem f3d_lockstep_all c xs h : ctx_ok2 (fc (f2 c)) -> let '(qs, es, rs) := fenc3 c h xs in fdec3 c h qs es = Some rs.
Proof.
  intro K. pose proof (f3d_lockstep c xs h) as L. pose proof (fchecks3_nz c K xs h) as N.
  destruct (fchecks3 c h xs) as [[[nz mir] o] ex]. apply L, N.
Qed.

(* the context hypothesis, decidably: a context built for a positive bound and a usual interval count meets it *)
Lemma fle_zero_nonneg (r:f32) : fle f32_zero r = true -> (0 <= B2R 24 128 r)%R.
Proof.
  unfold fle, b32_compare. destruct r as [sa|sa|sa pl pf|sa ma ea pf].
  - intros _. simpl. apply Rle_refl.
  - intros _. simpl. apply Rle_refl.
  - intros _. simpl. apply Rle_refl.
  - intro H. rewrite Bcompare_correct in H by reflexivity.
    change (B2R 24 128 f32_zero) with 0%R in H.
    destruct (Rcompare_spec 0 (B2R 24 128 (B754_finite 24 128 sa ma ea pf))) as [A|A|A]; try discriminate H.
    + apply Rlt_le, A.
    + rewrite <- A. apply Rle_refl.
Qed.
Lemma ctx_ok2b_ok c : ctx_ok2b c = true -> ctx_ok2 c.
Proof.
  unfold ctx_ok2b, ctx_ok2. intro H. apply andb_true_iff in H as [H H3]. apply andb_true_iff in H as [H1 H2].
  apply Z.leb_le in H1. apply Z.ltb_lt in H2. repeat split; try assumption. apply fle_zero_nonneg, H3.
Qed.
