(* Size accounting (C07).  Sizes of the streams every writer produces, the raw-copy fall-back that
   each kernel path takes when its stream would be larger than the raw data, and the lossless back
   ends as Section variables with their worst-case framing.  No proofs in this file. *)
From Coq Require Import ZArith List Bool.
Import ListNotations.
Require Import SZV.Gen.SrcConsts SZV.Gen.SrcFacts.
Local Open Scope Z_scope.

Definition esize (ty:Z) : Z := if ty =? 0 then 4 else if ty =? 1 then 8 else if (ty =? 2) || (ty =? 3) then 1
                               else if (ty =? 4) || (ty =? 5) then 2 else if (ty =? 6) || (ty =? 7) then 4 else 8.
Definition mdbl (ty:Z) : Z := if ty =? 1 then src_MetaDataByteLength_double else src_MetaDataByteLength.
Definition raw (ty n:Z) : Z := n * esize ty.

(* *_StoreOriData: version, flag, parameter block, element count, the elements *)
Definition raw_stream (ty st n:Z) : Z := 3 + 1 + mdbl ty + st + raw ty n.
(* constant ("within range") stream: version, flag, parameter block, count, one value *)
Definition const_stream (ty st:Z) : Z := 3 + 1 + mdbl ty + st + esize ty.

(* size before the lossless wrapper, for a kernel stream of k bytes.  Every kernel path replaces its
   stream by the raw copy once it is not smaller than the threshold of its guard (the thresholds in the
   source differ by a few bytes per path; [slack] bounds them). *)
Definition presize (ty st n k thr:Z) : Z := if thr <=? k then raw_stream ty st n else k.

(* what SZ_compress_args_<type> returns: tiny float/double arrays verbatim, constant arrays as the
   constant stream (never wrapped), everything else through the wrapper unless best-speed *)
Definition out_size (wrap:Z -> Z) (ty st n:Z) (tiny const best_speed:bool) (k thr:Z) : Z :=
  if tiny then raw ty n
  else if const then const_stream ty st
  else let s := presize ty st n k thr in if best_speed then s else wrap s.

(* ---- the zstd output buffer of sz_lossless_compress (utility.c), constants read from the source ---- *)
Definition zstd_buffer (n:Z) : Z := if n <? src_zstd_small_limit then src_zstd_small_size else n * src_zstd_factor_milli / 1000.
(* what zstd needs at worst for n input bytes: frame header (magic 4, descriptor 1, content size up to 8) and a 3-byte header per
   block of at most 128 KiB, incompressible blocks being stored raw (zstd format, RFC 8878; trusted) *)
Definition zstd_worst (n:Z) : Z := n + 13 + 3 * (n / 131072 + 1).

(* what zlib's deflateBound returns for n input bytes with the parameters zlib_compress5 uses (deflateInit: windowBits 15, memLevel 8, zlib
   wrapper, no dictionary): the documented upper bound of deflate's output, and the size of the buffer zlib_compress5 allocates (zlib 1.2.x
   deflate.c; trusted) *)
Definition deflate_bound (n:Z) : Z := n + n / 4096 + n / 16384 + n / 33554432 + 13.
