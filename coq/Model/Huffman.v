(* Model of the Huffman stage of sz/src/Huffman.c: code assignment (build_code), the bit-level
   payload written by encode(), the bit-serial decoder decode(), the table-driven decoder
   decode_MSST19(), and the tree table written by pad_tree_X / read back by unpad_tree_X in the
   three layouts of convert_HuffTree_to_bytes_anyStates.  The tree *shape* chosen by the heap in
   init() only influences the compression ratio; it is an input of the model ("choice oracle"):
   every theorem is quantified over all trees.  No proofs in this file. *)
From Coq Require Import ZArith List Bool.
Import ListNotations.
Require Import SZV.Base.Bytes SZV.Base.BitPack.
Local Open Scope Z_scope.

Inductive tree := Leaf (c:Z) | Node (l r:tree).

(* build_code: left = 0, right = 1 *)
Fixpoint code (t:tree) (c:Z) : option (list bool) :=
  match t with
  | Leaf c' => if c =? c' then Some [] else None
  | Node l r => match code l c with
                | Some p => Some (false :: p)
                | None => match code r c with Some p => Some (true :: p) | None => None end
                end
  end.

Fixpoint codes_aux (t:tree) (pre:list bool) : list (Z * list bool) :=
  match t with
  | Leaf c => [(c, rev pre)]
  | Node l r => codes_aux l (false :: pre) ++ codes_aux r (true :: pre)
  end.
Definition codes (t:tree) : list (Z * list bool) := codes_aux t [].

Fixpoint leaves (t:tree) : list Z :=
  match t with Leaf c => [c] | Node l r => leaves l ++ leaves r end.

(* encode(): concatenation of the code words, most significant bit first *)
Fixpoint encode_with (lk:Z -> option (list bool)) (s:list Z) : option (list bool) :=
  match s with
  | [] => Some []
  | c :: s' => match lk c, encode_with lk s' with Some p, Some q => Some (p ++ q) | _, _ => None end
  end.
Definition encode (t:tree) (s:list Z) : option (list bool) := encode_with (code t) s.

(* payload bytes: the bit string cut into bytes, last byte zero padded; outSize = number of bytes *)
Definition encode_bytes (t:tree) (s:list Z) : option (list Z) :=
  match encode t s with Some bits => Some (pack_bits bits) | None => None end.

(* decode(): walk from the root, emit at leaves, restart; [n] symbols wanted *)
Fixpoint walk (root cur:tree) (bits:list bool) (n:nat) : list Z :=
  match n with O => [] | S n' =>
  match bits with
  | [] => []
  | b :: bits' =>
     match cur with
     | Leaf _ => []
     | Node l r => let nx := if b then r else l in
        match nx with
        | Leaf c => c :: walk root root bits' n'
        | Node _ _ => walk root nx bits' n
        end
     end
  end end.

(* decode() including its special case: a root that is a leaf means a constant sequence *)
Definition decode (t:tree) (bytes:list Z) (n:nat) : list Z :=
  match t with
  | Leaf c => repeat c n
  | Node _ _ => walk t t (unpack_bits bytes) n
  end.

(* ---------- the tree table (pad_tree_X / unpad_tree_X) ---------- *)
(* rows in pre-order: (L, R, C, t); index 0 = "no child", as in the C *)
Notation row := (Z * Z * Z * bool)%type.

Fixpoint size (t:tree) : Z := match t with Leaf _ => 1 | Node l r => 1 + size l + size r end.
Fixpoint nsize (t:tree) : nat := match t with Leaf _ => 1 | Node l r => S (nsize l + nsize r) end.

(* pad_tree_X: node i gets its left child at i+1 and its right child at i+1+size l *)
Fixpoint pad (t:tree) (i:Z) : list row :=
  match t with
  | Leaf c => [(0, 0, c, true)]
  | Node l r => (i + 1, i + 1 + size l, 0, false) :: pad l (i + 1) ++ pad r (i + 1 + size l)
  end.

Definition nth_row (rows:list row) (i:Z) : option row :=
  if i <? 0 then None else nth_error rows (Z.to_nat i).

(* unpad_tree_X: follows the L/R indices; fuel bounds the recursion *)
Fixpoint unpad (fuel:nat) (rows:list row) (i:Z) : option tree :=
  match fuel with O => None | S f =>
  match nth_row rows i with
  | None => None
  | Some (L, R, c, true) => Some (Leaf c)
  | Some (L, R, c, false) =>
      if (L =? 0) || (R =? 0) then None else
      match unpad f rows L, unpad f rows R with
      | Some l, Some r => Some (Node l r)
      | _, _ => None
      end
  end end.

(* sequential reader used by the correspondence check on large trees (linear time); its result is
   validated there by re-serialising: [pad t 0 = rows] *)
Fixpoint parse_seq (fuel:nat) (rows:list row) : option (tree * list row) :=
  match fuel with O => None | S f =>
  match rows with
  | [] => None
  | (_, _, c, true) :: rest => Some (Leaf c, rest)
  | (_, _, _, false) :: rest =>
      match parse_seq f rest with
      | Some (l, rest1) => match parse_seq f rest1 with
                           | Some (r, rest2) => Some (Node l r, rest2)
                           | None => None end
      | None => None
      end
  end end.

(* ---------- byte layouts of convert_HuffTree_to_bytes_anyStates ---------- *)
(* index width in bytes chosen from the node count (thresholds come from the source) *)
Definition idx_width (thr8 thr16 nodeCount:Z) : nat :=
  if nodeCount <=? thr8 then 1%nat else if nodeCount <=? thr16 then 2%nat else 4%nat.

Definition rowL (r:row) : Z := let '(L, _, _, _) := r in L.
Definition rowR (r:row) : Z := let '(_, R, _, _) := r in R.
Definition rowC (r:row) : Z := let '(_, _, C, _) := r in C.
Definition rowT (r:row) : Z := let '(_, _, _, t) := r in if t then 1 else 0.

(* [sysEndianType] L[] R[] C[] t[]  — arrays in native (little-endian) byte order *)
Definition tree_bytes (w:nat) (sysEnd:Z) (rows:list row) : list Z :=
  sysEnd :: array_to_bytes w 0 0 (map rowL rows) ++ array_to_bytes w 0 0 (map rowR rows)
         ++ array_to_bytes 4 0 0 (map rowC rows) ++ map rowT rows.

Definition tree_bytes_len (w:nat) (n:Z) : Z := 1 + 2 * Z.of_nat w * n + 4 * n + n.

Fixpoint zip4 (a b c:list Z) (d:list Z) : list row :=
  match a, b, c, d with
  | x :: a', y :: b', z :: c', t :: d' => (x, y, z, negb (t =? 0)) :: zip4 a' b' c' d'
  | _, _, _, _ => []
  end.

Definition parse_tree_bytes (w:nat) (n:nat) (bytes:list Z) : list row :=
  let body := tl bytes in
  let lb := firstn (w * n) body in
  let rb := firstn (w * n) (skipn (w * n) body) in
  let cb := firstn (4 * n) (skipn (2 * w * n) body) in
  let tb := firstn n (skipn (2 * w * n + 4 * n) body) in
  zip4 (bytes_to_array w 0 0 lb) (bytes_to_array w 0 0 rb) (bytes_to_array 4 0 0 cb) tb.

(* whole output of encode_withTree: nodeCount, stateNum/2, tree table, payload *)
Definition stream (thr8 thr16 stateNumHalf:Z) (t:tree) (s:list Z) : option (list Z) :=
  match encode_bytes t s with
  | None => None
  | Some payload =>
      let n := size t in
      Some (to_be 4 n ++ to_be 4 stateNumHalf ++ tree_bytes (idx_width thr8 thr16 n) 0 (pad t 0) ++ payload)
  end.

(* ---------- decode_MSST19: table-driven decoder ---------- *)
(* descend at most mb levels along the bits; result: (reached node, bits consumed) *)
Fixpoint descend (t:tree) (bits:list bool) (mb:nat) {struct mb} : tree * nat :=
  match mb with
  | O => (t, O)
  | S mb' =>
    match t with
    | Leaf _ => (t, O)
    | Node l r =>
      match bits with
      | [] => (t, O)
      | b :: bits' => let '(t', k) := descend (if b then r else l) bits' mb' in (t', S k)
      end
    end
  end.

(* one symbol: table step of mb bits, then bit-serial walk if the table entry is an inner node.
   [fuel] bounds the tail walk. *)
Fixpoint walk1 (t:tree) (bits:list bool) (fuel:nat) : option (Z * list bool) :=
  match t with
  | Leaf c => Some (c, bits)
  | Node l r =>
    match fuel with O => None | S f =>
    match bits with
    | [] => None
    | b :: bits' => walk1 (if b then r else l) bits' f
    end end
  end.

Fixpoint decode_table (root:tree) (mb:nat) (fuel:nat) (bits:list bool) (n:nat) : list Z :=
  match n with O => [] | S n' =>
    let '(t', k) := descend root bits mb in
    match walk1 t' (skipn k bits) fuel with
    | Some (c, rest) => c :: decode_table root mb fuel rest n'
    | None => []
    end
  end.

(* the tail walk never needs more steps than the tree has nodes *)
Definition decode_msst19 (t:tree) (maxBits:Z) (bytes:list Z) (n:nat) : list Z :=
  match t with
  | Leaf c => repeat c n
  | Node _ _ => decode_table t (Z.to_nat (if maxBits >? 16 then 16 else maxBits)) (nsize t) (unpack_bits bytes) n
  end.

(* well-formedness demanded of the oracle tree for a sequence: every symbol has a code and leaves
   are distinct *)
Fixpoint mem (c:Z) (l:list Z) : bool := match l with [] => false | x :: l' => (c =? x) || mem c l' end.
Fixpoint nodupb (l:list Z) : bool := match l with [] => true | x :: l' => negb (mem x l') && nodupb l' end.
Definition tree_ok (t:tree) (s:list Z) : bool := nodupb (leaves t) && forallb (fun c => mem c (leaves t)) s.
