(* Consistency of the per-type copies of the kernels (T2 facts read from the source on every run).  The ten sz_<type>.c / szd_<type>.c
   families are clones of one another; what differs between siblings is a header-length constant, a type tag or a dimension letter, and
   the realistic slip is the sibling's left behind.  Each definition says what "consistent" means for one such family.  No proofs here. *)
From Coq Require Import List Bool String Arith.
Import ListNotations.
Require Import SZV.Gen.SrcFacts.

(* C01/C06: the double files never use the float header length and vice versa *)
Definition header_constants_ok : bool := match src_header_constant_slips with (O, O) => true | _ => false end.
(* C03: each integer type's entry points hand the range scan their own type tag *)
Definition int_range_tags_ok : bool :=
  forallb (fun r => let '(_, (calls, own)) := r in Nat.eqb calls own && Nat.ltb 0 calls) src_int_range_scan_tags && Nat.eqb (List.length src_int_range_scan_tags) 8.
(* C09: every block offset of the regression kernels uses one dimension letter and its loop counter throughout *)
Definition block_offsets_ok : bool :=
  forallb (fun r => let '(_, (sites, good)) := r in Nat.eqb sites good && Nat.ltb 0 sites) src_block_offset_sites && Nat.eqb (List.length src_block_offset_sites) 4.
(* C11: the byte in front of a serialised tree is the machine's byte order in all three table layouts *)
Definition huff_marker_ok : bool := let '(sites, sys) := src_huff_marker_sites in Nat.eqb sites sys && Nat.eqb sites 3.
