(* Specification side for the dimension handling of sz.c (C09).  The functions themselves are
   the generated translations c_computeDimension / c_computeDataLength / c_filterDimension in
   Gen/SrcFuns.v.  No proofs here. *)
From Coq Require Import ZArith List Bool.
Import ListNotations.
Require Import SZV.Base.CSem SZV.Gen.SrcFuns.
Local Open Scope Z_scope.

(* a 5-tuple is read as the list of its non-zero entries, fastest dimension (r1) first *)
Definition present (l:list Z) : list Z := filter (fun x => negb (x =? 0)) l.
Definition squeeze (l:list Z) : list Z := filter (fun x => negb (x =? 1)) l.
Definition dims_of (r5 r4 r3 r2 r1:Z) : list Z := present [r1; r2; r3; r4; r5].
Definition product (l:list Z) : Z := fold_right Z.mul 1 l.

(* well-formed API tuple: sizes in range, r1 >= 1, zeros only as a leading block r5, r4, ... *)
Definition small (z:Z) : Prop := 0 <= z < 2 ^ 12.
Definition wf (r5 r4 r3 r2 r1:Z) : Prop :=
  small r5 /\ small r4 /\ small r3 /\ small r2 /\ small r1 /\ 1 <= r1 /\
  (r2 = 0 -> r3 = 0) /\ (r3 = 0 -> r4 = 0) /\ (r4 = 0 -> r5 = 0).
(* the shape the library works with: size-1 dimensions removed; an all-ones shape is (1) *)
Definition canon (l:list Z) : list Z := match squeeze l with [] => [1] | s => s end.

Definition wfb (r5 r4 r3 r2 r1:Z) : bool :=
  let sm z := (0 <=? z) && (z <? 2 ^ 12) in
  sm r5 && sm r4 && sm r3 && sm r2 && sm r1 && (1 <=? r1) &&
  (negb (r2 =? 0) || (r3 =? 0)) && (negb (r3 =? 0) || (r4 =? 0)) && (negb (r4 =? 0) || (r5 =? 0)).

(* result of the filter as (r5', r4', r3', r2', r1') *)
Definition filtered (r5 r4 r3 r2 r1:Z) : Z * Z * Z * Z * Z :=
  let '(_, (c0, c1, c2, c3, c4)) := c_filterDimension r5 r4 r3 r2 r1 in (c4, c3, c2, c1, c0).

(* what the dispatch of SZ_compress_args / SZ_decompress sees: dimension and element count of the
   filtered tuple *)
Definition dispatch_dim (r5 r4 r3 r2 r1:Z) : Z :=
  let '(f5, f4, f3, f2, f1) := filtered r5 r4 r3 r2 r1 in c_computeDimension f5 f4 f3 f2 f1.
Definition dispatch_len (r5 r4 r3 r2 r1:Z) : Z :=
  let '(f5, f4, f3, f2, f1) := filtered r5 r4 r3 r2 r1 in c_computeDataLength f5 f4 f3 f2 f1.

(* the text the correspondence check compares with the implementation *)
Definition fdim_report (r5 r4 r3 r2 r1:Z) : Z * (Z * Z * Z * Z * Z) * Z * Z * Z * Z :=
  let '(ret, c) := c_filterDimension r5 r4 r3 r2 r1 in
  (ret, c, c_computeDimension r5 r4 r3 r2 r1, c_computeDataLength r5 r4 r3 r2 r1,
   dispatch_dim r5 r4 r3 r2 r1, dispatch_len r5 r4 r3 r2 r1).
