(* Generic prediction/quantisation codec shared by every SZ kernel (C01, C03, C17).
   The encoder simulates the decoder: it predicts from *reconstructed* values, quantises the
   prediction error into a code (0 = "unpredictable": the value is stored through the exact codec),
   and records the reconstruction it will obtain.  The kernels differ only in the parameters of
   this section: the value type, the predictor (1-D previous value, 2-D/3-D/4-D Lorenzo stencils,
   regression planes, previous time step), the quantiser and the exact codec.  No proofs here. *)
From Coq Require Import ZArith List Bool.
Import ListNotations.
Local Open Scope Z_scope.

Section Quant.
  Variable V : Type.
  Variable ctx : Type.                        (* side information shared by both sides: bound, radius, shape, choices *)
  Variable pred : ctx -> list V -> V.         (* reads the reconstructed history only (most recent first) *)
  Variable quant : ctx -> list V -> V -> V -> option (Z * V).   (* history -> pred -> x -> Some (code, reconstruction), or None = unpredictable
                                                             (the history only tells the position: the first elements are always exact) *)
  Variable dequant : ctx -> V -> Z -> V.      (* the decoder's expression on (pred, code) *)
  Variable exact : ctx -> V -> V.             (* what the exact codec reconstructs *)

  (* encoder: codes, exactly stored values (in order), reconstruction (in order) *)
  Fixpoint enc (c:ctx) (h:list V) (xs:list V) : list Z * list V * list V :=
    match xs with
    | [] => ([], [], [])
    | x :: xs' =>
      match quant c h (pred c h) x with
      | Some (q, r) => let '(qs, es, rs) := enc c (r :: h) xs' in (q :: qs, es, r :: rs)
      | None => let r := exact c x in
                let '(qs, es, rs) := enc c (r :: h) xs' in (0 :: qs, r :: es, r :: rs)
      end
    end.

  Fixpoint dec (c:ctx) (h:list V) (qs:list Z) (es:list V) : option (list V) :=
    match qs with
    | [] => Some []
    | q :: qs' =>
      if q =? 0 then
        match es with
        | [] => None
        | e :: es' => match dec c (e :: h) qs' es' with Some rs => Some (e :: rs) | None => None end
        end
      else let r := dequant c (pred c h) q in
           match dec c (r :: h) qs' es with Some rs => Some (r :: rs) | None => None end
    end.

  (* per-element checks of one run, evaluated by the model itself: every emitted code is non-zero,
     the decoder's expression equals the encoder's reconstruction, every predicted element is within
     the bound, every exactly stored element is within the bound *)
  Variable veq : V -> V -> bool.
  Variable okb : ctx -> V -> V -> bool.
  Fixpoint run_checks (c:ctx) (h:list V) (xs:list V) : bool * bool * bool * bool :=
    match xs with
    | [] => (true, true, true, true)
    | x :: xs' =>
      let p := pred c h in
      match quant c h p x with
      | Some (q, r) => let '(a, b, o, ex) := run_checks c (r :: h) xs' in
                       (negb (q =? 0) && a, veq (dequant c p q) r && b, okb c x r && o, ex)
      | None => let r := exact c x in let '(a, b, o, ex) := run_checks c (r :: h) xs' in (a, b, o, okb c x r && ex)
      end
    end.
End Quant.
