(* The inline unpacker of the residual bits in the decompressors (114 sites in szd_*.c, sz*_ts, *_pwr and dataCompression.c, all of the
   same form -- counted on every run, Gen/SrcFacts.v): w bits starting at bit k mod 8 of byte b0, possibly continuing into b1, fetched
   with the mask helpers of ByteToolkit.c, which are translated from the source (Gen/SrcMasks.v).  No proofs in this file. *)
From Coq Require Import ZArith List Bool.
Require Import SZV.Gen.SrcMasks.
Local Open Scope Z_scope.

Definition inline_extract (k w b0 b1:Z) : Z :=
  let rm := c_getRightMovingSteps k w in
  if 0 <? rm then Z.shiftr (Z.land b0 (c_getRightMovingCode k w)) rm
  else if rm <? 0 then
    let code1 := c_getLeftMovingCode k in
    let code2 := c_getRightMovingCode k w in
    let lm := - rm in
    Z.lor (Z.shiftl (Z.land b0 code1) lm) (Z.shiftr (Z.land b1 code2) (8 - lm))
  else Z.land b0 (c_getRightMovingCode k w).

(* what it must be: bits k .. k+w-1 (most significant first) of the two bytes read as one 16-bit number *)
Definition spec_extract (k w b0 b1:Z) : Z := Z.land (Z.shiftr (Z.lor (Z.shiftl b0 8) b1) (16 - k - w)) (Z.ones w).

(* and whether the second byte is consumed / the byte cursor advances *)
Definition inline_advance (k w:Z) : Z := let rm := c_getRightMovingSteps k w in if 0 <? rm then 0 else 1.
