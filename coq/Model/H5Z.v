(* Model of the cd_values handling of hdf5-filter/H5Z-SZ/src/H5Z_SZ.c (C18):
   SZ_errConfigToCdArray, SZ_refreshDimForCdArray (as called by H5Z_sz_set_local),
   SZ_cdArrayToMetaData, SZ_cdArrayToMetaDataErr, checkCDValuesWithErrors, and the legacy helper
   SZ_copymetaDataToCdArray.  A cd_values word is a Z in [0, 2^32).  The byte-level codecs the C uses
   to split doubles and 64-bit lengths into words are those of C13; here they are the arithmetic
   they compute.  No proofs in this file. *)
From Coq Require Import ZArith List Bool.
Import ListNotations.
Require Import SZV.Base.CSem SZV.Gen.SrcFuns SZV.Model.Dims.
Local Open Scope Z_scope.

Definition W32 := 2 ^ 32.
Definition word (z:Z) : Z := z mod W32.
Definition hi (v:Z) : Z := (v / W32) mod W32.
Definition lo (v:Z) : Z := v mod W32.
Definition join (h l:Z) : Z := (h * W32 + l) mod 2 ^ 64.

(* SZ_errConfigToCdArray: mode and the bit patterns of the four doubles *)
Definition err_words (mode:Z) (a r p s:Z) : list Z :=
  [word mode; hi a; lo a; hi r; lo r; hi p; lo p; hi s; lo s].

(* SZ_refreshDimForCdArray applied to the *filtered* tuple (f5..f1); old = error words or [] *)
Definition record_cd (dataType:Z) (old:list Z) (f5 f4 f3 f2 f1:Z) : list Z :=
  let d := c_computeDimension f5 f4 f3 f2 f1 in
  let tail := match old with [] => [] | _ => firstn 9 (old ++ repeat 0 9) end in
  if d =? 1 then [d; dataType; hi f1; lo f1] ++ tail
  else if d =? 2 then [d; dataType; word f2; word f1] ++ tail
  else if d =? 3 then [d; dataType; word f3; word f2; word f1] ++ tail
  else if d =? 4 then [d; dataType; word f4; word f3; word f2; word f1] ++ tail
  else [d; dataType; word f5; word f4; word f3; word f2; word f1] ++ tail.

(* what H5Z_sz_set_local does with the chunk dimensions of HDF5 (dims[0] slowest): it passes them
   as r1 = dims[0], r2 = dims[1], ... and records the filtered tuple *)
Definition set_local (dataType:Z) (old:list Z) (d0 d1 d2 d3 d4:Z) : list Z :=
  let '(f5, f4, f3, f2, f1) := filtered d4 d3 d2 d1 d0 in record_cd dataType old f5 f4 f3 f2 f1.

Definition nthw (cd:list Z) (i:nat) : Z := nth i cd 0.

(* SZ_cdArrayToMetaData: (dimSize, dataType, r5, r4, r3, r2, r1) *)
Definition decode_cd (cd:list Z) : Z * Z * (Z * Z * Z * Z * Z) :=
  let d := nthw cd 0 in
  let ty := nthw cd 1 in
  if d =? 1 then (d, ty, (0, 0, 0, 0, join (nthw cd 2) (nthw cd 3)))
  else if d =? 2 then (d, ty, (0, 0, 0, nthw cd 3, nthw cd 2))
  else if d =? 3 then (d, ty, (0, 0, nthw cd 4, nthw cd 3, nthw cd 2))
  else if d =? 4 then (d, ty, (0, nthw cd 5, nthw cd 4, nthw cd 3, nthw cd 2))
  else (d, ty, (nthw cd 6, nthw cd 5, nthw cd 4, nthw cd 3, nthw cd 2)).

(* SZ_cdArrayToMetaDataErr: additionally (mode as int32, four 64-bit patterns) read at k = dim==1 ? 4 : dim+2 *)
Definition decode_err (cd:list Z) : Z * (Z * Z * Z * Z) :=
  let d := nthw cd 0 in
  let k := Z.to_nat (if d =? 1 then 4 else d + 2) in
  (wraps 32 (nthw cd k),
   (nthw cd (k + 1) * W32 + nthw cd (k + 2), nthw cd (k + 3) * W32 + nthw cd (k + 4),
    nthw cd (k + 5) * W32 + nthw cd (k + 6), nthw cd (k + 7) * W32 + nthw cd (k + 8))).

(* checkCDValuesWithErrors *)
Definition with_err (cd:list Z) : bool :=
  let d := nthw cd 0 in
  let n := Z.of_nat (length cd) in
  if d =? 1 then 4 <? n else if d =? 2 then 4 <? n else if d =? 3 then 5 <? n else if d =? 4 then 6 <? n
  else if d =? 5 then 7 <? n else false.

(* legacy helper SZ_copymetaDataToCdArray on an SZ-convention tuple (r1 fastest) *)
Definition copymeta_cd (dataType:Z) (r5 r4 r3 r2 r1:Z) : list Z :=
  let d := c_computeDimension r5 r4 r3 r2 r1 in
  if d =? 1 then [d; dataType; hi r1; lo r1]
  else if d =? 2 then [d; dataType; word r2; word r1]
  else if d =? 3 then [d; dataType; word r3; word r2; word r1]
  else if d =? 4 then [d; dataType; word r4; word r3; word r2; word r1]
  else [d; dataType; word r5; word r4; word r3; word r2; word r1].

(* the reader takes cd[2] as r1: relative to the order in which the writers store the sizes, the tuple
   comes back reversed within its rank *)
Definition rev_tuple (f5 f4 f3 f2 f1:Z) : Z * Z * Z * Z * Z :=
  let d := c_computeDimension f5 f4 f3 f2 f1 in
  if d =? 2 then (0, 0, 0, f1, f2) else if d =? 3 then (0, 0, f1, f2, f3)
  else if d =? 4 then (0, f1, f2, f3, f4) else if d =? 5 then (f1, f2, f3, f4, f5) else (f5, f4, f3, f2, f1).

Definition tuple_dims (t:Z * Z * Z * Z * Z) : list Z := let '(r5, r4, r3, r2, r1) := t in dims_of r5 r4 r3 r2 r1.
