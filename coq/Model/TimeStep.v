(* Time-step compression (C17): SZ_registerVar / SZ_compress_ts / SZ_decompress_ts of sz/src/sz.c with the
   temporal-prediction kernels of sz_{float,double}_ts.c / szd_{float,double}_ts.c, generically over the two
   kernels a step can use.  Each side keeps the previous step's reconstruction (multisteps->hist_data);
   a step is compressed either spatially (snapshot: any instance of the generic codec of Model/Quant.v,
   predicting from this step's own reconstructed values) or temporally (the same codec predicting element i
   from element i of the history); a step whose value range does not exceed the bound is stored as one
   constant, an array of at most 20 elements verbatim without header, and a step whose stream would be
   larger than the raw data verbatim with header.  Which of these happens is decided by the schedule, by
   the data and by stream sizes: all are inputs here ("choice oracle"), the theorems hold for every choice.
   No proofs in this file. *)
From Coq Require Import ZArith List Bool.
Import ListNotations.
Require Import SZV.Model.Quant.
Local Open Scope Z_scope.

Section TimeStep.
  Variable V : Type.
  Variable zeroV : V.
  (* snapshot kernel *)
  Variable sctx : Type.
  Variable spred : sctx -> list V -> V.
  Variable squant : sctx -> list V -> V -> V -> option (Z * V).
  Variable sdequant : sctx -> V -> Z -> V.
  Variable sexact : sctx -> V -> V.
  (* temporal kernel: its context carries the history it predicts from *)
  Variable tctx : Type.
  Variable tquant : tctx * list V -> list V -> V -> V -> option (Z * V).
  Variable tdequant : tctx * list V -> V -> Z -> V.
  Variable texact : tctx * list V -> V -> V.

  (* prediction of the temporal kernel: element (number of elements already reconstructed) of the history *)
  Definition tpred (c:tctx * list V) (h:list V) : V := nth (length h) (snd c) zeroV.

  Definition senc := enc V sctx spred squant sexact.
  Definition sdec := dec V sctx spred sdequant.
  Definition tenc := enc V (tctx * list V) tpred tquant texact.
  Definition tdec := dec V (tctx * list V) tpred tdequant.

  (* what one step puts on the wire for one variable *)
  Inductive wire :=
  | WTiny (xs:list V)                       (* <= 20 elements: the raw values, no header *)
  | WConst (v:V) (n:nat)                    (* value range within the bound: one value *)
  | WRaw (xs:list V)                        (* verbatim copy with header (stream would exceed the raw size) *)
  | WSnap (c:sctx) (qs:list Z) (es:list V)  (* compression type 0 *)
  | WTemp (c:tctx) (qs:list Z) (es:list V). (* compression type 1 *)

  (* per-step inputs: the data, how the schedule resolved (snapshot / temporal), the kernel contexts (bound, interval
     count, exact-codec layout: functions of this step's data and settings) and the three data/size-dependent decisions *)
  Record step := { xs : list V; temporal : bool; sc : sctx; tc : tctx; tiny : bool; const : bool; raw : bool }.

  (* compressor: returns the wire form, its own reconstruction of the step, and the new history *)
  Definition enc_step (hist:list V) (s:step) : wire * list V * list V :=
    if tiny s then (WTiny (xs s), xs s, hist)
    else if const s then (WConst (hd zeroV (xs s)) (length (xs s)), repeat (hd zeroV (xs s)) (length (xs s)), hist)
    else if temporal s then
      let '(qs, es, rs) := tenc (tc s, hist) [] (xs s) in
      if raw s then (WRaw (xs s), xs s, xs s) else (WTemp (tc s) qs es, rs, rs)
    else
      let '(qs, es, rs) := senc (sc s) [] (xs s) in
      if raw s then (WRaw (xs s), xs s, xs s) else (WSnap (sc s) qs es, rs, rs).

  (* decompressor: reconstruction and new history, None on a malformed stream *)
  Definition dec_step (hist:list V) (w:wire) : option (list V * list V) :=
    match w with
    | WTiny l => Some (l, hist)
    | WConst v n => Some (repeat v n, hist)
    | WRaw l => Some (l, l)
    | WSnap c qs es => match sdec c [] qs es with Some rs => Some (rs, rs) | None => None end
    | WTemp c qs es => match tdec (c, hist) [] qs es with Some rs => Some (rs, rs) | None => None end
    end.

  (* whole runs: the compressor's wire forms, reconstructions and final history *)
  Fixpoint enc_run (hist:list V) (ss:list step) : list wire * list (list V) * list V :=
    match ss with
    | [] => ([], [], hist)
    | s :: ss' => let '(w, r, h') := enc_step hist s in
                  let '(ws, rs, hf) := enc_run h' ss' in (w :: ws, r :: rs, hf)
    end.
  Fixpoint dec_run (hist:list V) (ws:list wire) : option (list (list V) * list V) :=
    match ws with
    | [] => Some ([], hist)
    | w :: ws' => match dec_step hist w with
                  | Some (r, h') => match dec_run h' ws' with Some (rs, hf) => Some (r :: rs, hf) | None => None end
                  | None => None
                  end
    end.


  (* the model's own per-step checks (the obligations of Proofs/TimeStep_proofs.v evaluated on one run):
     lock-step flag (codes non-zero, decoder expression = encoder reconstruction) and bound flag *)
  Variable veq : V -> V -> bool.
  Variable soks : sctx -> V -> V -> bool.
  Variable tokb : tctx * list V -> V -> V -> bool.
  Definition okb_step (hist:list V) (s:step) (x r:V) : bool := if temporal s then tokb (tc s, hist) x r else soks (sc s) x r.
  Definition step_flags (hist:list V) (s:step) : bool * bool :=
    if tiny s then (true, forallb (fun x => okb_step hist s x x) (xs s))
    else if const s then (true, forallb (fun x => okb_step hist s x (hd zeroV (xs s))) (xs s))
    else if temporal s then
      let '(nz, mir, o, ex) := run_checks V (tctx * list V) tpred tquant tdequant texact veq tokb (tc s, hist) [] (xs s) in
      if raw s then (true, forallb (fun x => okb_step hist s x x) (xs s)) else (nz && mir, o && ex)
    else
      let '(nz, mir, o, ex) := run_checks V sctx spred squant sdequant sexact veq soks (sc s) [] (xs s) in
      if raw s then (true, forallb (fun x => okb_step hist s x x) (xs s)) else (nz && mir, o && ex).
  Fixpoint run_flags (hist:list V) (ss:list step) : bool * bool :=
    match ss with
    | [] => (true, true)
    | s :: ss' => let '(l, b) := step_flags hist s in
                  let '(_, _, h') := enc_step hist s in
                  let '(l', b') := run_flags h' ss' in (l && l', b && b')
    end.

  (* the behaviour before the repair (87968a2): a verbatim step left the compressor's history holding the lossy values
     of the discarded stream and did not touch the decompressor's history *)
  Definition enc_step_old (hist:list V) (s:step) : wire * list V * list V :=
    if tiny s then (WTiny (xs s), xs s, hist)
    else if const s then (WConst (hd zeroV (xs s)) (length (xs s)), repeat (hd zeroV (xs s)) (length (xs s)), hist)
    else if temporal s then
      let '(qs, es, rs) := tenc (tc s, hist) [] (xs s) in
      if raw s then (WRaw (xs s), xs s, rs) else (WTemp (tc s) qs es, rs, rs)
    else
      let '(qs, es, rs) := senc (sc s) [] (xs s) in
      if raw s then (WRaw (xs s), xs s, rs) else (WSnap (sc s) qs es, rs, rs).
  Definition dec_step_old (hist:list V) (w:wire) : option (list V * list V) :=
    match w with WRaw l => Some (l, hist) | _ => dec_step hist w end.
  Fixpoint enc_run_old (hist:list V) (ss:list step) : list wire * list (list V) * list V :=
    match ss with
    | [] => ([], [], hist)
    | s :: ss' => let '(w, r, h') := enc_step_old hist s in
                  let '(ws, rs, hf) := enc_run_old h' ss' in (w :: ws, r :: rs, hf)
    end.
  Fixpoint dec_run_old (hist:list V) (ws:list wire) : option (list (list V) * list V) :=
    match ws with
    | [] => Some ([], hist)
    | w :: ws' => match dec_step_old hist w with
                  | Some (r, h') => match dec_run_old h' ws' with Some (rs, hf) => Some (r :: rs, hf) | None => None end
                  | None => None
                  end
    end.
End TimeStep.

(* the schedule: SZ_compress_args_{float,double}_NoCkRngeNoGzip_{1,2,3}D.  cmprType: 0 = forced snapshot
   (SZ_FORCE_SNAPSHOT_COMPRESSION), 1 = forced temporal, 2 = periodic with the configured period *)
Definition resolve (cmprType:Z) (currentStep period:Z) : bool :=
  if cmprType =? 0 then false else if cmprType =? 1 then true else negb (currentStep mod period =? 0).
