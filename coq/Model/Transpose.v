(* Model of transposeData / detransposeData (sz/src/utility.c), used by the "SZ_Transpose"
   customize entry points (C14).  Arrays are lists; both functions are written in gather form:
   out[t] = in[src t].  No proofs in this file. *)
From Coq Require Import ZArith List Bool.
Import ListNotations.
Local Open Scope Z_scope.

(* transposeData scatters ori[s] to new[t(s)]; as a gather: new[t] = ori[tr_src t] *)
Definition tr_src (dim r4 r3 r2 r1:Z) (t:Z) : Z :=
  if dim =? 2 then let j := t / r2 in let i := t mod r2 in i * r1 + j
  else if dim =? 3 then let i := t mod r3 in let jk := t / r3 in i * (r2 * r1) + jk
  else if dim =? 4 then
    let D := r2 * r1 * r4 in
    let j := t / D in let rem := t mod D in let kw := rem / r4 in let i := rem mod r4 in
    i * (r3 * r2 * r1) + j * (r2 * r1) + kw
  else t.

(* detransposeData scatters tr[s'] to out[t'(s')]; as a gather: out[t'] = tr[detr_src t'] *)
Definition detr_src (dim r4 r3 r2 r1:Z) (t:Z) : Z :=
  if dim =? 2 then let b := t / r1 in let a := t mod r1 in a * r2 + b
  else if dim =? 3 then let k := t / (r1 * r2) in let rem := t mod (r1 * r2) in rem * r3 + k
  else if dim =? 4 then let B := r3 * (r2 * r1) in let w := t / B in let rem := t mod B in rem * r4 + w
  else t.

Definition gather (f:Z -> Z) (n:nat) (l:list Z) : list Z :=
  map (fun t => nth (Z.to_nat (f (Z.of_nat t))) l 0) (seq 0 n).

Definition nelems (dim r4 r3 r2 r1:Z) : Z :=
  if dim =? 1 then r1 else if dim =? 2 then r2 * r1 else if dim =? 3 then r3 * r2 * r1 else r4 * r3 * r2 * r1.

Definition transpose (dim r4 r3 r2 r1:Z) (l:list Z) : list Z := gather (tr_src dim r4 r3 r2 r1) (length l) l.
Definition detranspose (dim r4 r3 r2 r1:Z) (l:list Z) : list Z := gather (detr_src dim r4 r3 r2 r1) (length l) l.
