(* The integer kernels (C03): SZ_compress_<inttype>_{1,2,3,4}D_MDQ of sz/src/sz_<inttype>.c and
   decompressDataSeries_<inttype>_{1,2,3,4}D of sz/src/szd_<inttype>.c as instances of the generic
   codec of Model/Quant.v, over Z.  The C computes the quantisation state in binary64
   ((predAbsErr/e + 1)/2 truncated); for an integral bound e and magnitudes below 2^52 that is the
   integer quotient (d + e) / (2e) used here (tied by the correspondence check; see DESIGN.md §6).
   Every narrowing conversion the C performs on a value that does not fit its C type is recorded as
   an *event*; the theorems speak about runs without events, the correspondence check compares only
   those, and runs with events are the finding class int_narrowing.  No proofs in this file. *)
From Coq Require Import ZArith List Bool.
Import ListNotations.
Require Import SZV.Model.Quant.
Local Open Scope Z_scope.

(* element type: bits, signedness; C types of the intermediates per source file (SrcFacts) *)
Record ity := { bits : Z; sgn : bool; pbits : Z (* width of the arithmetic in which pred1D/pred2D/pred3D are computed *);
                psgn : bool (* ... signed? (uint32: the operands are unsigned int, the sum wraps mod 2^32 before it is widened) *);
                dbits : Z (* width of diff, signed *);
                clampT : bool (* 8- and 16-bit files: the reconstruction pred + 2ke is clamped to the element type's range on both sides *) }.

Definition tmin (t:ity) : Z := if sgn t then - 2 ^ (bits t - 1) else 0.
Definition tmax (t:ity) : Z := if sgn t then 2 ^ (bits t - 1) - 1 else 2 ^ (bits t) - 1.
Definition in_type (t:ity) (v:Z) : bool := (tmin t <=? v) && (v <=? tmax t).
Definition in_signed (w:Z) (v:Z) : bool := (- 2 ^ (w - 1) <=? v) && (v <? 2 ^ (w - 1)).
Definition clamp_ty (t:ity) (v:Z) : Z := if clampT t then Z.max (tmin t) (Z.min (tmax t) v) else v.
Definition in_pred (t:ity) (v:Z) : bool := if psgn t then in_signed (pbits t) v else (0 <=? v) && (v <? 2 ^ (pbits t)).

(* kernel context: bound e (integral), interval capacity, shape (sizes slowest first, rank 1..3; a
   4-D array is a sequence of independent 3-D blocks), element type *)
Record ictx := { e : Z; cap : Z; shape : list Z; ty : ity }.
Definition radius (c:ictx) : Z := cap c / 2.

Definition hz (h:list Z) (i:Z) : Z := nth (Z.to_nat i) h 0.

(* position of the next element = number of elements already reconstructed; coordinates from it *)
Definition pred_int (c:ictx) (h:list Z) : Z :=
  let p := Z.of_nat (length h) in
  match shape c with
  | [_] => hz h 0                                           (* 1-D: previous reconstructed value *)
  | [_; r2] =>
      let i := p / r2 in let j := p mod r2 in
      if i =? 0 then (if j =? 1 then hz h 0 else 2 * hz h 0 - hz h 1)
      else if j =? 0 then hz h (r2 - 1)
      else hz h 0 + hz h (r2 - 1) - hz h r2
  | [_; r2; r3] =>
      let r23 := r2 * r3 in
      let k := p / r23 in let q := p mod r23 in let i := q / r3 in let j := q mod r3 in
      if k =? 0 then
        (if i =? 0 then (if j =? 1 then hz h 0 else 2 * hz h 0 - hz h 1)
         else if j =? 0 then hz h (r3 - 1)
         else hz h 0 + hz h (r3 - 1) - hz h r3)
      else if (i =? 0) && (j =? 0) then hz h (r23 - 1)
      else if i =? 0 then hz h 0 + hz h (r23 - 1) - hz h r23
      else if j =? 0 then hz h (r3 - 1) + hz h (r23 - 1) - hz h (r23 + r3 - 1)
      else hz h 0 + hz h (r3 - 1) + hz h (r23 - 1) - hz h r3 - hz h (r23 + r3 - 1) - hz h r23 + hz h (r23 + r3)
  | _ => 0
  end.

(* elements that are always stored exactly: the first two in 1-D, the first one otherwise *)
Definition forced_exact (c:ictx) (h:list Z) : bool :=
  match shape c with
  | [_] => (length h <? 2)%nat
  | _ => (length h <? 1)%nat
  end.

(* quantisation of one element against its prediction *)
Definition quant_int (c:ictx) (h:list Z) (p x:Z) : option (Z * Z) :=
  if forced_exact c h then None else
  let d := Z.abs (x - p) in
  if d <? (cap c - 1) * e c then
    let s := (d + e c) / (2 * e c) in
    if p <=? x then Some (radius c + s, clamp_ty (ty c) (p + s * (2 * e c))) else Some (radius c - s, clamp_ty (ty c) (p - s * (2 * e c)))
  else None.

Definition dequant_int (c:ictx) (p q:Z) : Z := clamp_ty (ty c) (p + (q - radius c) * (2 * e c)).

(* the integer kernels as an instance of the generic codec: values are stored exactly as themselves *)
Definition enc_int := enc Z ictx pred_int quant_int (fun _ x => x).
Definition dec_int := dec Z ictx pred_int dequant_int.

(* narrowing events of one run: a prediction outside its C type, a difference outside its C type,
   a reconstruction outside the element type, or a magnitude binary64 cannot hold exactly *)
Fixpoint events (c:ictx) (h:list Z) (xs:list Z) : bool :=
  match xs with
  | [] => false
  | x :: xs' =>
    let p := pred_int c h in
    let here := negb (in_pred (ty c) p) || negb (in_signed (dbits (ty c)) (x - p)) || negb (Z.abs p <? 2 ^ 52)
                || negb (Z.abs (x - p) + e c <? 2 ^ 52) in
    match quant_int c h p x with
    | Some (q, r) => here || negb (in_type (ty c) r) || events c (r :: h) xs'
    | None => (if forced_exact c h then false else here) || events c (x :: h) xs'
    end
  end.

(* a 4-D array (r1, r2, r3, r4) is compressed as r1 independent 3-D blocks *)
Fixpoint blocks (n:nat) (len:nat) (xs:list Z) : list (list Z) :=
  match n with O => [] | S n' => firstn len xs :: blocks n' len (skipn len xs) end.

Definition recon_array (e cap:Z) (t:ity) (dims:list Z) (xs:list Z) : list Z * bool * Z :=
  match dims with
  | [r1; r2; r3; r4] =>
      let c := {| e := e; cap := cap; shape := [r2; r3; r4]; ty := t |} in
      let bl := blocks (Z.to_nat r1) (Z.to_nat (r2 * r3 * r4)) xs in
      (flat_map (fun b => let '(_, _, rs) := enc_int c [] b in rs) bl, existsb (fun b => events c [] b) bl,
       fold_left (fun a b => let '(qs, _, _) := enc_int c [] b in a + Z.of_nat (length (filter (fun q => q =? 0) qs))) bl 0)
  | _ =>
      let c := {| e := e; cap := cap; shape := dims; ty := t |} in
      let '(qs, _, rs) := enc_int c [] xs in (rs, events c [] xs, Z.of_nat (length (filter (fun q => q =? 0) qs)))
  end.

Definition ity_of (code:Z) : ity :=   (* SZ_UINT8 = 2 ... SZ_INT64 = 9, with the intermediate types of each source file *)
  if code =? 2 then {| bits := 8; sgn := false; pbits := 64; psgn := true; dbits := 32; clampT := true |}
  else if code =? 3 then {| bits := 8; sgn := true; pbits := 64; psgn := true; dbits := 32; clampT := true |}
  else if code =? 4 then {| bits := 16; sgn := false; pbits := 64; psgn := true; dbits := 32; clampT := true |}
  else if code =? 5 then {| bits := 16; sgn := true; pbits := 64; psgn := true; dbits := 32; clampT := true |}
  else if code =? 6 then {| bits := 32; sgn := false; pbits := 32; psgn := false; dbits := 64; clampT := false |}
  else if code =? 7 then {| bits := 32; sgn := true; pbits := 32; psgn := true; dbits := 32; clampT := false |}
  else if code =? 8 then {| bits := 64; sgn := false; pbits := 64; psgn := true; dbits := 64; clampT := false |}
  else {| bits := 64; sgn := true; pbits := 64; psgn := true; dbits := 64; clampT := false |}.
