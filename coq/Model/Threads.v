(* Concurrent calls of the "thread-safe" compression entry point over the process globals (C15).
   A call is a sequence of atomic blocks (the code between two SZ_VERIF_YIELD points of the implementation),
   each block a sequence of writes and reads of globals (confparams_cpr->dataType, errorBoundMode, absErrBound,
   fmin, fmax, accelerate flag, exe_params->intvCapacity ...).  What a call computes is a function of the
   values it reads, so a call behaves as when run alone exactly when it reads what it would read alone.
   A schedule is a list of thread ids: each token lets that thread run its next block (tokens of finished
   threads are skipped); when the tokens are used up the unfinished threads run to completion in id order.
   No proofs in this file. *)
From Coq Require Import ZArith List Bool Arith.
Import ListNotations.
Local Open Scope Z_scope.

(* Cp src dst: copy one global to another without observing it (a call saving a setting in a local -- a slot only it uses --
   and putting it back on return) *)
Inductive action := Wr (g:nat) (v:Z) | Rd (g:nat) | Cp (src dst:nat).
Definition block := list action.
Definition prog := list block.

Definition upd (m:nat -> Z) (g:nat) (v:Z) : nat -> Z := fun x => if Nat.eqb x g then v else m x.

(* one block: new memory and the values read, in order *)
Fixpoint run_block (m:nat -> Z) (b:block) : (nat -> Z) * list Z :=
  match b with
  | [] => (m, [])
  | Wr g v :: b' => run_block (upd m g v) b'
  | Rd g :: b' => let '(m', o) := run_block m b' in (m', m g :: o)
  | Cp sg dg :: b' => run_block (upd m dg (m sg)) b'
  end.

Record st := { mem : nat -> Z; rem : nat -> prog; obs : nat -> list Z }.

Definition step_thread (t:nat) (s:st) : st :=
  match rem s t with
  | [] => s
  | b :: bs => let '(m', o) := run_block (mem s) b in
               {| mem := m'; rem := fun x => if Nat.eqb x t then bs else rem s x;
                  obs := fun x => if Nat.eqb x t then obs s t ++ o else obs s x |}
  end.

Fixpoint run_sched (sched:list nat) (s:st) : st :=
  match sched with [] => s | t :: sched' => run_sched sched' (step_thread t s) end.

(* when the tokens are used up: thread 0 to completion, then thread 1, ... *)
Fixpoint drain_thread (fuel:nat) (t:nat) (s:st) : st :=
  match fuel with O => s | S f => match rem s t with [] => s | _ => drain_thread f t (step_thread t s) end end.
Fixpoint drain (n:nat) (t:nat) (fuel:nat) (s:st) : st :=
  match n with O => s | S n' => drain n' (S t) fuel (drain_thread fuel t s) end.

Definition init_st (m0:nat -> Z) (P:nat -> prog) : st := {| mem := m0; rem := P; obs := fun _ => [] |}.

Definition total_blocks (n:nat) (P:nat -> prog) : nat := fold_right (fun t a => (length (P t) + a)%nat) O (seq 0 n).

(* the concurrent run of n threads under a schedule, and thread t alone *)
Definition concurrent (m0:nat -> Z) (n:nat) (P:nat -> prog) (sched:list nat) : st :=
  drain n 0 (total_blocks n P) (run_sched sched (init_st m0 P)).
Definition alone_obs (m0:nat -> Z) (p:prog) : list Z := snd (run_block m0 (concat p)).

(* a call reads a global only after having written it itself (true of the compression path: the entry
   writes the per-call fields before the kernels and serialisers read them) *)
Fixpoint own_before (w:list nat) (b:block) : bool :=
  match b with
  | [] => true
  | Wr g _ :: b' => own_before (g :: w) b'
  | Rd g :: b' => existsb (Nat.eqb g) w && own_before w b'
  | Cp _ _ :: b' => own_before w b'
  end.

(* ---- entry point of the correspondence check ---- *)
(* programs as lists of blocks of (kind, global, value) triples: kind 0 = write, 1 = read, 2 = copy global g to global v *)
Definition action_of (a:Z*Z*Z) : action :=
  let '(k, g, v) := a in if k =? 0 then Wr (Z.to_nat g) v else if k =? 1 then Rd (Z.to_nat g) else Cp (Z.to_nat g) (Z.to_nat v).
Definition prog_of (p:list (list (Z*Z*Z))) : prog := map (map action_of) p.
Definition run_threads (ps:list (list (list (Z*Z*Z)))) (sched:list Z) : list (list Z) :=
  let n := length ps in
  let P := fun t => prog_of (nth t ps []) in
  let s := concurrent (fun _ => 0) n P (map Z.to_nat sched) in
  map (obs s) (seq 0 n).
