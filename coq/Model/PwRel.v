(* Point-wise relative mode (C02): the structure both code paths share, over the reals.
   A value x is split into a sign and a magnitude; exact zeros are given a placeholder below a threshold the
   decompressor knows; magnitudes are compressed either in the log2 domain with an absolute bound (log-transform
   path: sz_{float,double}_pwr.c *_pwr_pre_log) or multiplicatively with a table of powers of (1+r) (accelerated
   path: *_MDQ_MSST19); the sign plane travels separately and is restored last.  The inner codec is a parameter:
   any function whose output is within the log-domain bound.  No proofs in this file. *)
From Coq Require Import Reals List Bool ZArith String.
From Flocq Require Import Core.Core.
Import ListNotations.
Require Import SZV.Gen.SrcFacts.
Local Open Scope R_scope.

Definition log2R (x:R) : R := ln x / ln 2.
Definition exp2R (y:R) : R := exp (y * ln 2).

(* the log-transform path for one element: what is handed to the inner codec ... *)
(* placeholder and threshold lie a*e + ta*t resp. b*e + tb*t below the smallest log-magnitude, t >= 0 being the rounding
   unit of the log values (max|log2|x|| times the element type's epsilon) *)
Definition zero_placeholder (a ta:R) (minlog e t:R) : R := minlog - a * e - ta * t.
Definition zero_threshold (b tb:R) (minlog e t:R) : R := minlog - b * e - tb * t.
Definition to_log (a ta:R) (minlog e t:R) (x:R) : R := if Req_EM_T x 0 then zero_placeholder a ta minlog e t else log2R (Rabs x).
(* ... and what the decompressor makes of the inner codec's output y' and the sign bit *)
Definition from_log (b tb:R) (minlog e t:R) (neg:bool) (y':R) : R :=
  let m := if Rlt_dec y' (zero_threshold b tb minlog e t) then 0 else exp2R y' in
  if neg then - m else m.
Definition is_neg (x:R) : bool := if Rlt_dec x 0 then true else false.

(* the exact-value codec (compressSingle{Float,Double}Value) over the reals: the value minus the median, cut toward zero to p significant bits;
   the kernels keep 12 + radExpo - reqExpo stored bits (9 + .. for float) = sign, exponent field and radExpo - reqExpo mantissa bits, i.e.
   p = radExpo - reqExpo + 1 significant ones, where radExpo = mag R - 1 for the range radius R the kernel is handed and reqExpo = mag e - 1
   (computeReqLength_*; the formula is part of the transcribed kernels of Model/QuantFloat.v and compared with the code there) *)
Definition cut (p:Z) (v:R) : R := round radix2 (FLX_exp p) Ztrunc v.
Definition keep (rad e:R) : Z := (mag radix2 rad - mag radix2 e + 1)%Z.
Definition exact_codec (rad e median x:R) : R := cut (keep rad e) (x - median) + median.

(* the constants of the implementation, read from the source on every run (scaled by 10^4) *)
Local Open Scope Z_scope.
Definition zero_consts_ok : bool :=
  forallb (fun t => let '(_, (a, ta), (b, tb)) := t in (b + 10000 <? a) && (10000 <? b) && (tb <=? ta) && (0 <=? tb)) src_pwr_zero_consts
  && Nat.eqb (List.length src_pwr_zero_consts) 6.
Definition sign_backend_ok : bool :=
  forallb (String.eqb "ZSTD_COMPRESSOR") src_pwr_sign_backends_enc && forallb (String.eqb "ZSTD_COMPRESSOR") src_pwr_sign_backends_dec
  && Nat.eqb (List.length src_pwr_sign_backends_enc) 12 && Nat.eqb (List.length src_pwr_sign_backends_dec) 12.
Definition pwr_source_facts_ok : bool :=
  zero_consts_ok && sign_backend_ok && Nat.eqb src_pwr_nonpositive_guards 6 && Nat.eqb src_msst19_private_copies 6 && Nat.eqb src_msst19_range_from_zero 2
  && Nat.eqb src_pwr_range_covers_placeholders 6.
