(* Model of the configuration ladder of sz/src/conf.c:SZ_ReadConf and of sz/src/sz.c:SZ_Init_Params
   (C16).  A configuration file is modelled after tokenisation: an association list from the
   lower-cased "section:key" to a value token; numeric tokens carry the number that strtol/atof
   return for the text (trusted: libc), string tokens the text itself.  The lexer of iniparser.c
   (comments, blanks, quotes, case) is tied by the correspondence check, which renders the same
   association list in many concrete syntaxes.  No proofs in this file. *)
From Coq Require Import ZArith List Bool String.
Import ListNotations.
Local Open Scope string_scope.
Local Open Scope Z_scope.

Inductive value := VS (s:string) | VI (z:Z) | VD (bits:Z) | VF (fbits:Z).
Definition conf := list (string * value).

Fixpoint lookup (k:string) (c:conf) : option value :=
  match c with [] => None | (k', v) :: r => if String.eqb k k' then Some v else lookup k r end.

Definition get_str (c:conf) (k:string) (def:option string) : option string :=
  match lookup k c with Some (VS s) => Some s | Some _ => None | None => def end.
Definition get_int (c:conf) (k:string) (def:Z) : Z := match lookup k c with Some (VI z) => z | _ => def end.
Definition get_dbl (c:conf) (k:string) (def:Z) : Z := match lookup k c with Some (VD b) => b | _ => def end.
Definition get_flt (c:conf) (k:string) (def:Z) : Z := match lookup k c with Some (VF b) => b | _ => def end.

(* the state that initialisation establishes, in a fixed field order *)
Record state := {
  dataEndianType : Z; sol_ID : Z; max_quant_intervals : Z; quantization_intervals : Z; maxRangeRadius : Z;
  predThreshold : Z (* float bits *); sampleDistance : Z; szMode : Z; losslessCompressor : Z; withRegression : Z;
  gzipMode : Z; protectValueRange : Z; randomAccess : Z; snapshotCmprStep : Z; errorBoundMode : Z;
  absErrBound : Z; relBoundRatio : Z; psnr : Z; normErr : Z; pw_relBoundRatio : Z (* double bits *);
  segment_size : Z; accelerate_pw_rel : Z; pwr_type : Z;
  optQuantMode : Z; intvCapacity : Z; intvRadius : Z
}.

Definition match_str (s:string) (tbl:list (string * Z)) : option Z :=
  match find (fun p => String.eqb s (fst p)) tbl with Some p => Some (snd p) | None => None end.

Definition szmode_tbl := [("SZ_BEST_SPEED", 0); ("SZ_DEFAULT_COMPRESSION", 2); ("SZ_BEST_COMPRESSION", 1)].
Definition gzip_tbl := [("Gzip_NO_COMPRESSION", 0); ("Gzip_BEST_SPEED", 1); ("Gzip_BEST_COMPRESSION", 9); ("Gzip_DEFAULT_COMPRESSION", -1)].
Definition zstd_tbl := [("Zstd_BEST_SPEED", 1); ("Zstd_HIGH_SPEED", 3); ("Zstd_HIGH_COMPRESSION", 19); ("Zstd_BEST_COMPRESSION", 22); ("Zstd_DEFAULT_COMPRESSION", 3)].
Definition lossless_tbl := [("GZIP_COMPRESSOR", 0); ("ZSTD_COMPRESSOR", 1)].
Definition sol_tbl := [("SZ", 101); ("PASTRI", 103); ("SZ_Transpose", 104)].
Definition endian_tbl := [("LITTLE_ENDIAN_DATA", 0); ("BIG_ENDIAN_DATA", 1)].
Definition ebmode_tbl := [("ABS", 0); ("abs", 0); ("REL", 1); ("rel", 1); ("VR_REL", 1); ("vr_rel", 1); ("ABS_AND_REL", 2); ("abs_and_rel", 2);
  ("ABS_OR_REL", 3); ("abs_or_rel", 3); ("PW_REL", 10); ("pw_rel", 10); ("PSNR", 4); ("psnr", 4); ("ABS_AND_PW_REL", 11); ("abs_and_pw_rel", 11);
  ("ABS_OR_PW_REL", 12); ("abs_or_pw_rel", 12); ("REL_AND_PW_REL", 13); ("rel_and_pw_rel", 13); ("REL_OR_PW_REL", 14); ("rel_or_pw_rel", 14);
  ("NORM", 5); ("norm", 5)].
Definition pwr_tbl := [("MIN", 0); ("AVG", 1); ("MAX", 2)].

Definition bind {A B} (o:option A) (f:A -> option B) : option B := match o with Some a => f a | None => None end.
Notation "x <- o ;; k" := (bind o (fun x => k)) (at level 60, o at next level, right associativity).

(* SZ_ReadConf on an existing, parsable file with sol_name SZ or SZ_Transpose; None = SZ_NSCS *)
Definition read_conf (c:conf) : option state :=
  e <- get_str c "env:dataendiantype" (Some "LITTLE_ENDIAN_DATA") ;;
  endian <- match_str e endian_tbl ;;
  sname <- get_str c "env:sol_name" (Some "(null)") ;;
  sol <- match_str sname sol_tbl ;;
  if sol =? 103 then None (* PASTRI: not modelled *) else
  let mqi := get_int c "parameter:max_quant_intervals" 65536 in
  let qi := get_int c "parameter:quantization_intervals" 0 in
  let '(mqi', radius, cap, rad, oqm) :=
      if 0 <? qi then (qi, Z.quot qi 2, qi, Z.quot qi 2, 0) else (mqi, Z.quot mqi 2, Z.quot mqi 2 * 2, Z.quot mqi 2, 1) in
  if negb (Z.rem qi 2 =? 0) then None else
  let pthr := get_flt c "parameter:predthreshold" 0 in
  let sdist := get_int c "parameter:sampledistance" 0 in
  m <- get_str c "parameter:szmode" None ;;
  mode <- match_str m szmode_tbl ;;
  l <- get_str c "parameter:losslesscompressor" (Some "ZSTD_COMPRESSOR") ;;
  lossless <- match_str l lossless_tbl ;;
  reg <- get_str c "parameter:withlinearregression" (Some "YES") ;;
  let withreg := if (String.eqb reg "YES") || (String.eqb reg "yes") then 1 else 0 in
  g <- get_str c "parameter:gzipmode" (Some "Gzip_BEST_SPEED") ;;
  glevel <- match_str g gzip_tbl ;;
  z <- get_str c "parameter:zstdmode" (Some "Zstd_HIGH_SPEED") ;;
  zlevel <- match_str z zstd_tbl ;;
  pv <- get_str c "parameter:protectvaluerange" (Some "YES") ;;
  let protect := if String.eqb pv "YES" then 1 else 0 in
  eb <- get_str c "parameter:errorboundmode" None ;;
  ebm <- match_str eb ebmode_tbl ;;
  pt <- get_str c "parameter:pwr_type" (Some "MIN") ;;
  pwr <- match_str pt pwr_tbl ;;
  Some {| dataEndianType := endian; sol_ID := sol; max_quant_intervals := mqi'; quantization_intervals := qi; maxRangeRadius := radius;
          predThreshold := pthr; sampleDistance := sdist; szMode := mode; losslessCompressor := lossless; withRegression := withreg;
          gzipMode := if lossless =? 1 then zlevel else glevel; protectValueRange := protect;
          randomAccess := get_int c "parameter:randomaccess" 0; snapshotCmprStep := get_int c "parameter:snapshotcmprstep" 5;
          errorBoundMode := ebm; absErrBound := get_dbl c "parameter:abserrbound" 0; relBoundRatio := get_dbl c "parameter:relboundratio" 0;
          psnr := get_dbl c "parameter:psnr" 0; normErr := get_dbl c "parameter:normerr" 0; pw_relBoundRatio := get_dbl c "parameter:pw_relboundratio" 0;
          segment_size := get_int c "parameter:segment_size" 0; accelerate_pw_rel := get_int c "parameter:accelerate_pw_rel_compression" 1;
          pwr_type := pwr; optQuantMode := oqm; intvCapacity := cap; intvRadius := rad |}.

(* SZ_Init_Params(p): SZ_Init(NULL), then the caller's structure is copied over the defaults.  The
   caller's structure is represented by a state whose exe fields are ignored. *)
Definition init_params (p:state) : option state :=
  let lossless := if (losslessCompressor p =? 0) || (losslessCompressor p =? 1) then losslessCompressor p else 1 in
  let radius := if 0 <? max_quant_intervals p then Z.quot (max_quant_intervals p) 2 else maxRangeRadius p in
  if negb (Z.rem (quantization_intervals p) 2 =? 0) then None else
  let qi := quantization_intervals p in
  let '(mqi', radius', cap, rad, oqm) :=
      if 0 <? qi then (qi, Z.quot qi 2, qi, Z.quot qi 2, 0) else (max_quant_intervals p, radius, radius * 2, radius, 1) in
  Some {| dataEndianType := 0; sol_ID := sol_ID p; max_quant_intervals := mqi'; quantization_intervals := qi; maxRangeRadius := radius';
          predThreshold := predThreshold p; sampleDistance := sampleDistance p; szMode := szMode p; losslessCompressor := lossless;
          withRegression := withRegression p; gzipMode := gzipMode p; protectValueRange := protectValueRange p;
          randomAccess := randomAccess p; snapshotCmprStep := snapshotCmprStep p; errorBoundMode := errorBoundMode p;
          absErrBound := absErrBound p; relBoundRatio := relBoundRatio p; psnr := psnr p; normErr := normErr p;
          pw_relBoundRatio := pw_relBoundRatio p; segment_size := segment_size p; accelerate_pw_rel := accelerate_pw_rel p;
          pwr_type := pwr_type p; optQuantMode := oqm; intvCapacity := cap; intvRadius := rad |}.

Definition state_fields (s:state) : list Z :=
  [dataEndianType s; sol_ID s; max_quant_intervals s; quantization_intervals s; maxRangeRadius s; predThreshold s; sampleDistance s;
   szMode s; losslessCompressor s; withRegression s; gzipMode s; protectValueRange s; randomAccess s; snapshotCmprStep s; errorBoundMode s;
   absErrBound s; relBoundRatio s; psnr s; normErr s; pw_relBoundRatio s; segment_size s; accelerate_pw_rel s; pwr_type s;
   optQuantMode s; intvCapacity s; intvRadius s].

(* the configuration file that spells out every documented key for a parameter structure *)
Definition name_of (tbl:list (string * Z)) (v:Z) : string :=
  match find (fun p => snd p =? v) tbl with Some p => fst p | None => "?" end.

Definition to_conf (p:state) : conf :=
  [("env:dataendiantype", VS "LITTLE_ENDIAN_DATA"); ("env:sol_name", VS (name_of sol_tbl (sol_ID p)));
   ("parameter:max_quant_intervals", VI (max_quant_intervals p)); ("parameter:quantization_intervals", VI (quantization_intervals p));
   ("parameter:predthreshold", VF (predThreshold p)); ("parameter:sampledistance", VI (sampleDistance p));
   ("parameter:szmode", VS (name_of szmode_tbl (szMode p))); ("parameter:losslesscompressor", VS (name_of lossless_tbl (losslessCompressor p)));
   ("parameter:withlinearregression", VS (if withRegression p =? 1 then "YES" else "NO"));
   (if losslessCompressor p =? 1 then ("parameter:zstdmode", VS (name_of zstd_tbl (gzipMode p)))
    else ("parameter:gzipmode", VS (name_of gzip_tbl (gzipMode p))));
   ("parameter:protectvaluerange", VS (if protectValueRange p =? 1 then "YES" else "NO"));
   ("parameter:randomaccess", VI (randomAccess p)); ("parameter:snapshotcmprstep", VI (snapshotCmprStep p));
   ("parameter:errorboundmode", VS (name_of ebmode_tbl (errorBoundMode p)));
   ("parameter:abserrbound", VD (absErrBound p)); ("parameter:relboundratio", VD (relBoundRatio p)); ("parameter:psnr", VD (psnr p));
   ("parameter:normerr", VD (normErr p)); ("parameter:pw_relboundratio", VD (pw_relBoundRatio p));
   ("parameter:segment_size", VI (segment_size p)); ("parameter:accelerate_pw_rel_compression", VI (accelerate_pw_rel p));
   ("parameter:pwr_type", VS (name_of pwr_tbl (pwr_type p)))].

(* parameter structures that a configuration file can express *)
Definition expressible (p:state) : bool :=
  ((sol_ID p =? 101) || (sol_ID p =? 104)) && (0 <? max_quant_intervals p) && (0 <=? quantization_intervals p) &&
  ((szMode p =? 0) || (szMode p =? 1) || (szMode p =? 2)) && ((losslessCompressor p =? 0) || (losslessCompressor p =? 1)) &&
  ((withRegression p =? 0) || (withRegression p =? 1)) && ((protectValueRange p =? 0) || (protectValueRange p =? 1)) &&
  (if losslessCompressor p =? 1 then existsb (fun q => snd q =? gzipMode p) zstd_tbl else existsb (fun q => snd q =? gzipMode p) gzip_tbl) &&
  existsb (fun q => snd q =? errorBoundMode p) ebmode_tbl && existsb (fun q => snd q =? pwr_type p) pwr_tbl.
