(* The SZ-1.4 3-D float kernel (C01): SZ_compress_float_3D_MDQ / decompressDataSeries_float_3D.  Quantisation, re-check, exact codec and
   context are those of the 2-D kernel (Model/QuantFloat2.v); only the predictor differs: layer 0 is predicted as a 2-D array, later
   layers use the value behind (previous layer), the 2-D Lorenzo stencils on the two faces, and the seven-point stencil elsewhere, each
   summed left to right in single precision in the order the C source writes it (the decoder writes the same order).  The history is the
   list of reconstructions in raster order, most recent first.  No proofs in this file. *)
From Coq Require Import ZArith List Bool.
From Flocq Require Import Core.Core IEEE754.BinarySingleNaN IEEE754.Binary IEEE754.Bits.
Import ListNotations.
Require Import SZV.Base.FloatOps SZV.Model.Quant SZV.Model.QuantFloat SZV.Model.QuantFloat2.
Local Open Scope Z_scope.

Record f3ctx := { f2 : f2ctx (* bound, median, ..., row length r3 *); fslab : nat (* r2*r3, the size of a layer *) }.

Definition fpred3 (c:f3ctx) (h:list Z) : Z :=
  let n := length h in let w := frow (f2 c) in let s := fslab c in
  let k := Nat.div n s in let i := Nat.div (Nat.modulo n s) w in let j := Nat.modulo n w in
  match k with
  | O => fpred2 (f2 c) h
  | S _ =>
    Fb (match i, j with
        | O, O => hnth h (s - 1)
        | O, S _ => fsub (fadd (hnth h 0) (hnth h (s - 1))) (hnth h s)
        | S _, O => fsub (fadd (hnth h (w - 1)) (hnth h (s - 1))) (hnth h (s + w - 1))
        | S _, S _ =>
          fadd (fsub (fsub (fsub (fadd (fadd (hnth h 0) (hnth h (w - 1))) (hnth h (s - 1))) (hnth h w)) (hnth h (s + w - 1))) (hnth h s)) (hnth h (s + w))
        end)
  end.

Definition fquant3 (c:f3ctx) := fquant2 (f2 c).
Definition fdequant3 (c:f3ctx) := fdequant2 (f2 c).
Definition fexact3 (c:f3ctx) := fexact2 (f2 c).
Definition f_ok3 (c:f3ctx) := f_ok2 (f2 c).

Definition fenc3 := enc Z f3ctx fpred3 fquant3 fexact3.
Definition fdec3 := dec Z f3ctx fpred3 fdequant3.
Definition fchecks3 := run_checks Z f3ctx fpred3 fquant3 fdequant3 fexact3 Z.eqb f_ok3.

Definition frun3 (e64b intervals:Z) (r2 r3:nat) (data:list Z) :=
  let c := {| f2 := {| fc := fctx_of e64b intervals data; frow := r3 |}; fslab := (r2 * r3)%nat |} in
  let '(qs, es, rs) := fenc3 c [] data in (rs, Z.of_nat (length es), fchecks3 c [] data, freq (fc (f2 c)), Fb (fmedian (fc (f2 c)))).
