(* The allocation ledger of valid API use (C10): which heap blocks the library owns between calls.
   Between two public calls the library owns exactly its parameter blocks -- confparams_cpr and exe_params
   from initialisation, confparams_dec from the first decompression or metadata query -- and nothing else;
   every call returns at most one block to the caller (the stream, the array, or the metadata with its own
   copy of the parameters: two blocks) and releases every temporary.  No proofs in this file. *)
From Coq Require Import ZArith List Bool.
Import ListNotations.
Local Open Scope Z_scope.

Record lstate := { inited : bool; has_dec : bool; caller : Z (* blocks the caller holds *) }.

Inductive lop :=
| LInit            (* SZ_Init / SZ_Init_Params; on an initialised library: replaces the parameter blocks *)
| LCompress        (* any compression entry: +1 caller block *)
| LDecompress      (* +1 caller block; allocates confparams_dec if absent *)
| LMetadata        (* +2 caller blocks (struct and its parameter copy); allocates confparams_dec if absent *)
| LCallerFree      (* the caller frees one of its blocks *)
| LFinalize.

Definition lstep (s:lstate) (o:lop) : lstate :=
  match o with
  | LInit => {| inited := true; has_dec := has_dec s; caller := caller s |}
  | LCompress => {| inited := inited s; has_dec := has_dec s; caller := caller s + 1 |}
  | LDecompress => {| inited := inited s; has_dec := true; caller := caller s + 1 |}
  | LMetadata => {| inited := inited s; has_dec := true; caller := caller s + 2 |}
  | LCallerFree => {| inited := inited s; has_dec := has_dec s; caller := caller s - 1 |}
  | LFinalize => {| inited := false; has_dec := false; caller := caller s |}
  end.

Definition lib_live (s:lstate) : Z := (if inited s then 2 else 0) + (if has_dec s then 1 else 0).
Definition total_live (s:lstate) : Z := lib_live s + caller s.
Definition l0 : lstate := {| inited := false; has_dec := false; caller := 0 |}.
Definition lrun (h:list lop) (s:lstate) : lstate := fold_left lstep h s.

(* entry point of the correspondence check: op codes 0..5 -> library-owned block count after every op *)
Definition lop_of (z:Z) : lop :=
  if z =? 0 then LInit else if z =? 1 then LCompress else if z =? 2 then LDecompress else if z =? 3 then LMetadata else if z =? 4 then LCallerFree else LFinalize.
Fixpoint ltrace (s:lstate) (h:list lop) : list Z :=
  match h with [] => [] | o :: h' => let s' := lstep s o in lib_live s' :: ltrace s' h' end.
Definition ledger_trace (h:list Z) : list Z := ltrace l0 (map lop_of h).
