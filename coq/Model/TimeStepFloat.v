(* Time-step compression of float and double variables (C17): the temporal-prediction kernels
   SZ_compress_{float,double}_1D_MDQ_ts (sz/src/sz_{float,double}_ts.c) and decompressDataSeries_{float,double}_1D_ts
   (sz/src/szd_{float,double}_ts.c) over Flocq bit patterns, as the temporal kernel of Model/TimeStep.v; the snapshot
   kernel is the 1-D SZ-1.4 kernel of Model/QuantFloat.v (2-D/3-D snapshot kernels are not transcribed: 1-D variables
   are compared bit for bit, the others by the oracle only).  No proofs in this file. *)
From Coq Require Import ZArith List Bool.
From Flocq Require Import Core.Core IEEE754.BinarySingleNaN IEEE754.Binary IEEE754.Bits.
Import ListNotations.
Require Import SZV.Base.FloatOps SZV.Model.Quant SZV.Model.QuantFloat SZV.Model.TimeStep SZV.Model.Clamp.
Local Open Scope Z_scope.

(* ---------------- float ---------------- *)
(* realPrecision stays a double in this kernel; checkRadius = (intvCapacity-1)*realPrecision and interval = 2*realPrecision are doubles *)
Record ftctx := { te : f64; tcheck : f64; tinterval : f64; tmedian : f32; treq : Z; tradius : Z }.

Definition ft_exact (c:ftctx * list Z) (xb:Z) : Z :=
  let c := fst c in
  let nv := fsub (F xb) (tmedian c) in
  let ign := 32 - treq c in
  let ign := if ign <? 0 then 0 else ign in
  let b := Fb nv in
  let b' := (b / 2 ^ ign) * 2 ^ ign in
  Fb (fadd (F b') (tmedian c)).

(* !(fabs(curData - pred) > realPrecision): float subtraction, compared as doubles *)
Definition ft_ok (c:ftctx * list Z) (xb rb:Z) : bool :=
  negb (dgt (f64_of_f32 (fabs32 (fsub (F xb) (F rb)))) (te (fst c))).

Definition ft_quant (c:ftctx * list Z) (h:list Z) (pb xb:Z) : option (Z * Z) :=
  if (length h <? 2)%nat then None else
  let k := fst c in
  let x := F xb in let p := F pb in
  let err := f64_of_f32 (fabs32 (fsub x p)) in            (* predAbsErr = fabs(curData - pred), a float *)
  if dlt err (tcheck k) then
    let state := int_of_f64 (ddiv (dadd (ddiv err (te k)) (f64_of_Z 1)) (f64_of_Z 2)) in
    let step := dmul (f64_of_Z state) (tinterval k) in
    let '(q, r) := if fge x p then (tradius k + state, f32_of_f64 (dadd (f64_of_f32 p) step))
                   else (tradius k - state, f32_of_f64 (dsub (f64_of_f32 p) step)) in
    if ft_ok c xb (Fb r) then Some (q, Fb r) else None
  else None.

(* data[i] = predValue + (type_ - intvRadius)*interval, interval = tdps->realPrecision*2 (double), stored to a float *)
Definition ft_dequant (c:ftctx * list Z) (pb q:Z) : Z :=
  let k := fst c in Fb (f32_of_f64 (dadd (f64_of_f32 (F pb)) (dmul (f64_of_Z (q - tradius k)) (tinterval k)))).

Definition ftctx_of (e64b:Z) (intervals:Z) (data:list Z) : ftctx :=
  match data with
  | x0 :: rest =>
    let '(mn, mx) := fminmax (F x0) (F x0) rest in
    let range := fsub mx mn in
    let half := fdiv range (f32_of_Z 2) in
    let median0 := fadd mn half in
    let radExpo := expo_field32 half in
    let e := D e64b in
    let reqExpo := expo_field64 e in
    let r := 9 + radExpo - reqExpo + 1 in
    let r := if r <? 9 then 9 else r in
    let '(rl, med) := if r >? 32 then (32, f32_zero) else (r, median0) in
    {| te := e; tcheck := dmul (f64_of_Z (intervals - 1)) e; tinterval := dmul (f64_of_Z 2) e; tmedian := med; treq := rl; tradius := intervals / 2 |}
  | [] => {| te := f64_zero; tcheck := f64_zero; tinterval := f64_zero; tmedian := f32_zero; treq := 32; tradius := 0 |}
  end.

(* ---------------- double ---------------- *)
(* all arithmetic is double: the context is the spatial one (dctx_of) *)
Definition dt_exact (c:dctx * list Z) (xb:Z) : Z := dexact (fst c) xb.
Definition dt_ok (c:dctx * list Z) (xb rb:Z) : bool := d_ok (fst c) xb rb.
Definition dt_quant (c:dctx * list Z) (h:list Z) (pb xb:Z) : option (Z * Z) :=
  if (length h <? 2)%nat then None else
  let k := fst c in
  let x := D xb in let p := D pb in
  let err := dabs (dsub x p) in
  if dlt err (dcheck k) then
    let state := int_of_f64 (ddiv (dadd (ddiv err (de k)) (f64_of_Z 1)) (f64_of_Z 2)) in
    let step := dmul (f64_of_Z state) (dinterval k) in
    let '(q, r) := if dge x p then (dradius k + state, dadd p step) else (dradius k - state, dsub p step) in
    if dt_ok c xb (Db r) then Some (q, Db r) else None
  else None.
Definition dt_dequant (c:dctx * list Z) (pb q:Z) : Z :=
  let k := fst c in Db (dadd (D pb) (dmul (f64_of_Z (q - dradius k)) (dinterval k))).

(* ---------------- whole runs for the correspondence check ---------------- *)
(* one step as the harness reports it: temporal?, tiny?, constant?, verbatim?, realPrecision (double bits), interval count, data *)
Definition rstep := (bool * bool * bool * bool * Z * Z * list Z)%type.

Definition fstep_of (r:rstep) : step Z fctx ftctx :=
  let '(t, ti, co, ra, e, iv, data) := r in
  {| xs := data; temporal := t; sc := fctx_of e iv data; tc := ftctx_of e iv data; tiny := ti; const := co; raw := ra |}.
Definition dstep_of (r:rstep) : step Z dctx dctx :=
  let '(t, ti, co, ra, e, iv, data) := r in
  {| xs := data; temporal := t; sc := dctx_of e iv data; tc := dctx_of e iv data; tiny := ti; const := co; raw := ra |}.

Definition f_enc_run := enc_run Z 0 fctx fpred1 fquant1 fexact ftctx ft_quant ft_exact.
Definition f_dec_run := dec_run Z 0 fctx fpred1 fdequant1 ftctx ft_dequant.
Definition f_run_flags := run_flags Z 0 fctx fpred1 fquant1 fdequant1 fexact ftctx ft_quant ft_dequant ft_exact Z.eqb f_ok ft_ok.
Definition d_enc_run := enc_run Z 0 dctx dpred1 dquant1 dexact dctx dt_quant dt_exact.
Definition d_dec_run := dec_run Z 0 dctx dpred1 ddequant1 dctx dt_dequant.
Definition d_run_flags := run_flags Z 0 dctx dpred1 dquant1 ddequant1 dexact dctx dt_quant dt_dequant dt_exact Z.eqb d_ok dt_ok.

(* reconstructions per step, final history, flags, and whether the model's decompressor agrees with its compressor *)
Definition ts_run_f (n:nat) (rs:list rstep) :=
  let ss := map fstep_of rs in
  let h0 := repeat 0 n in
  let '(ws, recs, hf) := f_enc_run h0 ss in
  (recs, hf, f_run_flags h0 ss, match f_dec_run h0 ws with Some (r', h') => (if list_eq_dec (list_eq_dec Z.eq_dec) r' recs then true else false) | None => false end).
Definition ts_run_d (n:nat) (rs:list rstep) :=
  let ss := map dstep_of rs in
  let h0 := repeat 0 n in
  let '(ws, recs, hf) := d_enc_run h0 ss in
  (recs, hf, d_run_flags h0 ss, match d_dec_run h0 ws with Some (r', h') => (if list_eq_dec (list_eq_dec Z.eq_dec) r' recs then true else false) | None => false end).

(* with value-range protection the decompressor hands out each reconstruction clamped to [min, max] of the step's data (recorded in
   the step's header); the history buffers keep the unclamped values, so prediction is not affected *)
Definition f_out1 (data recs:list Z) : list Z :=
  match data with
  | [] => recs
  | x0 :: rest => let '(mn, mx) := fminmax (F x0) (F x0) rest in map (fun r => Fb (clamp32 mn mx (F r))) recs
  end.
Definition d_out1 (data recs:list Z) : list Z :=
  match data with
  | [] => recs
  | x0 :: rest => let '(mn, mx) := dminmax (D x0) (D x0) rest in map (fun r => Db (clamp64 mn mx (D r))) recs
  end.
Fixpoint ts_out (out1:list Z -> list Z -> list Z) (rs:list rstep) (recs:list (list Z)) : list (list Z) :=
  match rs, recs with
  | r :: rs', rc :: recs' => let '(_, _, _, _, _, _, data) := r in out1 data rc :: ts_out out1 rs' recs'
  | _, _ => recs
  end.
Definition ts_out_f (protect:bool) rs recs := if protect then ts_out f_out1 rs recs else recs.
Definition ts_out_d (protect:bool) rs recs := if protect then ts_out d_out1 rs recs else recs.

(* the pre-repair run of the float instance (for the refutation witness) *)
Definition f_enc_run_old := enc_run_old Z 0 fctx fpred1 fquant1 fexact ftctx ft_quant ft_exact.
Definition f_dec_run_old := dec_run_old Z 0 fctx fpred1 fdequant1 ftctx ft_dequant.
