(* The SZ-1.4 2-D float kernel (C01): SZ_compress_float_2D_MDQ / decompressDataSeries_float_2D as an instance of the generic codec of
   Model/Quant.v.  The history is the list of reconstructions in raster order, most recent first; the position is its length.  All
   arithmetic is single precision (the kernel takes the bound as a float) except fabs(diff)*recip+1, which C evaluates in double
   before storing it in a float.  The context (bound, median, required length, radius) is that of the 1-D kernel.  No proofs here. *)
From Coq Require Import ZArith List Bool.
From Flocq Require Import Core.Core IEEE754.BinarySingleNaN IEEE754.Binary IEEE754.Bits.
Import ListNotations.
Require Import SZV.Base.FloatOps SZV.Model.Quant SZV.Model.QuantFloat.
Local Open Scope Z_scope.

Record f2ctx := { fc : fctx; frow : nat (* r2, the length of a row *) }.

Definition hnth (h:list Z) (k:nat) : f32 := F (nth k h 0).

(* row 0: the value to the left, then 2*left - left2; column 0 of later rows: the value above; elsewhere left + above - above-left *)
Definition fpred2 (c:f2ctx) (h:list Z) : Z :=
  let n := length h in let w := frow c in
  let i := Nat.div n w in let j := Nat.modulo n w in
  Fb (match i with
      | O => match j with
             | O => f32_zero
             | S O => hnth h 0
             | _ => fsub (fmul (f32_of_Z 2) (hnth h 0)) (hnth h 1)
             end
      | S _ => match j with
               | O => hnth h (w - 1)
               | _ => fsub (fadd (hnth h 0) (hnth h (w - 1))) (hnth h w)
               end
      end).

Definition fopp32 (a:f32) : f32 := b32_opp a.

(* diff = x - pred; itvNum = fabs(diff)*recip + 1 (double, stored as float); if (itvNum < intervals) { if (diff < 0) itvNum = -itvNum;
   type = (int)(itvNum/2) + radius; P = pred + 2*(type - radius)*e; if (fabs(x - P) > e) -> exact } else exact *)
Definition f2_recon (c:f2ctx) (p:f32) (q:Z) : f32 := fadd p (fmul (f32_of_Z (2 * (q - fradius (fc c)))) (fe (fc c))).
Definition fquant2 (c:f2ctx) (h:list Z) (pb xb:Z) : option (Z * Z) :=
  match h with
  | [] => None
  | _ =>
    let x := F xb in let p := F pb in
    let diff := fsub x p in
    let itv := f32_of_f64 (dadd (dmul (f64_of_f32 (fabs32 diff)) (f64_of_f32 (frecip (fc c)))) (f64_of_Z 1)) in
    if flt itv (f32_of_Z (2 * fradius (fc c))) then
      let itv' := if flt diff f32_zero then fopp32 itv else itv in
      let q := int_of_f32 (fdiv itv' (f32_of_Z 2)) + fradius (fc c) in
      let r := f2_recon c p q in
      if f_ok (fc c) xb (Fb r) then Some (q, Fb r) else None
    else None
  end.
Definition fdequant2 (c:f2ctx) (pb q:Z) : Z := Fb (f2_recon c (F pb) q).
Definition fexact2 (c:f2ctx) (xb:Z) : Z := fexact (fc c) xb.
Definition f_ok2 (c:f2ctx) (xb rb:Z) : bool := f_ok (fc c) xb rb.

Definition fenc2 := enc Z f2ctx fpred2 fquant2 fexact2.
Definition fdec2 := dec Z f2ctx fpred2 fdequant2.
Definition fchecks2 := run_checks Z f2ctx fpred2 fquant2 fdequant2 fexact2 Z.eqb f_ok2.

(* a whole 2-D run for the correspondence check *)
Definition frun2 (e64b intervals:Z) (r2:nat) (data:list Z) :=
  let c := {| fc := fctx_of e64b intervals data; frow := r2 |} in
  let '(qs, es, rs) := fenc2 c [] data in (rs, Z.of_nat (length es), fchecks2 c [] data, freq (fc c), Fb (fmedian (fc c))).

(* the hypothesis of the unconditional lock-step theorems of the 2-D and 3-D kernels, decidably: 2 .. 2^24 intervals, 1/e not negative *)
Definition ctx_ok2b (c:fctx) : bool := (1 <=? fradius c) && (2 * fradius c <? 2 ^ 24) && fle f32_zero (frecip c).
Definition frun_ctxok (e64b intervals:Z) (data:list Z) : bool := ctx_ok2b (fctx_of e64b intervals data).
