(* Model of the binary writers / readers of sz/src/rw.c (C19).  A file is a byte list; a missing
   file is None.  Integer writers go through convert<T>ArrayToBytes (declared data endianness),
   float/double writers store the native bytes; every reader swaps each element when the declared
   data endianness differs from the system's.  No proofs in this file. *)
From Coq Require Import ZArith List Bool.
Import ListNotations.
Require Import SZV.Base.Bytes.
Local Open Scope Z_scope.

(* write<T>Data_inBytes; fp = float/double family (writeFloatData_inBytes, writeDoubleData_inBytes),
   w = element width, 1 for writeByteData *)
Definition write_file (fp:bool) (w:nat) (sysEnd dataEnd:Z) (l:list Z) : list Z :=
  if fp then array_to_bytes w sysEnd sysEnd l else array_to_bytes w sysEnd dataEnd l.

(* read<T>Data: element count = file length / w; status SZ_FERR (None) for a missing file *)
Definition read_file (w:nat) (sysEnd dataEnd:Z) (f:option (list Z)) : option (list Z) :=
  match f with None => None | Some bytes => Some (bytes_to_array w sysEnd dataEnd bytes) end.

(* byte-swap of one element value *)
Definition swap_val (w:nat) (v:Z) : Z := native_value (sym_transform (native_bytes w v)).
(* the same elements stored in the opposite byte order *)
Definition swapped_file (w:nat) (l:list Z) : list Z := flat_map (fun v => sym_transform (native_bytes w v)) l.
