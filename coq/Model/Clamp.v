(* Value-range protection (C08): the clamp loop of SZ_decompress_args_float / _double
   (szd_float.c:168-182) on Flocq values.  No proofs in this file. *)
From Coq Require Import ZArith List Bool.
From Flocq Require Import Core.Core IEEE754.BinarySingleNaN IEEE754.Binary IEEE754.Bits.
Require Import SZV.Base.FloatOps.

(* if(v <= max && v >= min) continue; if(v < min) v = min; else if(v > max) v = max; *)
Definition clamp32 (lo hi v:f32) : f32 :=
  if fle v hi && fge v lo then v else if flt v lo then lo else if fgt v hi then hi else v.
Definition clamp64 (lo hi v:f64) : f64 :=
  if dle v hi && dge v lo then v else if dlt v lo then lo else if dgt v hi then hi else v.

Definition in_range32 (lo hi v:f32) : bool := fle lo v && fle v hi.
Definition in_range64 (lo hi v:f64) : bool := dle lo v && dle v hi.
