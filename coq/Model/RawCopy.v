(* The raw-copy fall-back of the float/double compressors (C10, C07): when the lossy stream is not smaller than the raw data,
   SZ_compress_args_{float,double}_StoreOriData writes the record
       3 version bytes + 1 flag byte + parameter block + size field + raw data
   *into the block that holds the stream it replaces* (it does not allocate).  The write stays inside that block iff the block is at
   least as large as the record, which is what the guard in front of every such call compares.  No proofs in this file. *)
From Coq Require Import ZArith List Bool String.
Import ListNotations.
Require Import SZV.Gen.SrcFacts.
Local Open Scope Z_scope.

Definition record_size (meta szt w n:Z) : Z := 3 + meta + szt + 1 + w * n.
(* the guard as the code has it: stream size > (or >=) record size; the stream occupies a block of at least its size *)
Definition guard (strict:bool) (stream meta szt w n:Z) : bool := if strict then record_size meta szt w n <? stream else record_size meta szt w n <=? stream.
(* the guard a "cleanup" would write: compare with the raw data only *)
Definition guard_raw_only (stream w n:Z) : bool := w * n <? stream.

(* what is read from the source on every run: per file, every call of the fall-back is either guarded by a comparison whose other
   side is exactly the record size or directly follows a malloc of the record size; the fall-back computes that same record size,
   reports it as the new stream size and does not allocate *)
Local Open Scope nat_scope.
Definition rawcopy_sites_ok : bool :=
  forallb (fun r => let '(_, (calls, guarded, exact, alloc)) := r in Nat.eqb guarded exact && Nat.eqb (guarded + alloc) calls && Nat.ltb 0 calls) src_rawcopy_sites
  && Nat.eqb (List.length src_rawcopy_sites) 4
  && forallb snd src_rawcopy_record_in_place && Nat.eqb (List.length src_rawcopy_record_in_place) 2.
