(* Model of the stream header (C04, C06): the parameter block written by convertSZParamsToBytes and
   read by convertBytesToSZParams (sz/src/ByteToolkit.c), the flag byte and the size field that
   precede / follow it in the float, double and integer streams, and the header walk of
   SZ_getMetadata (sz/src/sz.c).  A buffer position that the writer never assigns is None.
   No proofs in this file. *)
From Coq Require Import ZArith List Bool.
Import ListNotations.
Require Import SZV.Base.Bytes SZV.Gen.SrcConsts.
Local Open Scope Z_scope.

Record pblock := {
  pb_optQuantMode : Z; dataEnd : Z; sysEnd : Z; pb_szMode : Z; pb_gzipMode : Z;
  pb_sampleDistance : Z; predThr : Z (* short: predThreshold*10000 *);
  ebMode : Z; dataType : Z;
  absF : Z; relF : Z; psnrF : Z; pwrF : Z        (* float bit patterns of (float)absErrBound etc. *);
  solID : Z; maxQ : Z; quantI : Z;
  fminB : Z; fmaxB : Z (* float bits *); dminB : Z; dmaxB : Z (* double bits *)
}.

Definition some (l:list Z) : list (option Z) := map Some l.
Definition gz_code (g:Z) : Z := if g =? 1 then 0 else if g =? 0 then 1 else if g =? 9 then 2 else 0.
Definition gz_level (c:Z) : Z := if c =? 0 then 1 else if c =? 1 then 0 else if c =? 2 then 9 else 0.

Definition flag1 (p:pblock) : Z :=
  ((((pb_optQuantMode p * 2 + dataEnd p) * 2 + sysEnd p) * 4 + pb_szMode p) * 4 + gz_code (pb_gzipMode p)) mod 256.

Definition be4 (v:Z) : list (option Z) := some (to_be 4 v).
Definition zeros4 : list (option Z) := some [0; 0; 0; 0].
Definition unset4 : list (option Z) := [None; None; None; None].

(* bytes 6..13 per bound mode; a mode outside the switch leaves them untouched *)
Definition bound_bytes (p:pblock) : list (option Z) :=
  let m := ebMode p in
  if m =? 0 then be4 (absF p) ++ zeros4
  else if m =? 1 then zeros4 ++ be4 (relF p)
  else if (m =? 2) || (m =? 3) then be4 (absF p) ++ be4 (relF p)
  else if m =? 4 then be4 (psnrF p) ++ zeros4
  else if (m =? 11) || (m =? 12) then be4 (absF p) ++ be4 (pwrF p)
  else if (m =? 13) || (m =? 14) then be4 (relF p) ++ be4 (pwrF p)
  else if m =? 10 then zeros4 ++ be4 (pwrF p)
  else unset4 ++ unset4.

(* convertSZParamsToBytes: 28 bytes for float, 36 otherwise *)
Definition encode_params (p:pblock) : list (option Z) :=
  some [flag1 p] ++ some (to_be 2 (pb_sampleDistance p mod 65536)) ++ some (to_be 2 (predThr p mod 65536))
  ++ some [((ebMode p * 16) mod 256 + dataType p mod 16) mod 256] (* (mode << 4) | (type & 0x0f) *)
  ++ bound_bytes p
  ++ some [solID p mod 256; 0]
  ++ some (to_be 4 ((if pb_optQuantMode p =? 1 then maxQ p else quantI p) mod 2 ^ 32))
  ++ (if dataType p =? 0 then be4 (fminB p) ++ be4 (fmaxB p) else some (to_be 8 (dminB p)) ++ some (to_be 8 (dmaxB p))).

Definition force (l:list (option Z)) : list Z := map (fun o => match o with Some b => b | None => 0 end) l.
Definition all_written (l:list (option Z)) : bool := forallb (fun o => match o with Some _ => true | None => false end) l.

Definition sub (bs:list Z) (off len:nat) : list Z := firstn len (skipn off bs).
Definition byte_at (bs:list Z) (i:nat) : Z := nth i bs 0.

(* convertBytesToSZParams: the fields the metadata query reports *)
Record pview := {
  v_optQuantMode : Z; v_dataEnd : Z; v_szMode : Z; v_gzipMode : Z; v_sampleDistance : Z; v_predThr : Z;
  v_ebMode : Z; v_dataType : Z; v_b6 : Z; v_b10 : Z; v_sol : Z; v_intervals : Z;
  v_min : Z; v_max : Z
}.

Definition decode_params (bs:list Z) : pview :=
  let f := byte_at bs 0 in
  let ty := byte_at bs 5 mod 16 in
  {| v_optQuantMode := (f / 64) mod 2; v_dataEnd := (f / 32) mod 2; v_szMode := (f / 4) mod 4; v_gzipMode := gz_level (f mod 4);
     v_sampleDistance := to_signed 2 (from_be (sub bs 1 2)); v_predThr := to_signed 2 (from_be (sub bs 3 2));
     v_ebMode := (byte_at bs 5 / 16) mod 16; v_dataType := ty;
     v_b6 := from_be (sub bs 6 4); v_b10 := from_be (sub bs 10 4); v_sol := byte_at bs 14; v_intervals := from_be (sub bs 16 4);
     v_min := if ty =? 0 then from_be (sub bs 20 4) else from_be (sub bs 20 8);
     v_max := if ty =? 0 then from_be (sub bs 24 4) else from_be (sub bs 28 8) |}.

Definition view_of (p:pblock) : pview :=
  let m := ebMode p in
  {| v_optQuantMode := pb_optQuantMode p; v_dataEnd := dataEnd p; v_szMode := pb_szMode p; v_gzipMode := gz_level (gz_code (pb_gzipMode p));
     v_sampleDistance := pb_sampleDistance p; v_predThr := predThr p; v_ebMode := m; v_dataType := dataType p;
     v_b6 := if (m =? 0) || (m =? 2) || (m =? 3) || (m =? 11) || (m =? 12) then absF p else if m =? 4 then psnrF p
             else if (m =? 13) || (m =? 14) then relF p else 0;
     v_b10 := if (m =? 1) || (m =? 2) || (m =? 3) then relF p else if (m =? 10) || (m =? 11) || (m =? 12) || (m =? 13) || (m =? 14) then pwrF p else 0;
     v_sol := solID p; v_intervals := if pb_optQuantMode p =? 1 then maxQ p else quantI p;
     v_min := if dataType p =? 0 then fminB p else dminB p; v_max := if dataType p =? 0 then fmaxB p else dmaxB p |}.

(* well-formed parameter values: what the library can hold in the fields *)
Definition modes_ok (m:Z) : bool := existsb (Z.eqb m) [0; 1; 2; 3; 4; 10; 11; 12; 13; 14].
Definition pblock_ok (p:pblock) : bool :=
  ((pb_optQuantMode p =? 0) || (pb_optQuantMode p =? 1)) && ((dataEnd p =? 0) || (dataEnd p =? 1)) && ((sysEnd p =? 0) || (sysEnd p =? 1)) &&
  (0 <=? pb_szMode p) && (pb_szMode p <? 4) && (- 32768 <=? pb_sampleDistance p) && (pb_sampleDistance p <? 32768) &&
  (- 32768 <=? predThr p) && (predThr p <? 32768) && modes_ok (ebMode p) && (0 <=? dataType p) && (dataType p <? 10) &&
  (0 <=? absF p) && (absF p <? 2 ^ 32) && (0 <=? relF p) && (relF p <? 2 ^ 32) && (0 <=? psnrF p) && (psnrF p <? 2 ^ 32) &&
  (0 <=? pwrF p) && (pwrF p <? 2 ^ 32) && (0 <=? solID p) && (solID p <? 256) && (0 <=? maxQ p) && (maxQ p <? 2 ^ 32) &&
  (0 <=? quantI p) && (quantI p <? 2 ^ 32) && (0 <=? fminB p) && (fminB p <? 2 ^ 32) && (0 <=? fmaxB p) && (fmaxB p <? 2 ^ 32) &&
  (0 <=? dminB p) && (dminB p <? 2 ^ 64) && (0 <=? dmaxB p) && (dmaxB p <? 2 ^ 64).

(* ---------- stream prefix and SZ_getMetadata ---------- *)
(* flag byte ("sameByte"): bit0 constant, bit4 lossless, bit6 SZ_SIZE_TYPE = 8; the other bits are per-type *)
Record header := { h_const : Z; h_lossless : Z; h_size8 : Z; h_other : Z (* remaining flag bits, with 0x51 clear *);
                   h_params : pblock; h_exactByteSize : Z; h_length : Z }.

Definition is_int (ty:Z) : bool := 2 <=? ty.
Definition mdbl (ty:Z) : Z := if ty =? 1 then src_MetaDataByteLength_double else src_MetaDataByteLength.

(* version, flag byte, parameter block (in a field of mdbl bytes), [exactByteSize for regular integer streams], length *)
Definition header_bytes (h:header) : list Z :=
  let ty := dataType (h_params h) in
  let st := if h_size8 h =? 1 then 8%nat else 4%nat in
  [src_SZ_VER_MAJOR; src_SZ_VER_MINOR; src_SZ_VER_BUILD; h_const h + 16 * h_lossless h + 64 * h_size8 h + h_other h]
  ++ firstn (Z.to_nat (mdbl ty)) (force (encode_params (h_params h)))
  ++ (if is_int ty && (h_const h =? 0) && (h_lossless h =? 0) then [h_exactByteSize h] else [])
  ++ to_be st (h_length h).

Record metadata := { m_const : Z; m_lossless : Z; m_sizeType : Z; m_length : Z; m_view : pview }.

Definition get_metadata (bs:list Z) : metadata :=
  let flag := byte_at bs 3 in
  let c := flag mod 2 in let l := (flag / 16) mod 2 in
  let st := if (flag / 64) mod 2 =? 1 then 8 else 4 in
  let v := decode_params (skipn 4 bs) in
  let ty := v_dataType v in
  let idx := 4 + mdbl ty + (if is_int ty && (c =? 0) && (l =? 0) then 1 else 0) in
  {| m_const := c; m_lossless := l; m_sizeType := st; m_length := from_be (sub bs (Z.to_nat idx) (Z.to_nat st)); m_view := v |}.
