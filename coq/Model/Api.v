(* The process globals of libSZ as a state machine over the public operations (C05).
   State: the configuration given at initialisation (confparams_cpr fields no operation may change),
   the per-call scratch fields of confparams_cpr (dataType, errorBoundMode, absErrBound, fmin/fmax, ...),
   exe_params (optQuantMode, intvCapacity, intvRadius, SZ_SIZE_TYPE), the dataEndianType global and the
   streams produced so far (what a later decompression or metadata query copies back into the globals).
   A compression first writes (scratch fields from its arguments, exe_params re-derived from the
   configuration: SZ_compress_args, sz/src/sz.c) and then reads; `view` is everything it can read after
   its own writes.  On return the configured mode, bound and ratio are put back (SZ_compress_args wrapper).
   No proofs in this file. *)
From Coq Require Import ZArith List Bool String.
Import ListNotations.
Require Import SZV.Gen.SrcFacts.
Local Open Scope Z_scope.

Record config := { c_endian : Z; c_qi : Z; c_mrr : Z; c_reg : Z; c_mode : Z; c_abs : Z; c_rel : Z; c_pwr : Z; c_rest : list Z }.   (* c_rest: szMode, back end, level, regression, protect, sampling, threshold, accelerate, ... *)
Record exe := { optq : Z; x_cap : Z; x_rad : Z; szt : Z }.
Record call := { k_type : Z; k_mode : Z; k_abs : Z; k_rel : Z; k_pwr : Z; k_min : Z; k_max : Z }.
Record sinfo := { s_endian : Z; s_optq : Z; s_intervals : Z; s_szt : Z; s_isint : bool }.
Record st := { cfg : config; ex : exe; scratch : call; endian : Z; store : list sinfo }.

Definition derive (c:config) (sizeof_size_t:Z) : exe :=
  if 0 <? c_qi c then {| optq := 0; x_cap := c_qi c; x_rad := c_qi c / 2; szt := sizeof_size_t |}
  else {| optq := 1; x_cap := c_mrr c * 2; x_rad := c_mrr c; szt := sizeof_size_t |}.

Definition conf_call (c:config) : call := {| k_type := 0; k_mode := c_mode c; k_abs := c_abs c; k_rel := c_rel c; k_pwr := c_pwr c; k_min := 0; k_max := 0 |}.
Definition init (c:config) : st := {| cfg := c; ex := derive c 8; scratch := conf_call c; endian := c_endian c; store := [] |}.

(* the arguments of one compression as the kernels see them; mode as stored (PSNR and NORM become
   ABS), the derived absolute bound and the array's min/max are functions of the call's own data *)
Record args := { a_type : Z; a_mode : Z; a_abs : Z; a_rel : Z; a_pwr : Z; a_min : Z; a_max : Z; a_isint : bool }.
(* what the caller supplies: explicit bound arguments, or nothing (SZ_compress: the configured defaults),
   or the SZ1.4 customize entry (defaults, regression switched off for this call) *)
Record datum := { d_type : Z; d_min : Z; d_max : Z; d_isint : bool }.
Inductive how := Explicit (mode abs rel pwr:Z) | Defaults | Custom14.

(* the bound arguments a call hands to the kernels, read from the state for the defaults entries *)
Definition args_of (s:st) (w:how) (d:datum) : args :=
  match w with
  | Explicit m a r p => {| a_type := d_type d; a_mode := m; a_abs := a; a_rel := r; a_pwr := p; a_min := d_min d; a_max := d_max d; a_isint := d_isint d |}
  | _ => {| a_type := d_type d; a_mode := k_mode (scratch s); a_abs := k_abs (scratch s); a_rel := c_rel (cfg s); a_pwr := k_pwr (scratch s);
            a_min := d_min d; a_max := d_max d; a_isint := d_isint d |}
  end.
Definition cfg_during (s:st) (w:how) : config :=
  match w with
  | Custom14 => let c := cfg s in {| c_endian := c_endian c; c_qi := c_qi c; c_mrr := c_mrr c; c_reg := 0; c_mode := c_mode c; c_abs := c_abs c; c_rel := c_rel c; c_pwr := c_pwr c; c_rest := c_rest c |}
  | _ => cfg s
  end.

Inductive op :=
| Compress (w:how) (d:datum) (chosen:Z)      (* chosen: interval count the auto-tuner picks for this array (choice oracle) *)
| Decompress (k:nat) (lo lft:Z)            (* lo, lft: the mode flag and interval count the decoder leaves in exe_params (from the stream's header when
                                               it has one and the kernel loads it; 0 for float/double, constant, raw and headerless streams): choice oracle *)
| Metadata (k:nat) | Reinit.

(* phase 1 of a compression: its own writes (SZ_compress_args: exe_params re-derived; kernels: scratch fields) *)
Definition write_phase (s:st) (w:how) (d:datum) : st :=
  let a := args_of s w d in
  {| cfg := cfg_during s w; ex := derive (cfg s) 8;
     scratch := {| k_type := a_type a; k_mode := a_mode a; k_abs := a_abs a; k_rel := a_rel a; k_pwr := a_pwr a; k_min := a_min a; k_max := a_max a |};
     endian := endian s; store := store s |}.

(* everything the kernels and serialisers can read once phase 1 is done *)
Definition view (s:st) (w:how) (d:datum) : config * exe * call * Z :=
  let s' := write_phase s w d in (cfg s', ex s', scratch s', endian s').

Definition step (s:st) (o:op) : st :=
  match o with
  | Compress w d chosen =>
      let s' := write_phase s w d in
      let e' := if optq (ex s') =? 1 then {| optq := 1; x_cap := chosen; x_rad := chosen / 2; szt := 8 |} else ex s' in
      (* on return the configured mode, bound and ratio and the regression switch are put back *)
      {| cfg := cfg s; ex := e';
         scratch := {| k_type := k_type (scratch s'); k_mode := k_mode (scratch s); k_abs := k_abs (scratch s); k_rel := k_rel (scratch s'); k_pwr := k_pwr (scratch s);
                       k_min := k_min (scratch s'); k_max := k_max (scratch s') |};
         endian := endian s';
         store := store s' ++ [{| s_endian := endian s'; s_optq := optq e'; s_intervals := x_cap e'; s_szt := 8; s_isint := d_isint d |}] |}
  | Decompress k lo lft =>
      match nth_error (store s) k with
      | Some i => {| cfg := cfg s; ex := {| optq := lo; x_cap := lft; x_rad := lft / 2; szt := s_szt i |};
                     scratch := scratch s; endian := s_endian i; store := store s |}
      | None => s
      end
  | Metadata k =>
      match nth_error (store s) k with
      | Some i => {| cfg := cfg s; ex := {| optq := s_optq i; x_cap := x_cap (ex s); x_rad := x_rad (ex s); szt := s_szt i |};
                     scratch := scratch s; endian := s_endian i; store := store s |}
      | None => s
      end
  | Reinit => {| cfg := cfg s; ex := derive (cfg s) 8; scratch := conf_call (cfg s); endian := c_endian (cfg s); store := store s |}
  end.

Definition run (h:list op) (s:st) : st := fold_left step h s.

(* the invariant that carries the theorem *)
Definition Inv (c:config) (s:st) : Prop :=
  cfg s = c /\ endian s = c_endian c /\ Forall (fun i => s_endian i = c_endian c) (store s)
  /\ k_mode (scratch s) = c_mode c /\ k_abs (scratch s) = c_abs c /\ k_pwr (scratch s) = c_pwr c.

(* the behaviour before the repairs: exe_params derived only while intvCapacity was still 0 (dff8c82);
   the scratch fields kept the last call's values (20f427a); SZ1.4 left regression off (ff470bf) *)
Definition write_phase_old (s:st) (w:how) (d:datum) : st :=
  let a := args_of s w d in
  {| cfg := cfg_during s w; ex := if x_cap (ex s) =? 0 then derive (cfg s) (szt (ex s)) else ex s;
     scratch := {| k_type := a_type a; k_mode := a_mode a; k_abs := a_abs a; k_rel := a_rel a; k_pwr := a_pwr a; k_min := a_min a; k_max := a_max a |};
     endian := endian s; store := store s |}.
Definition view_old (s:st) (w:how) (d:datum) := let s' := write_phase_old s w d in (cfg s', ex s', scratch s', endian s').
Definition step_old (s:st) (o:op) : st :=
  match o with
  | Compress w d chosen =>
      let s' := write_phase_old s w d in
      let e' := if optq (ex s') =? 1 then {| optq := 1; x_cap := chosen; x_rad := chosen / 2; szt := szt (ex s') |} else ex s' in
      {| cfg := cfg s'; ex := e'; scratch := scratch s'; endian := endian s';
         store := store s' ++ [{| s_endian := endian s'; s_optq := optq e'; s_intervals := x_cap e'; s_szt := 8; s_isint := d_isint d |}] |}
  | _ => step s o
  end.
Definition run_old (h:list op) (s:st) : st := fold_left step_old h s.

(* the thread-safe customize entry (SZ_compress_customize_threadsafe, "SZ") called with bounds of its own in its parameter block:
   it runs the kernels' write phase like an explicit call but returns without putting the configured mode, bound and ratios back
   (listed finding threadsafe_leaves_bounds; not an operation of `op`, whose theorem is about the entries that do) *)
Definition step_ts (s:st) (m a r p:Z) (d:datum) (chosen:Z) : st :=
  let s' := write_phase s (Explicit m a r p) d in
  let e' := if optq (ex s') =? 1 then {| optq := 1; x_cap := chosen; x_rad := chosen / 2; szt := 8 |} else ex s' in
  let c := cfg s in
  {| cfg := {| c_endian := c_endian c; c_qi := c_qi c; c_mrr := c_mrr c; c_reg := c_reg c; c_mode := m; c_abs := a; c_rel := r; c_pwr := p; c_rest := c_rest c |};
     ex := e'; scratch := scratch s'; endian := endian s';
     store := store s' ++ [{| s_endian := endian s'; s_optq := optq e'; s_intervals := x_cap e'; s_szt := 8; s_isint := d_isint d |}] |}.

(* ---- source facts the effect table rests on (T2) ---- *)
Local Open Scope string_scope.
Definition per_call_fields : list string :=
  ["dataType"; "errorBoundMode"; "absErrBound"; "relBoundRatio"; "pw_relBoundRatio"; "fmin"; "fmax"; "dmin"; "dmax"; "accelerate_pw_rel_compression"].
Definition is_kernel_file (f:string) : bool :=
  existsb (String.eqb f) ["sz_float.c"; "sz_double.c"; "sz_int8.c"; "sz_uint8.c"; "sz_int16.c"; "sz_uint16.c"; "sz_int32.c"; "sz_uint32.c"; "sz_int64.c"; "sz_uint64.c"].
(* writes of configuration fields outside the per-call scratch set: only initialisation, the
   time-step entry points (C17) and the SZ1.4 customize entry (C14's listed finding) *)
Definition other_allowed : list (string * string * string) :=
  [("sz.c", "SZ_Init_Params", "maxRangeRadius"); ("sz.c", "SZ_Init_Params", "max_quant_intervals");
   ("sz.c", "SZ_compress_customize", "withRegression");
   ("sz.c", "SZ_compress_ts", "predictionMode"); ("sz.c", "SZ_compress_ts", "szMode");
   ("sz.c", "SZ_compress_ts_select_var", "predictionMode"); ("sz.c", "SZ_compress_ts_select_var", "szMode")].
Definition triple_eqb (x y:string*string*string) : bool :=
  let '(a, b, c) := x in let '(a', b', c') := y in String.eqb a a' && String.eqb b b' && String.eqb c c'.
Definition write_allowed (w:string*string*string) : bool :=
  let '(f, fn, fld) := w in
  (existsb (String.eqb fld) per_call_fields && (is_kernel_file f || String.eqb f "sz.c")) || existsb (triple_eqb w) other_allowed.
Definition exe_writers_allowed : list string :=
  ["convertBytesToSZParams"; "new_TightDataPointStorageD_fromFlatBytes"; "new_TightDataPointStorageF_fromFlatBytes"; "new_TightDataPointStorageI_fromFlatBytes";
   "SZ_Init"; "SZ_Init_Params"; "SZ_compress_args"; "SZ_compress_args_perCall"; "SZ_decompress"; "SZ_getMetadata";
   "SZ_compress_double_1D_MDQ_pwrGroup"; "SZ_compress_float_1D_MDQ_pwrGroup"; "decompressDataSeries_double_1D_pwrgroup"; "decompressDataSeries_float_1D_pwrgroup";
   (* the time-step readers reset exe_params wholesale, as SZ_decompress does (they are C17's subject and are not operations of this model) *)
   "SZ_decompress_ts"; "SZ_decompress_ts_select_var";
   (* the thread-safe customize entry re-derives the quantisation state from the configuration, as SZ_compress_args_perCall does *)
   "SZ_compress_customize_threadsafe"].
Definition source_facts_ok : bool :=
  forallb write_allowed src_cpr_writes
  && forallb (fun w => let '(_, fn, _) := w in existsb (String.eqb fn) exe_writers_allowed) src_exe_writes
  && forallb (fun w => let '(f, fn, fld) := w in negb (String.eqb fld "dataEndianType") || String.eqb fn "convertBytesToSZParams" || String.eqb fn "?") src_endian_writes
  && src_compress_rederives && src_defaults_restored && src_custom14_restored
  && forallb snd src_accel_restored.

(* entry point of the correspondence check: a history as (kind, x, y) triples
   (0 = compress, x = 1 for an integer type, y = chosen interval count; 1 = decompress stream x / 2 leaving mode flag x mod 2 and count y;
   2 = metadata query on stream x; 3 = finalise and re-initialise) -> exe_params after every operation *)
Local Open Scope Z_scope.
Definition op_of (t:Z*Z*Z) : op :=
  let '(k, x, y) := t in
  if k =? 0 then Compress Defaults {| d_type := 0; d_min := 0; d_max := 0; d_isint := x =? 1 |} y
  else if k =? 1 then Decompress (Z.to_nat (x / 2)) (x mod 2) y else if k =? 2 then Metadata (Z.to_nat x) else Reinit.
Fixpoint trace (s:st) (h:list op) : list (list Z) :=
  match h with
  | [] => []
  | o :: h' => let s' := step s o in [optq (ex s'); x_cap (ex s'); x_rad (ex s'); szt (ex s')] :: trace s' h'
  end.
Definition hist_exes (qi mrr:Z) (h:list (Z*Z*Z)) : list (list Z) :=
  trace (init {| c_endian := 0; c_qi := qi; c_mrr := mrr; c_reg := 1; c_mode := 0; c_abs := 0; c_rel := 0; c_pwr := 0; c_rest := [] |}) (map op_of h).
