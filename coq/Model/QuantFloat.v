(* The SZ-1.4 1-D kernels for float and double (C01): SZ_compress_float_1D_MDQ /
   decompressDataSeries_float_1D and their double twins, with computeRangeSize, computeReqLength and
   compressSingle{Float,Double}Value, as instances of the generic codec of Model/Quant.v.  Values are
   bit patterns (Z); arithmetic is Flocq's (Base/FloatOps.v).  The interval count is an input
   ("choice oracle": optimize_intervals only affects the ratio).  No proofs in this file. *)
From Coq Require Import ZArith List Bool.
From Flocq Require Import Core.Core IEEE754.BinarySingleNaN IEEE754.Binary IEEE754.Bits.
Import ListNotations.
Require Import SZV.Base.FloatOps SZV.Model.Quant.
Local Open Scope Z_scope.

(* ---------------- float ---------------- *)
Record fctx := { fe : f32; fe64 : f64 (* realPrecision as the double the API computed *); fcheck : f32; finterval : f32; frecip : f32;
                 fmedian : f32; freq : Z; fradius : Z }.

(* compressSingleFloatValue: the value the exact codec reconstructs *)
Definition fexact (c:fctx) (xb:Z) : Z :=
  let nv := fsub (F xb) (fmedian c) in
  let ign := 32 - freq c in
  let ign := if ign <? 0 then 0 else ign in
  let b := Fb nv in
  let b' := (b / 2 ^ ign) * 2 ^ ign in
  Fb (fadd (F b') (fmedian c)).

Definition fpred1 (c:fctx) (h:list Z) : Z := hd 0 h.

Definition f_ok (c:fctx) (xb rb:Z) : bool :=     (* !(fabs(x - r) > e), float difference compared in double *)
  negb (dgt (f64_of_f32 (fabs32 (fsub (F xb) (F rb)))) (f64_of_f32 (fe c))).

Definition fquant1 (c:fctx) (h:list Z) (pb xb:Z) : option (Z * Z) :=
  if (length h <? 2)%nat then None else
  let x := F xb in let p := F pb in
  let err := fabs32 (fsub x p) in
  if flt err (fcheck c) then
    let state := Z.shiftr (int_of_f32 (fadd (fmul err (frecip c)) (f32_of_Z 1))) 1 in
    let '(q, r) := if fge x p then (fradius c + state, fadd p (fmul (f32_of_Z state) (finterval c)))
                   else (fradius c - state, fsub p (fmul (f32_of_Z state) (finterval c))) in
    (* if(fabs(curData-pred)>realPrecision || type[i]==0) -> unpredictable *)
    if f_ok c xb (Fb r) && negb (q =? 0) then Some (q, Fb r) else None
  else None.

(* before the repair: code 0 (the unpredictable marker) could be emitted for a predicted element *)
Definition fquant1_old (c:fctx) (h:list Z) (pb xb:Z) : option (Z * Z) :=
  if (length h <? 2)%nat then None else
  let x := F xb in let p := F pb in
  let err := fabs32 (fsub x p) in
  if flt err (fcheck c) then
    let state := Z.shiftr (int_of_f32 (fadd (fmul err (frecip c)) (f32_of_Z 1))) 1 in
    let '(q, r) := if fge x p then (fradius c + state, fadd p (fmul (f32_of_Z state) (finterval c)))
                   else (fradius c - state, fsub p (fmul (f32_of_Z state) (finterval c))) in
    if f_ok c xb (Fb r) then Some (q, Fb r) else None
  else None.

(* decompressDataSeries_float_1D: predValue + (float)(type - radius) * interval *)
Definition fdequant1 (c:fctx) (pb q:Z) : Z := Fb (fadd (F pb) (fmul (f32_of_Z (q - fradius c)) (finterval c))).

Fixpoint fminmax (mn mx:f32) (l:list Z) : f32 * f32 :=
  match l with
  | [] => (mn, mx)
  | d :: l' => let x := F d in if fgt mn x then fminmax x mx l' else if flt mx x then fminmax mn x l' else fminmax mn mx l'
  end.

(* context of SZ_compress_args_float_NoCkRngeNoGzip_1D for absolute bound e64 (double bits) and a given interval count *)
Definition fctx_of (e64b:Z) (intervals:Z) (data:list Z) : fctx :=
  match data with
  | x0 :: rest =>
    let '(mn, mx) := fminmax (F x0) (F x0) rest in
    let range := fsub mx mn in
    let half := fdiv range (f32_of_Z 2) in
    let median0 := fadd mn half in
    let radExpo := expo_field32 half in
    let e := f32_of_f64 (D e64b) in
    let reqExpo := expo_field64 (f64_of_f32 e) in
    let r := 9 + radExpo - reqExpo + 1 in
    let r := if r <? 9 then 9 else r in
    let '(rl, med) := if r >? 32 then (32, f32_zero) else (r, median0) in
    {| fe := e; fe64 := D e64b; fcheck := fmul (f32_of_Z (intervals - 1)) e; finterval := fmul (f32_of_Z 2) e; frecip := fdiv (f32_of_Z 1) e;
       fmedian := med; freq := rl; fradius := intervals / 2 |}
  | [] => {| fe := f32_zero; fe64 := f64_zero; fcheck := f32_zero; finterval := f32_zero; frecip := f32_zero; fmedian := f32_zero; freq := 32; fradius := 0 |}
  end.

Definition fenc1 := enc Z fctx fpred1 fquant1 fexact.
Definition fdec1 := dec Z fctx fpred1 fdequant1.

Definition fchecks1 := run_checks Z fctx fpred1 fquant1 fdequant1 fexact Z.eqb f_ok.
Definition fchecks1_old := run_checks Z fctx fpred1 fquant1_old fdequant1 fexact Z.eqb f_ok.

(* ---------------- double ---------------- *)
Record dctx := { de : f64; dcheck : f64; dinterval : f64; drecip : f64; dmedian : f64; dreq : Z; dradius : Z }.

Definition dexact (c:dctx) (xb:Z) : Z :=
  let nv := dsub (D xb) (dmedian c) in
  let ign := 64 - dreq c in
  let ign := if ign <? 0 then 0 else ign in
  let b := Db nv in
  let b' := (b / 2 ^ ign) * 2 ^ ign in
  Db (dadd (D b') (dmedian c)).

Definition d_ok (c:dctx) (xb rb:Z) : bool := negb (dgt (dabs (dsub (D xb) (D rb))) (de c)).

(* SZ_compress_double_1D_MDQ: if(fabs(curData-pred)<=realPrecision && type[i]!=0) the code stands, otherwise the element is stored exactly *)
Definition d_within (c:dctx) (xb:Z) (r:f64) : bool := dle (dabs (dsub (D xb) r)) (de c).
Definition dquant1 (c:dctx) (h:list Z) (pb xb:Z) : option (Z * Z) :=
  if (length h <? 2)%nat then None else
  let x := D xb in let p := D pb in
  let err := dabs (dsub x p) in
  if dlt err (dcheck c) then
    let state := int_of_f64 (dmul (dadd (dmul err (drecip c)) (f64_of_Z 1)) (D 0x3FE0000000000000)) in
    let '(q, r) := if dge x p then (dradius c + state, dadd p (dmul (f64_of_Z state) (dinterval c)))
                   else (dradius c - state, dsub p (dmul (f64_of_Z state) (dinterval c))) in
    if d_within c xb r && negb (q =? 0) then Some (q, Db r) else None
  else None.

(* before the repair: no re-check after quantisation *)
Definition dquant1_old (c:dctx) (h:list Z) (pb xb:Z) : option (Z * Z) :=
  if (length h <? 2)%nat then None else
  let x := D xb in let p := D pb in
  let err := dabs (dsub x p) in
  if dlt err (dcheck c) then
    let state := int_of_f64 (dmul (dadd (dmul err (drecip c)) (f64_of_Z 1)) (D 0x3FE0000000000000)) in
    if dge x p then Some (dradius c + state, Db (dadd p (dmul (f64_of_Z state) (dinterval c))))
    else Some (dradius c - state, Db (dsub p (dmul (f64_of_Z state) (dinterval c))))
  else None.

Definition ddequant1 (c:dctx) (pb q:Z) : Z := Db (dadd (D pb) (dmul (f64_of_Z (q - dradius c)) (dinterval c))).

Fixpoint dminmax (mn mx:f64) (l:list Z) : f64 * f64 :=
  match l with
  | [] => (mn, mx)
  | d :: l' => let x := D d in if dgt mn x then dminmax x mx l' else if dlt mx x then dminmax mn x l' else dminmax mn mx l'
  end.

Definition dctx_of (e64b:Z) (intervals:Z) (data:list Z) : dctx :=
  match data with
  | x0 :: rest =>
    let '(mn, mx) := dminmax (D x0) (D x0) rest in
    let range := dsub mx mn in
    let half := ddiv range (f64_of_Z 2) in
    let median0 := dadd mn half in
    let radExpo := expo_field64 half in
    let e := D e64b in
    let reqExpo := expo_field64 e in
    let r := 12 + radExpo - reqExpo in
    let r := if r <? 12 then 12 else r in
    let '(rl, med) := if r >? 64 then (64, f64_zero) else (r, median0) in
    {| de := e; dcheck := dmul (f64_of_Z (intervals - 1)) e; dinterval := dmul (f64_of_Z 2) e; drecip := ddiv (f64_of_Z 1) e;
       dmedian := med; dreq := rl; dradius := intervals / 2 |}
  | [] => {| de := f64_zero; dcheck := f64_zero; dinterval := f64_zero; drecip := f64_zero; dmedian := f64_zero; dreq := 64; dradius := 0 |}
  end.

Definition dpred1 (c:dctx) (h:list Z) : Z := hd 0 h.
Definition denc1 := enc Z dctx dpred1 dquant1 dexact.
Definition ddec1 := dec Z dctx dpred1 ddequant1.

Definition dchecks1 := run_checks Z dctx dpred1 dquant1 ddequant1 dexact Z.eqb d_ok.
Definition dchecks1_old := run_checks Z dctx dpred1 dquant1_old ddequant1 dexact Z.eqb d_ok.

(* whole 1-D runs for the correspondence check: reconstruction, number of exactly stored elements, checks *)
Definition frun1 (e64b intervals:Z) (data:list Z) :=
  let c := fctx_of e64b intervals data in
  let '(qs, es, rs) := fenc1 c [] data in (rs, Z.of_nat (length es), fchecks1 c [] data, freq c, Fb (fmedian c)).
Definition drun1 (e64b intervals:Z) (data:list Z) :=
  let c := dctx_of e64b intervals data in
  let '(qs, es, rs) := denc1 c [] data in (rs, Z.of_nat (length es), dchecks1 c [] data, dreq c, Db (dmedian c)).
