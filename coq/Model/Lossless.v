(* Model of the lossless wrapper (C12): the chunk schedule of zlib_compress5, the zlib stream
   header for deflateInit(level) (RFC 1950), the format sniffer is_lossless_compressed_data with the
   generated translation of isZlibFormat, and the size test with which every decoder entry decides
   whether to sniff at all.  zlib and zstd themselves are Section variables.  No proofs here. *)
From Coq Require Import ZArith List Bool.
Import ListNotations.
Require Import SZV.Base.CSem SZV.Gen.SrcZlib SZV.Gen.SrcConsts.
Local Open Scope Z_scope.

(* ---- zlib_compress5: the input is fed to deflate in chunks of SZ_ZLIB_BUFFER_SIZE; Z_FINISH on the
   last.  Returns the list of (avail_in, finish?) in order.  fuel = number of chunks + 1. *)
Fixpoint chunks_from (fuel:nat) (buf:Z) (p_size:Z) (len:Z) : list (Z * bool) :=
  match fuel with O => [] | S f =>
    let p := p_size + buf in
    if p >=? len then [(len - (p - buf), true)]
    else (buf, false) :: chunks_from f buf p len
  end.
Definition chunk_schedule (len:Z) : list (Z * bool) :=
  chunks_from (S (Z.to_nat (len / src_SZ_ZLIB_BUFFER_SIZE))) src_SZ_ZLIB_BUFFER_SIZE 0 len.

(* ---- zlib header for window 15 and the level's FLEVEL (deflate.c), check bits making it a multiple of 31 *)
Definition flevel (level:Z) : Z := if level <? 0 then 2 else if level <? 2 then 0 else if level <? 6 then 1 else if level =? 6 then 2 else 3.
Definition zlib_header (level:Z) : Z * Z :=
  let cmf := 120 in
  let flg0 := flevel level * 64 in
  let flg := flg0 + (31 - (cmf * 256 + flg0) mod 31) mod 31 in
  (cmf, flg).

Definition zstd_magic : list Z := [40; 181; 47; 253].      (* 28 B5 2F FD *)
Definition GZIP := 0.
Definition ZSTD := 1.
Definition NONE := -1.

(* ---- is_lossless_compressed_data; [zstd_frame] abstracts ZSTD_getFrameContentSize(...) != ERROR *)
Definition sniff (zstd_frame:list Z -> bool) (bytes:list Z) : Z :=
  if zstd_frame bytes then ZSTD
  else if negb (c_isZlibFormat (nth 0 bytes 0) (nth 1 bytes 0) =? 0) then GZIP else NONE.

(* executable stand-in used by the correspondence check on real frames and on non-frames: a frame
   starts with the zstd magic (frames produced by ZSTD_compress carry a valid header) *)
Definition starts_with_magic (bytes:list Z) : bool :=
  match bytes with a :: b :: c :: d :: _ => (a =? 40) && (b =? 181) && (c =? 47) && (d =? 253) | _ => false end.

(* ---- decoder entry: sniff unless the size equals one of the two constant-stream sizes of the type *)
Fixpoint lookup_bypass (ty:Z) (tbl:list (Z * Z * Z)) : Z * Z :=
  match tbl with
  | [] => (-1, -1)
  | (t, a, b) :: rest => if t =? ty then (a, b) else lookup_bypass ty rest
  end.
(* the entries before the repair: a stream with the length of a constant stream was never looked at *)
Definition entry_sniff_old (zstd_frame:list Z -> bool) (ty:Z) (bytes:list Z) : Z :=
  let '(a, b) := lookup_bypass ty src_bypass_sizes in
  let n := Z.of_nat (length bytes) in
  if (n =? a) || (n =? b) then NONE else sniff zstd_frame bytes.
(* the entries now: if((cmpSize!=A && cmpSize!=B) || is_lossless_compressed_data(...)!=-1) sniff, else unwrapped
   (src_entry_resniffs: all ten entries have the second disjunct) *)
Definition entry_sniff (zstd_frame:list Z -> bool) (ty:Z) (bytes:list Z) : Z :=
  let '(a, b) := lookup_bypass ty src_bypass_sizes in
  let n := Z.of_nat (length bytes) in
  if negb ((n =? a) || (n =? b)) || (src_entry_resniffs && negb (sniff zstd_frame bytes =? NONE)) then sniff zstd_frame bytes else NONE.

(* size of the constant ("within range") stream of each type for SZ_SIZE_TYPE = st: the sizes the
   bypass is meant for *)
Definition const_stream_size (ty st:Z) : Z :=
  if ty =? 0 then 3 + 1 + src_MetaDataByteLength + st + 4
  else if ty =? 1 then 3 + 1 + src_MetaDataByteLength_double + st + 8
  else let w := if (ty =? 2) || (ty =? 3) then 1 else if (ty =? 4) || (ty =? 5) then 2 else if (ty =? 6) || (ty =? 7) then 4 else 8 in
       3 + 1 + src_MetaDataByteLength + st + w.
