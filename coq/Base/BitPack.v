(* Model of the bit packers of sz/src/TypeManager.c:
   convertIntArray2ByteArray_fast_{1b,2b,3b}, convertByteArray2IntArray_fast_{1b,2b,3b},
   convertIntArray2ByteArray_fast_dynamic (fixed width 0..8) and the residual-bit reader
   that szd_float.c / szd_double.c inline.  All of them concatenate the k-bit values
   most-significant-bit first, cut the bit string into bytes and zero-pad the last byte.
   No proofs in this file. *)
From Coq Require Import ZArith List Bool.
Import ListNotations.
Local Open Scope Z_scope.

(* the k low bits of v, most significant first *)
Fixpoint bits (k:nat) (v:Z) : list bool :=
  match k with
  | O => []
  | S k' => Z.testbit v (Z.of_nat k') :: bits k' v
  end.

Definition val (bs:list bool) : Z := fold_left (fun a (b:bool) => 2 * a + (if b then 1 else 0)) bs 0.

Definition pad_to (n:nat) (bs:list bool) : list bool := bs ++ repeat false (n - length bs).

(* n groups of 8 bits, the last one zero-padded *)
Fixpoint group8 (n:nat) (bs:list bool) : list (list bool) :=
  match n with
  | O => []
  | S n' => pad_to 8 (firstn 8 bs) :: group8 n' (skipn 8 bs)
  end.

Definition nbytes (nbits:nat) : nat := Nat.div (nbits + 7) 8.

Definition pack_bits (bs:list bool) : list Z := map val (group8 (nbytes (length bs)) bs).
Definition unpack_bits (bytes:list Z) : list bool := flat_map (bits 8) bytes.

(* n values of k bits each from a bit string *)
Fixpoint take_vals (k:nat) (n:nat) (bs:list bool) : list Z :=
  match n with
  | O => []
  | S n' => val (firstn k bs) :: take_vals k n' (skipn k bs)
  end.

(* packers: k = 1, 2, 3 for the fixed ones; 0..8 for the dynamic one *)
Definition pack (k:nat) (l:list Z) : list Z := pack_bits (flat_map (bits k) l).
Definition unpack (k:nat) (n:nat) (bytes:list Z) : list Z := take_vals k n (unpack_bits bytes).

(* byte length the C computes before packing *)
Definition packed_len (k:nat) (n:nat) : nat := nbytes (k * n).

(* ------------------------------------------------------------------------------------
   The inline residual-bit reader of szd_float.c:224-248 / szd_double.c, written with the
   helper functions of ByteToolkit.c (getRightMovingSteps, getRightMovingCode,
   getLeftMovingCode).  k = bit cursor, p = byte cursor, w = resiBitsLength (1..8).
   ------------------------------------------------------------------------------------ *)
Definition mask_right (m:Z) : Z := (* getMaskRightCode *)
  if (m <? 0) || (8 <? m) then 0 else 2 ^ m - 1.
Definition left_moving_code (kMod8:Z) : Z := mask_right (8 - kMod8).
Definition right_moving_steps (kMod8 w:Z) : Z := 8 - kMod8 - w.
Definition right_moving_code (kMod8 w:Z) : Z :=
  let r := 8 - kMod8 - w in
  if r <? 0 then
    (* switch(-rightMovingSteps) : 0x80, 0xC0, ... 0xFE *)
    if (1 <=? - r) && (- r <=? 7) then 256 - 2 ^ (8 + r) else 0
  else mask_right (8 - kMod8) - mask_right (8 - kMod8 - w).

Definition nthZ (l:list Z) (i:Z) : Z := nth (Z.to_nat i) l 0.

(* one read: returns (resiBits, k', p') *)
Definition read_resi (bytes:list Z) (w k p:Z) : Z * Z * Z :=
  let kMod8 := k mod 8 in
  let r := right_moving_steps kMod8 w in
  if 0 <? r then
    (Z.shiftr (Z.land (nthZ bytes p) (right_moving_code kMod8 w)) r, k + w, p)
  else if r <? 0 then
    let code1 := left_moving_code kMod8 in
    let resi1 := Z.shiftl (Z.land (nthZ bytes p) code1) (- r) in
    let code2 := right_moving_code kMod8 w in
    let resi2 := Z.shiftr (Z.land (nthZ bytes (p + 1)) code2) (8 + r) in
    (Z.lor resi1 resi2, k + w, p + 1)
  else
    (Z.land (nthZ bytes p) (right_moving_code kMod8 w), k + w, p + 1).

Fixpoint read_all (bytes:list Z) (w:Z) (n:nat) (k p:Z) : list Z :=
  match n with
  | O => []
  | S n' => let '(v, k', p') := read_resi bytes w k p in v :: read_all bytes w n' k' p'
  end.
