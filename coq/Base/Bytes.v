(* Model of the byte-order codecs of sz/src/ByteToolkit.c and dataCompression.c
   (int16/32/64ToBytes_bigEndian, bytesTo{U}Int{16,32,64}_bigEndian, longToBytes_bigEndian,
   floatToBytes/bytesToFloat, doubleToBytes/bytesToDouble, sizeToBytes/bytesToSize,
   symTransform_{2,4,8}bytes, convert<T>ArrayToBytes / convertByteDataTo<T>Array).
   Values are Z; a byte is a Z in [0,256).  No proofs in this file. *)
From Coq Require Import ZArith List Bool.
Import ListNotations.
Local Open Scope Z_scope.

(* [to_be w v]: the w bytes b[0] = v >> 8(w-1), ..., b[w-1] = v, each narrowed to unsigned char. *)
Fixpoint to_be (w:nat) (v:Z) : list Z :=
  match w with
  | O => []
  | S w' => (v / 256 ^ (Z.of_nat w')) mod 256 :: to_be w' v
  end.

(* bytesToUIntN_bigEndian: res <<= 8; res |= b[i] *)
Definition from_be (bs:list Z) : Z := fold_left (fun acc b => acc * 256 + b) bs 0.

(* reinterpretation of an unsigned w-byte pattern as the signed type (two's complement) *)
Definition to_signed (w:nat) (u:Z) : Z :=
  let m := 256 ^ (Z.of_nat w) in if u <? m / 2 then u else u - m.
Definition to_unsigned (w:nat) (s:Z) : Z := s mod 256 ^ (Z.of_nat w).

Definition from_be_signed (bs:list Z) : Z := to_signed (length bs) (from_be bs).

(* symTransform_{2,4,8}bytes *)
Definition sym_transform (bs:list Z) : list Z := rev bs.

(* host = little endian (sysEndianType is *set* by the library from a run-time probe; the
   variable can also be overwritten by callers, so both values are modelled).
   memcpy of the native object gives the little-endian byte string [rev (to_be w bits)]. *)
Definition native_bytes (w:nat) (bits:Z) : list Z := rev (to_be w bits).
Definition native_value (bs:list Z) : Z := from_be (rev bs).

(* floatToBytes / doubleToBytes (w = 4 / 8) on the bit pattern; sysEnd = 0 little, 1 big *)
Definition fp_to_bytes (w:nat) (sysEnd:Z) (bits:Z) : list Z :=
  if sysEnd =? 0 then sym_transform (native_bytes w bits) else native_bytes w bits.
Definition bytes_to_fp (sysEnd:Z) (bs:list Z) : Z :=
  if sysEnd =? 0 then native_value (sym_transform bs) else native_value bs.

(* sizeToBytes / bytesToSize; sizeType = exe_params->SZ_SIZE_TYPE (4 or 8).
   The 4-byte reader goes through bytesToInt_bigEndian (int), is cast to unsigned int and
   widened to size_t; the 8-byte reader goes through bytesToLong_bigEndian (int64_t). *)
Definition size_to_bytes (sizeType:Z) (n:Z) : list Z :=
  if sizeType =? 4 then to_be 4 (n mod 2^32) else to_be 8 n.
Definition bytes_to_size (sizeType:Z) (bs:list Z) : Z :=
  if sizeType =? 4 then (to_signed 4 (from_be (firstn 4 bs))) mod 2^32
  else (to_signed 8 (from_be (firstn 8 bs))) mod 2^64.

(* convert<T>ArrayToBytes: per element, native order if sysEnd = dataEnd, else swapped. *)
Definition elem_to_bytes (w:nat) (sysEnd dataEnd:Z) (u:Z) : list Z :=
  if sysEnd =? dataEnd then native_bytes w u else sym_transform (native_bytes w u).
Definition bytes_to_elem (sysEnd dataEnd:Z) (bs:list Z) : Z :=
  if sysEnd =? dataEnd then native_value bs else native_value (sym_transform bs).

Definition array_to_bytes (w:nat) (sysEnd dataEnd:Z) (l:list Z) : list Z :=
  flat_map (elem_to_bytes w sysEnd dataEnd) l.

Fixpoint chunks (w:nat) (n:nat) (bs:list Z) : list (list Z) :=
  match n with
  | O => []
  | S n' => firstn w bs :: chunks w n' (skipn w bs)
  end.

(* convertByteDataTo<T>Array: stateLength = byteLength / w *)
Definition bytes_to_array (w:nat) (sysEnd dataEnd:Z) (bs:list Z) : list Z :=
  map (bytes_to_elem sysEnd dataEnd) (chunks w (Nat.div (length bs) w) bs).
