(* C float / double operators on x86-64 SSE2 (round to nearest even, no contraction, FLT_EVAL_METHOD 0)
   as Flocq binary32 / binary64 operations, on bit patterns (Z) so that values are compared bitwise.
   NaN payloads are not modelled (inputs are finite).  No proofs in this file. *)
From Coq Require Import ZArith List Bool.
From Flocq Require Import Core.Core IEEE754.BinarySingleNaN IEEE754.Binary IEEE754.Bits.
Import ListNotations.
Local Open Scope Z_scope.

Notation f32 := binary32.
Notation f64 := binary64.

Definition F (b:Z) : f32 := b32_of_bits (b mod 2 ^ 32).
Definition D (b:Z) : f64 := b64_of_bits (b mod 2 ^ 64).
Definition Fb (x:f32) : Z := bits_of_b32 x.
Definition Db (x:f64) : Z := bits_of_b64 x.

(* binary32 *)
Definition fadd (a b:f32) : f32 := b32_plus mode_NE a b.
Definition fsub (a b:f32) : f32 := b32_minus mode_NE a b.
Definition fmul (a b:f32) : f32 := b32_mult mode_NE a b.
Definition fdiv (a b:f32) : f32 := b32_div mode_NE a b.
Definition fabs32 (a:f32) : f32 := b32_abs a.
Definition flt (a b:f32) : bool := match b32_compare a b with Some Lt => true | _ => false end.
Definition fle (a b:f32) : bool := match b32_compare a b with Some Lt | Some Eq => true | _ => false end.
Definition fgt a b := flt b a.
Definition fge a b := fle b a.
(* binary64 *)
Definition dadd (a b:f64) : f64 := b64_plus mode_NE a b.
Definition dsub (a b:f64) : f64 := b64_minus mode_NE a b.
Definition dmul (a b:f64) : f64 := b64_mult mode_NE a b.
Definition ddiv (a b:f64) : f64 := b64_div mode_NE a b.
Definition dabs (a:f64) : f64 := b64_abs a.
Definition dlt (a b:f64) : bool := match b64_compare a b with Some Lt => true | _ => false end.
Definition dle (a b:f64) : bool := match b64_compare a b with Some Lt | Some Eq => true | _ => false end.
Definition dgt a b := dlt b a.
Definition dge a b := dle b a.

Lemma Hp32 : FLX.Prec_gt_0 24. Proof. reflexivity. Qed.
Lemma Hm32 : Prec_lt_emax 24 128. Proof. reflexivity. Qed.
Lemma Hp64 : FLX.Prec_gt_0 53. Proof. reflexivity. Qed.
Lemma Hm64 : Prec_lt_emax 53 1024. Proof. reflexivity. Qed.

(* conversions *)
Definition f32_of_Z (z:Z) : f32 := binary_normalize 24 128 Hp32 Hm32 mode_NE z 0 false.   (* (float) int *)
Definition f64_of_Z (z:Z) : f64 := binary_normalize 53 1024 Hp64 Hm64 mode_NE z 0 false.  (* (double) int *)
Definition f32_of_f64 (d:f64) : f32 :=                                                      (* (float) double *)
  match d with
  | Binary.B754_finite _ _ s m e _ => binary_normalize 24 128 Hp32 Hm32 mode_NE (cond_Zopp s (Zpos m)) e s
  | Binary.B754_zero _ _ s => Binary.B754_zero 24 128 s
  | Binary.B754_infinity _ _ s => Binary.B754_infinity 24 128 s
  | Binary.B754_nan _ _ _ _ _ => Binary.B754_zero 24 128 false
  end.
Definition f64_of_f32 (f:f32) : f64 :=                                                      (* (double) float: exact *)
  match f with
  | Binary.B754_finite _ _ s m e _ => binary_normalize 53 1024 Hp64 Hm64 mode_NE (cond_Zopp s (Zpos m)) e s
  | Binary.B754_zero _ _ s => Binary.B754_zero 53 1024 s
  | Binary.B754_infinity _ _ s => Binary.B754_infinity 53 1024 s
  | Binary.B754_nan _ _ _ _ _ => Binary.B754_zero 53 1024 false
  end.
Definition int_of_f32 (f:f32) : Z := Btrunc 24 128 f.        (* (int) float: toward zero; undefined beyond the int range *)
Definition int_of_f64 (d:f64) : Z := Btrunc 53 1024 d.

(* exponent fields as getExponent_float / getExponent_double read them *)
Definition expo_field32 (f:f32) : Z := (Z.land (Fb f) 0x7F800000) / 2 ^ 23 - 127.
Definition expo_field64 (d:f64) : Z := (Z.land (Db d) 0x7FF0000000000000) / 2 ^ 52 - 1023.

Definition f32_zero : f32 := Binary.B754_zero 24 128 false.
Definition f64_zero : f64 := Binary.B754_zero 53 1024 false.
