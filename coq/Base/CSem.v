(* C integer semantics used by the generated translations (tools/c2gallina.py), LP64. *)
From Coq Require Import ZArith Bool.
Local Open Scope Z_scope.

Definition wrapu (w:Z) (z:Z) : Z := z mod 2 ^ w.
Definition wraps (w:Z) (z:Z) : Z := (z + 2 ^ (w - 1)) mod 2 ^ w - 2 ^ (w - 1).
Definition b2z (b:bool) : Z := if b then 1 else 0.
