(* C14 — all public entry points agree with the canonical pair.  What is proved here is the
   permutation algebra of the "SZ_Transpose" entry points; the agreement of the wrappers that
   merely forward their arguments is established by the differential check between entry points
   on the implementation (see DESIGN.md §4 C14). *)
From Coq Require Import ZArith List Bool.
Import ListNotations.
Require Import SZV.Model.Transpose SZV.Proofs.Transpose_proofs.
Local Open Scope Z_scope.

(* detransposeData inverts transposeData for every shape of rank 1..4 and every content *)
Theorem C14_detranspose_transpose : forall dim r4 r3 r2 r1 l,
  dims_ok dim r4 r3 r2 r1 -> Z.of_nat (length l) = nelems dim r4 r3 r2 r1 ->
  detranspose dim r4 r3 r2 r1 (transpose dim r4 r3 r2 r1 l) = l.
Proof. exact detranspose_transpose. Qed.
Print Assumptions C14_detranspose_transpose.

Theorem C14_index_2d : forall r2 r1 t, 0 < r2 -> 0 < r1 -> 0 <= t < r2 * r1 ->
  tr_src 2 0 0 r2 r1 (detr_src 2 0 0 r2 r1 t) = t /\ 0 <= detr_src 2 0 0 r2 r1 t < r2 * r1.
Proof. exact tr_detr_2d. Qed.
Print Assumptions C14_index_2d.

Theorem C14_index_3d : forall r3 r2 r1 t, 0 < r3 -> 0 < r2 -> 0 < r1 -> 0 <= t < r3 * r2 * r1 ->
  tr_src 3 0 r3 r2 r1 (detr_src 3 0 r3 r2 r1 t) = t /\ 0 <= detr_src 3 0 r3 r2 r1 t < r3 * r2 * r1.
Proof. exact tr_detr_3d. Qed.
Print Assumptions C14_index_3d.

Theorem C14_index_4d : forall r4 r3 r2 r1 t, 0 < r4 -> 0 < r3 -> 0 < r2 -> 0 < r1 -> 0 <= t < r4 * r3 * r2 * r1 ->
  tr_src 4 r4 r3 r2 r1 (detr_src 4 r4 r3 r2 r1 t) = t /\ 0 <= detr_src 4 r4 r3 r2 r1 t < r4 * r3 * r2 * r1.
Proof. exact tr_detr_4d. Qed.
Print Assumptions C14_index_4d.

(* regression: what the pinned tree did in 2-D (the forward map applied twice) is not an inverse *)
Theorem C14_forward_twice_refuted : exists r2 r1 t, 0 <= t < r2 * r1 /\ tr_src 2 0 0 r2 r1 (tr_src 2 0 0 r2 r1 t) <> t.
Proof. exact forward_map_not_involutive_2d. Qed.
Print Assumptions C14_forward_twice_refuted.

Example C14_ex : transpose 2 0 0 2 3 [1;2;3;4;5;6] = [1;4;2;5;3;6] /\ detranspose 2 0 0 2 3 [1;4;2;5;3;6] = [1;2;3;4;5;6]
  /\ dims_ok 2 0 0 2 3.
Proof. repeat split; try reflexivity. right; left. repeat split; reflexivity. Qed.
