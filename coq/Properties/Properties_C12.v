(* C12 — the lossless wrapper is transparent and its format sniffing is right.
   zlib and zstd are trusted code: their round trip is sampled by the correspondence check; what is
   proved is SZ's own logic around them. *)
From Coq Require Import ZArith List Bool.
Import ListNotations.
Require Import SZV.Base.CSem SZV.Gen.SrcZlib SZV.Gen.SrcConsts SZV.Model.Lossless SZV.Proofs.Lossless_proofs.
Local Open Scope Z_scope.

Theorem C12_chunks_partition : forall len, 0 <= len ->
  let l := chunk_schedule len in
  sum_in l = len /\ only_last_finishes l /\ Forall (fun c => 0 <= fst c <= src_SZ_ZLIB_BUFFER_SIZE) l /\
  Forall (fun c => snd c = false -> fst c = src_SZ_ZLIB_BUFFER_SIZE) l.
Proof. exact chunks_partition. Qed.
Print Assumptions C12_chunks_partition.

Theorem C12_zlib_magic_recognised : forall level, -1 <= level <= 9 ->
  let '(cmf, flg) := zlib_header level in c_isZlibFormat cmf flg = 1.
Proof. exact zlib_magic_recognised. Qed.
Print Assumptions C12_zlib_magic_recognised.

Theorem C12_sniff_zstd : forall zstd_frame bytes, zstd_frame bytes = true -> sniff zstd_frame bytes = ZSTD.
Proof. exact sniff_zstd. Qed.
Print Assumptions C12_sniff_zstd.

Theorem C12_sniff_zlib : forall zstd_frame,
  (forall bytes, zstd_frame bytes = true ->
     (nth 0 bytes 0 = 40 /\ nth 1 bytes 0 = 181) \/ (80 <= nth 0 bytes 0 <= 95 /\ nth 1 bytes 0 = 42)) ->
  forall level rest, -1 <= level <= 9 ->
  let '(cmf, flg) := zlib_header level in sniff zstd_frame (cmf :: flg :: rest) = GZIP.
Proof. exact sniff_zlib. Qed.
Print Assumptions C12_sniff_zlib.

Theorem C12_sniff_sz_stream : forall zstd_frame,
  (forall bytes, zstd_frame bytes = true ->
     (nth 0 bytes 0 = 40 /\ nth 1 bytes 0 = 181) \/ (80 <= nth 0 bytes 0 <= 95 /\ nth 1 bytes 0 = 42)) ->
  forall rest, sniff zstd_frame (src_SZ_VER_MAJOR :: src_SZ_VER_MINOR :: src_SZ_VER_BUILD :: rest) = NONE.
Proof. exact sniff_sz_stream. Qed.
Print Assumptions C12_sniff_sz_stream.

(* the decoder entries give the sniffer's verdict for every stream, whatever its length (all ten entries re-examine
   streams with the length of a constant stream: read from the source on every run) *)
Theorem C12_entry_sniff : forall zstd_frame ty bytes, entry_sniff zstd_frame ty bytes = sniff zstd_frame bytes.
Proof. exact entry_sniff_full. Qed.
Print Assumptions C12_entry_sniff.

(* before the repair a wrapped stream with the length of a constant stream was taken for an unwrapped one *)
Theorem C12_entry_sniff_bypass_refuted : forall zstd_frame ty bytes,
  let '(a, b) := lookup_bypass ty src_bypass_sizes in
  zstd_frame bytes = true -> Z.of_nat (length bytes) = a -> entry_sniff_old zstd_frame ty bytes = NONE.
Proof. exact entry_sniff_bypass_refuted. Qed.
Print Assumptions C12_entry_sniff_bypass_refuted.

(* obligation on the regenerated constants: the bypass sizes of the ten entries are the constant-stream sizes *)
Theorem C12_bypass_sizes_are_const_stream_sizes :
  forallb (fun ty => let '(a, b) := lookup_bypass ty src_bypass_sizes in
                     (a =? const_stream_size ty 4) && (b =? const_stream_size ty 8)) [0;1;2;3;4;5;6;7;8;9] = true.
Proof. exact bypass_sizes_are_const_stream_sizes. Qed.
Print Assumptions C12_bypass_sizes_are_const_stream_sizes.

Example C12_ex : chunk_schedule 131073 = [(65536, false); (65536, false); (1, true)] /\ chunk_schedule 0 = [(0, true)]
  /\ chunk_schedule 65536 = [(65536, true)] /\ zlib_header 9 = (120, 218) /\ zlib_header 1 = (120, 1).
Proof. repeat split; vm_compute; reflexivity. Qed.
