(* C19 — binary file writers and readers round-trip every element type. *)
From Coq Require Import ZArith List Bool.
Import ListNotations.
Require Import SZV.Base.Bytes SZV.Model.RW SZV.Proofs.Bytes_proofs SZV.Proofs.RW_proofs.
Local Open Scope Z_scope.

(* integer element types (w = 1, 2, 4, 8; bit patterns as unsigned values): identical values and count *)
Theorem C19_int_write_read : forall (w:nat) sysEnd dataEnd l, (0 < w)%nat -> in_range w l ->
  read_file w sysEnd dataEnd (Some (write_file false w sysEnd dataEnd l)) = Some l.
Proof. exact int_write_read. Qed.
Print Assumptions C19_int_write_read.

(* float (w = 4) and double (w = 8), every bit pattern incl. NaN payloads, declared = machine's *)
Theorem C19_fp_write_read : forall (w:nat) sysEnd l, (0 < w)%nat -> in_range w l ->
  read_file w sysEnd sysEnd (Some (write_file true w sysEnd sysEnd l)) = Some l.
Proof. exact fp_write_read. Qed.
Print Assumptions C19_fp_write_read.

(* a file in the opposite byte order, read with that order declared, gives the same values *)
Theorem C19_read_swapped_file : forall (w:nat) sysEnd l, (0 < w)%nat -> in_range w l ->
  read_file w sysEnd (1 - sysEnd) (Some (swapped_file w l)) = Some l.
Proof. exact read_swapped_file. Qed.
Print Assumptions C19_read_swapped_file.

(* declaring the opposite endianness is exactly byte-swapping every element *)
Theorem C19_declaration_is_swap : forall (w:nat) sysEnd bs, length bs = w -> Forall is_byte bs ->
  bytes_to_elem sysEnd (1 - sysEnd) bs = swap_val w (bytes_to_elem sysEnd sysEnd bs).
Proof. exact elem_swap. Qed.
Print Assumptions C19_declaration_is_swap.

Theorem C19_read_count : forall (w:nat) sysEnd dataEnd bytes l,
  read_file w sysEnd dataEnd (Some bytes) = Some l -> length l = Nat.div (length bytes) w.
Proof. exact read_count. Qed.
Print Assumptions C19_read_count.

Theorem C19_missing_file : forall (w:nat) sysEnd dataEnd, read_file w sysEnd dataEnd None = None.
Proof. exact missing_file. Qed.
Print Assumptions C19_missing_file.

Example C19_ex : read_file 4 0 1 (Some (swapped_file 4 [0x7FC00001; 0xFF800000; 1])) = Some [0x7FC00001; 0xFF800000; 1]
  /\ swapped_file 4 [0x7FC00001] = [0x7F; 0xC0; 0x00; 0x01] /\ in_range 4 [0x7FC00001; 0xFF800000; 1].
Proof. repeat split; try reflexivity. repeat constructor; cbn; try discriminate; reflexivity. Qed.
