(* C15 — concurrent thread-safe compressions reconstruct exactly as when run alone. *)
From Coq Require Import ZArith List Bool Arith.
Import ListNotations.
Require Import SZV.Model.Threads SZV.Proofs.Threads_proofs.
Local Open Scope Z_scope.

(* calls that agree on every global they write (same bound-mode class, same value range when range protection is
   on, same interval count), read only tracked globals and only after writing them, and whose saved-and-restored settings
   (copies) land in untracked globals observe, under every schedule of their atomic blocks, exactly what they observe when
   run alone -- hence (a call being a function of what it reads) return the same stream and reconstruction *)
Theorem C15_agree_schedule_independent : forall (P:nat -> prog) (vg m0:nat -> Z) (tr:nat -> bool),
  (forall t, agrees vg (concat (P t))) -> (forall t, own_before [] (concat (P t)) = true) ->
  (forall t, rd_tracked tr (concat (P t))) -> (forall t, cp_untracked tr (concat (P t))) ->
  forall n sched t, (t < n)%nat -> obs (concurrent m0 n P sched) t = alone_obs m0 (P t).
Proof. exact agree_schedule_independent. Qed.
Print Assumptions C15_agree_schedule_independent.

(* the statement of the property itself (no agreement hypothesis) is false of the model, hence of the code the model
   is tied to: two calls writing different values, schedule 0 1 0 *)
Theorem C15_race_refuted : obs (concurrent (fun _ => 0) 2 racy [0%nat; 1%nat; 0%nat]) 0%nat <> alone_obs (fun _ => 0) (racy 0%nat).
Proof. exact race_refuted. Qed.
Print Assumptions C15_race_refuted.

(* the entry saves the accelerate flag, clears it and puts the saved value back on return: when another call reads the flag
   (a PW_REL call choosing its path) the restore of one call lands between the clear and the read of the other *)
Definition restore_race (t:nat) : prog :=
  match t with
  | O => [[Cp 6 100; Wr 6 1]; [Cp 100 6]]
  | S O => [[Cp 6 101; Wr 6 1]; [Rd 6]; [Cp 101 6]]
  | _ => []
  end.
Theorem C15_restore_race_refuted :
  obs (concurrent (fun _ => 0) 2 restore_race [0%nat; 1%nat; 0%nat; 1%nat]) 1%nat <> alone_obs (fun _ => 0) (restore_race 1%nat).
Proof. vm_compute. intro H. discriminate H. Qed.
Print Assumptions C15_restore_race_refuted.

(* non-vacuity: two calls with equal settings that save and restore an untracked setting (global 6, slots 100+) and
   read only what they wrote meet all four hypotheses *)
Definition ex_prog (t:nat) : prog := [[Wr 1 0; Cp 6 (100 + t); Wr 6 1; Wr 7 64]; [Rd 7]; [Rd 1; Cp (100 + t) 6]].
Definition ex_tr (g:nat) : bool := Nat.eqb g 1 || Nat.eqb g 7.
Example C15_ex : (forall t, own_before [] (concat (ex_prog t)) = true) /\
  (forall t, agrees (fun g => if Nat.eqb g 7 then 64 else if Nat.eqb g 6 then 1 else 0) (concat (ex_prog t))) /\
  (forall t, rd_tracked ex_tr (concat (ex_prog t))) /\ (forall t, cp_untracked ex_tr (concat (ex_prog t)))
  /\ obs (concurrent (fun _ => 5) 2 ex_prog [1%nat; 0%nat; 0%nat; 1%nat]) 1%nat = [64; 0].
Proof.
  split; [reflexivity|]. split; [|split; [|split; [|vm_compute; reflexivity]]].
  - intros t g v H. cbn in H. repeat destruct H as [H|H]; try discriminate H; try contradiction; inversion H; subst; reflexivity.
  - intros t g H. cbn in H. repeat destruct H as [H|H]; try discriminate H; try contradiction; inversion H; subst; reflexivity.
  - intros t sg dg H. cbn in H. repeat destruct H as [H|H]; try discriminate H; try contradiction; inversion H; subst; unfold ex_tr.
    + destruct t; reflexivity.
    + reflexivity.
Qed.
