(* C15 — concurrent thread-safe compressions reconstruct exactly as when run alone. *)
From Coq Require Import ZArith List Bool Arith.
Import ListNotations.
Require Import SZV.Model.Threads SZV.Proofs.Threads_proofs.
Local Open Scope Z_scope.

(* calls that agree on every global they write (same bound-mode class, same value range when range protection is
   on, same interval count) and read a global only after writing it observe, under every schedule of their atomic
   blocks, exactly what they observe when run alone -- hence (a call being a function of what it reads) return the
   same stream and reconstruction *)
Theorem C15_agree_schedule_independent : forall (P:nat -> prog) (vg m0:nat -> Z),
  (forall t, agrees vg (concat (P t))) -> (forall t, own_before [] (concat (P t)) = true) ->
  forall n sched t, (t < n)%nat -> obs (concurrent m0 n P sched) t = alone_obs m0 (P t).
Proof. exact agree_schedule_independent. Qed.
Print Assumptions C15_agree_schedule_independent.

(* the statement of the property itself (no agreement hypothesis) is false of the model, hence of the code the model
   is tied to: two calls writing different values, schedule 0 1 0 *)
Theorem C15_race_refuted : obs (concurrent (fun _ => 0) 2 racy [0%nat; 1%nat; 0%nat]) 0%nat <> alone_obs (fun _ => 0) (racy 0%nat).
Proof. exact race_refuted. Qed.
Print Assumptions C15_race_refuted.

(* non-vacuity: two calls with equal settings, three blocks each, meet both hypotheses *)
Definition ex_prog : prog := [[Wr 1 0; Wr 7 64]; [Rd 7]; [Rd 1]].
Example C15_ex : own_before [] (concat ex_prog) = true /\ agrees (fun g => if Nat.eqb g 7 then 64 else 0) (concat ex_prog)
  /\ obs (concurrent (fun _ => 5) 2 (fun _ => ex_prog) [1%nat; 0%nat; 0%nat; 1%nat]) 1%nat = [64; 0].
Proof.
  split; [reflexivity|]. split; [|vm_compute; reflexivity].
  intros g v H. cbn in H. repeat destruct H as [H|H]; try discriminate H; try contradiction; inversion H; subst; reflexivity.
Qed.
