(* C03 — integer arrays (8 element types) reconstruct within the requested bound.
   The kernels are the instance Model/QuantInt.v of the generic codec.  Full statement (every array
   of every integer type, every bound e > 0): refuted on the faithful model in two ways (below);
   proved for integral bounds on runs in which no C narrowing conversion changes a value. *)
From Coq Require Import ZArith List Bool.
Import ListNotations.
Require Import SZV.Model.Quant SZV.Model.QuantInt SZV.Proofs.QuantInt_proofs.
Require Import SZV.Model.Consistency SZV.Proofs.Consistency_proofs.
Require Import SZV.Base.Bytes SZV.Gen.SrcIntBytes SZV.Proofs.IntBytes_proofs.
Local Open Scope Z_scope.

(* the decoder reproduces the encoder's reconstruction: every array, rank 1..3 (4-D = independent
   3-D blocks), every context with an even interval count and an integral bound *)
Theorem C03_lockstep : forall c, ctx_ok c -> forall xs h,
  let '(qs, es, rs) := enc_int c h xs in dec_int c h qs es = Some rs.
Proof. exact int_lockstep. Qed.
Print Assumptions C03_lockstep.

(* every element within e (within c x r := x a value of the element type -> |x - r| <= e; the 8/16-bit kernels clamp
   reconstructions to the type's range, which never moves them away from x); exact storage of unpredictable values *)
Theorem C03_within_bound_partial : forall c, ctx_ok c -> forall xs h,
  let '(_, _, rs) := enc_int c h xs in Forall2 (within c) xs rs.
Proof. exact int_within_bound. Qed.
Print Assumptions C03_within_bound_partial.

Theorem C03_code_nonzero : forall c h p x q r, ctx_ok c -> quant_int c h p x = Some (q, r) -> q <> 0.
Proof. exact quant_int_code_nonzero. Qed.
Print Assumptions C03_code_nonzero.

(* what is missing from the full statement, with witnesses: non-integral bounds ... *)
Theorem C03_fractional_bound_refuted : exists p x e10,
  let d10 := 10 * Z.abs (x - p) in
  let s := (d10 + e10) / (2 * e10) in
  let r := Z.quot (10 * p + s * 2 * e10) 10 in
  0 < e10 < 10 /\ 10 * Z.abs (x - r) > e10.
Proof. exact fractional_bound_refuted. Qed.
Print Assumptions C03_fractional_bound_refuted.

(* ... and reconstructions that leave the element type near its extremes *)
Theorem C03_narrowing_refuted : exists p x,
  let c := {| e := 3; cap := 32; shape := [100]; ty := ity_of 6 |} in
  match quant_int c [0; 0] p x with
  | Some (q, r) => in_type (ty c) x = true /\ in_type (ty c) p = true /\ in_type (ty c) r = false
  | None => False
  end.
Proof. exact narrowing_refuted. Qed.
Print Assumptions C03_narrowing_refuted.

(* read from the source on every run: each integer type's entry points hand the value-range scan their own type tag (the range, hence every range-relative bound, is the type's own reading of the data) *)
Theorem C03_range_scan_type_tags : int_range_tags_ok = true.
Proof. exact int_range_tags_hold. Qed.
Print Assumptions C03_range_scan_type_tags.

Example C03_ex :
  let c := {| e := 2; cap := 32; shape := [2; 3]; ty := ity_of 7 |} in
  ctx_ok c /\ enc_int c [] [10; 13; 17; 11; 15; 100] = ([0; 17; 16; 16; 16; 0], [10; 100], [10; 14; 18; 10; 14; 100]).
Proof. split; [repeat split; vm_compute; congruence|vm_compute; reflexivity]. Qed.

(* exact ("unpredictable") values are stored as their offset from the array's minimum in the width computeByteSizePerIntValue (translated from
   the source on every run) chooses for the value range r = max - min: every value of the array comes back exactly, for every range *)
Theorem C03_exact_value_roundtrip : forall mn r v, 0 <= r < 2 ^ 63 -> mn <= v <= mn + r ->
  mn + from_be (to_be (exact_width r) (v - mn)) = v.
Proof. exact exact_value_roundtrip. Qed.
Print Assumptions C03_exact_value_roundtrip.

Example C03_exact_width_boundaries : c_computeByteSizePerIntValue 255 = 1 /\ c_computeByteSizePerIntValue 256 = 2 /\
  c_computeByteSizePerIntValue 65535 = 2 /\ c_computeByteSizePerIntValue 65536 = 4 /\
  c_computeByteSizePerIntValue 4294967295 = 4 /\ c_computeByteSizePerIntValue 4294967296 = 8.
Proof. exact exact_width_tight. Qed.
