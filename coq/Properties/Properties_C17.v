(* C17 — time-step compression keeps every step within bound for any step schedule. *)
From Coq Require Import ZArith List Bool Reals.
From Flocq Require Import IEEE754.Binary.
Import ListNotations.
Require Import SZV.Base.FloatOps SZV.Model.Quant SZV.Model.QuantFloat SZV.Model.TimeStep SZV.Model.TimeStepFloat
               SZV.Proofs.TimeStep_proofs SZV.Proofs.TimeStepFloat_proofs.
Local Open Scope Z_scope.

Section Generic.
  Variable V : Type.
  Variable zeroV : V.
  Variable sctx : Type.
  Variable spred : sctx -> list V -> V.
  Variable squant : sctx -> list V -> V -> V -> option (Z * V).
  Variable sdequant : sctx -> V -> Z -> V.
  Variable sexact : sctx -> V -> V.
  Variable tctx : Type.
  Variable tquant : tctx * list V -> list V -> V -> V -> option (Z * V).
  Variable tdequant : tctx * list V -> V -> Z -> V.
  Variable texact : tctx * list V -> V -> V.
  Hypothesis s_nonzero : forall c h p x q r, squant c h p x = Some (q, r) -> q <> 0.
  Hypothesis s_dequant : forall c h p x q r, squant c h p x = Some (q, r) -> sdequant c p q = r.
  Hypothesis t_nonzero : forall c h p x q r, tquant c h p x = Some (q, r) -> q <> 0.
  Hypothesis t_dequant : forall c h p x q r, tquant c h p x = Some (q, r) -> tdequant c p q = r.

  (* decoder history stays in lock-step with encoder history: for every sequence of steps, every schedule
     (snapshot / temporal per step) and every data- or size-dependent decision (tiny, constant, verbatim),
     for any pair of kernels meeting the two codec obligations *)
  Theorem C17_lockstep : forall (ss:list (step V sctx tctx)) hist,
    let '(ws, rs, hf) := enc_run V zeroV sctx spred squant sexact tctx tquant texact hist ss in
    dec_run V zeroV sctx spred sdequant tctx tdequant hist ws = Some (rs, hf).
  Proof. exact (ts_lockstep V zeroV sctx spred squant sdequant sexact tctx tquant tdequant texact s_nonzero s_dequant t_nonzero t_dequant). Qed.

  Variable oks : sctx -> V -> V -> Prop.
  Variable okt : tctx -> V -> V -> Prop.
  (* errors never accumulate: every decoded step is within that step's own bound of that step's data *)
  Theorem C17_decoded_within_bound : forall (ss:list (step V sctx tctx)) hist,
    Forall (step_ok V zeroV sctx squant sexact tctx tquant texact oks okt) ss ->
    let '(ws, _, _) := enc_run V zeroV sctx spred squant sexact tctx tquant texact hist ss in
    exists rs hf, dec_run V zeroV sctx spred sdequant tctx tdequant hist ws = Some (rs, hf) /\
                  Forall2 (fun s r => Forall2 (ok_step V sctx tctx oks okt s) (xs _ _ _ s) r) ss rs.
  Proof. exact (ts_decoded_within_bound V zeroV sctx spred squant sdequant sexact tctx tquant tdequant texact s_nonzero s_dequant t_nonzero t_dequant oks okt). Qed.
End Generic.
Print Assumptions C17_lockstep.
Print Assumptions C17_decoded_within_bound.

(* the float and double instances (Flocq arithmetic on bit patterns), obligations evaluated on the run *)
Theorem C17_float_lockstep : forall ss hist, fst (f_run_flags hist ss) = true ->
  let '(ws, rs, hf) := f_enc_run hist ss in f_dec_run hist ws = Some (rs, hf).
Proof. exact f_ts_checked_lockstep. Qed.
Print Assumptions C17_float_lockstep.

Theorem C17_double_lockstep : forall ss hist, fst (d_run_flags hist ss) = true ->
  let '(ws, rs, hf) := d_enc_run hist ss in d_dec_run hist ws = Some (rs, hf).
Proof. exact d_ts_checked_lockstep. Qed.
Print Assumptions C17_double_lockstep.

Theorem C17_float_bound : forall ss hist, snd (f_run_flags hist ss) = true ->
  let '(_, rs, _) := f_enc_run hist ss in
  Forall2 (fun sh r => Forall2 (fun x y => okb_step Z fctx ftctx f_ok ft_ok (snd sh) (fst sh) x y = true) (xs _ _ _ (fst sh)) r)
          (combine ss (hists Z 0 fctx fpred1 fquant1 fexact ftctx ft_quant ft_exact hist ss)) rs.
Proof. exact f_ts_checked_bound. Qed.
Print Assumptions C17_float_bound.

Theorem C17_double_bound : forall ss hist, snd (d_run_flags hist ss) = true ->
  let '(_, rs, _) := d_enc_run hist ss in
  Forall2 (fun sh r => Forall2 (fun x y => okb_step Z dctx dctx d_ok dt_ok (snd sh) (fst sh) x y = true) (xs _ _ _ (fst sh)) r)
          (combine ss (hists Z 0 dctx dpred1 dquant1 dexact dctx dt_quant dt_exact hist ss)) rs.
Proof. exact d_ts_checked_bound. Qed.
Print Assumptions C17_double_bound.

(* the temporal kernels only emit a code whose reconstruction passed the bound re-check *)
Theorem C17_float_temporal_recheck : forall c h p x q r, ft_quant c h p x = Some (q, r) -> ft_ok c x r = true.
Proof. exact ft_quant_ok. Qed.
Print Assumptions C17_float_temporal_recheck.
Theorem C17_double_temporal_recheck : forall c h p x q r, dt_quant c h p x = Some (q, r) -> dt_ok c x r = true.
Proof. exact dt_quant_ok. Qed.
Print Assumptions C17_double_temporal_recheck.

(* value-range protection: the value handed out (the reconstruction clamped to the step's own [min, max]; the history keeps the
   unclamped one) is at least as close to every element of the step's data -- in particular to the original it stands for -- as the
   reconstruction the step theorems bound *)
Theorem C17_double_protected_output_closer : forall data x r,
  Forall (fun y => Binary.is_finite 53 1024 (D y) = true) data -> In x data -> Binary.is_finite 53 1024 (D r) = true ->
  forall r', In r' (d_out1 data [r]) ->
  (Rabs (Binary.B2R 53 1024 (D x) - Binary.B2R 53 1024 (D r')) <= Rabs (Binary.B2R 53 1024 (D x) - Binary.B2R 53 1024 (D r)))%R.
Proof. exact d_out1_closer. Qed.
Print Assumptions C17_double_protected_output_closer.
Theorem C17_float_protected_output_closer : forall data x r,
  Forall (fun y => Binary.is_finite 24 128 (F y) = true) data -> In x data -> Binary.is_finite 24 128 (F r) = true ->
  forall r', In r' (f_out1 data [r]) ->
  (Rabs (Binary.B2R 24 128 (F x) - Binary.B2R 24 128 (F r')) <= Rabs (Binary.B2R 24 128 (F x) - Binary.B2R 24 128 (F r)))%R.
Proof. exact f_out1_closer. Qed.
Print Assumptions C17_float_protected_output_closer.

(* before the repair (87968a2) the lock-step statement was false: a verbatim temporal step followed by a temporal step *)
Theorem C17_old_verbatim_step_refuted :
  let '(ws, rs, hf) := f_enc_run_old (repeat 0 4) w_steps in
  exists rs' hf', f_dec_run_old (repeat 0 4) ws = Some (rs', hf') /\ rs' <> rs /\ hf' <> hf.
Proof. exact old_verbatim_step_diverges. Qed.

(* non-vacuity: a three-step run (snapshot, temporal, temporal) of four floats meets both flags *)
Example C17_ex :
  f_run_flags (repeat 0 4) (map fstep_of
    [ (false, false, false, false, 0x3f847ae147ae147b, 32, [0x3f800000; 0x3fc00000; 0x40000000; 0x3f800000]);
      (true, false, false, false, 0x3f847ae147ae147b, 32, [0x3f800000; 0x3fc00000; 0x40000000; 0x3f810000]);
      (true, false, false, false, 0x3f847ae147ae147b, 32, [0x3f810000; 0x3fc10000; 0x40010000; 0x3f800000]) ]) = (true, true).
Proof. vm_compute. reflexivity. Qed.
