(* C04 — compressed bytes are a deterministic function of data and settings.
   The model is a closed Gallina term of the data and the configuration; what can make the C output
   depend on anything else is a byte of the malloc'd output that is never assigned.  Proved here for
   the parameter block (the one serializer shared by every stream kind): every position is assigned.
   The byte-for-byte agreement of whole streams under different heap fill patterns and address-space
   layouts is checked on the implementation on every run. *)
From Coq Require Import ZArith List Bool.
Import ListNotations.
Require Import SZV.Base.Bytes SZV.Gen.SrcConsts SZV.Model.Header SZV.Proofs.Header_proofs.
Local Open Scope Z_scope.

Theorem C04_params_all_written : forall p, modes_ok (ebMode p) = true -> all_written (encode_params p) = true.
Proof. exact params_all_written. Qed.
Print Assumptions C04_params_all_written.

Theorem C04_params_length : forall p, modes_ok (ebMode p) = true ->
  Z.of_nat (length (encode_params p)) = if dataType p =? 0 then src_MetaDataByteLength else src_MetaDataByteLength_double.
Proof. exact params_length. Qed.
Print Assumptions C04_params_length.

(* a mode outside the writer's switch would leave bytes 6..13 unassigned: the hypothesis is needed *)
Theorem C04_unlisted_mode_refuted : exists p, modes_ok (ebMode p) = false /\ all_written (encode_params p) = false.
Proof.
  exists {| pb_optQuantMode := 1; dataEnd := 0; sysEnd := 0; pb_szMode := 1; pb_gzipMode := 3; pb_sampleDistance := 100; predThr := 9900; ebMode := 5; dataType := 0;
            absF := 0; relF := 0; psnrF := 0; pwrF := 0; solID := 101; maxQ := 65536; quantI := 0; fminB := 0; fmaxB := 0; dminB := 0; dmaxB := 0 |}.
  split; vm_compute; reflexivity.
Qed.
Print Assumptions C04_unlisted_mode_refuted.
