(* C05 — reconstruction is independent of earlier calls in the same process. *)
From Coq Require Import ZArith List Bool.
Import ListNotations.
Require Import SZV.Model.Api SZV.Proofs.Api_proofs.
Local Open Scope Z_scope.

(* for every history of compressions (explicit, defaults, SZ1.4 entry), decompressions, metadata
   queries and finalise/re-initialise cycles, everything the observed compression can read after its
   own writes equals what it reads in a freshly initialised library *)
Theorem C05_history_independent : forall c h w d, view (run h (init c)) w d = view (init c) w d.
Proof. exact history_independent. Qed.
Print Assumptions C05_history_independent.

Theorem C05_pair_history_independent : forall (Stream Recon Data:Type) (kernel : config * exe * call * Z -> Data -> Stream) (decoder : Stream -> Recon)
  c h w d x, decoder (kernel (view (run h (init c)) w d) x) = decoder (kernel (view (init c) w d) x).
Proof. exact pair_history_independent. Qed.
Print Assumptions C05_pair_history_independent.

Theorem C05_config_preserved : forall c h, cfg (run h (init c)) = c.
Proof. exact config_preserved. Qed.
Print Assumptions C05_config_preserved.

Theorem C05_defaults_preserved : forall c h, let s := run h (init c) in
  k_mode (scratch s) = c_mode c /\ k_abs (scratch s) = c_abs c /\ k_pwr (scratch s) = c_pwr c.
Proof. exact defaults_preserved. Qed.
Print Assumptions C05_defaults_preserved.

Theorem C05_exe_after_fixed_compress : forall c h w d ch, 0 < c_qi c ->
  ex (step (run h (init c)) (Compress w d ch)) = derive c 8.
Proof. exact exe_after_fixed_compress. Qed.
Print Assumptions C05_exe_after_fixed_compress.

(* the effect table rests on these facts read from the source on every run: configuration fields are
   written only by initialisation and (scratch fields) by the compression entry points, SZ_compress_args
   re-derives exe_params unconditionally and restores the configured defaults, the accelerate flag and
   the regression switch are restored on every return *)
Theorem C05_source_facts : source_facts_ok = true.
Proof. exact source_facts_hold. Qed.
Print Assumptions C05_source_facts.

(* the pre-repair behaviour did depend on the history, in three ways (replayed on the pre-repair code) *)
Theorem C05_old_exe_refuted :
  view_old (run_old [Compress (Explicit 0 1 0 0) (dat 7 true) 64; Decompress 0 1 64] (init cfg0)) (Explicit 0 1 0 0) (dat 0 false)
  <> view_old (init cfg0) (Explicit 0 1 0 0) (dat 0 false).
Proof. exact old_exe_history_dependent. Qed.
Theorem C05_old_defaults_refuted :
  view_old (run_old [Compress (Explicit 1 3 4 0) (dat 0 false) 64] (init cfg0)) Defaults (dat 0 false) <> view_old (init cfg0) Defaults (dat 0 false).
Proof. exact old_defaults_history_dependent. Qed.
Theorem C05_old_custom14_refuted :
  view_old (run_old [Compress Custom14 (dat 0 false) 64] (init cfg0)) Defaults (dat 0 false) <> view_old (init cfg0) Defaults (dat 0 false).
Proof. exact old_custom14_history_dependent. Qed.

(* the repaired tree still depends on the history in one way (listed finding threadsafe_leaves_bounds, replayed on the code by the
   check): the thread-safe customize entry leaves its own bounds in the configuration a later defaults compression reads *)
Theorem C05_threadsafe_leaves_bounds_refuted :
  view (step_ts (init cfg0) 0 500 0 0 (dat 0 false) 64) Defaults (dat 0 false) <> view (init cfg0) Defaults (dat 0 false).
Proof. exact threadsafe_leaves_bounds_history_dependent. Qed.
Print Assumptions C05_threadsafe_leaves_bounds_refuted.

Example C05_ex : ex (run [Compress Defaults (dat 7 true) 64; Decompress 0 1 64; Metadata 0] (init cfg0)) = {| optq := 1; x_cap := 64; x_rad := 32; szt := 8 |}
  /\ ex (run [Compress Custom14 (dat 7 true) 64; Decompress 0 1 64; Reinit] (init cfg0)) = derive cfg0 8.
Proof. split; vm_compute; reflexivity. Qed.
