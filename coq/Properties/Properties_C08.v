(* C08 — value-range protection keeps reconstructed values inside [min, max]. *)
From Coq Require Import ZArith Reals List Bool String.
From Flocq Require Import Core.Core IEEE754.BinarySingleNaN IEEE754.Binary IEEE754.Bits.
Import ListNotations.
Require Import SZV.Base.FloatOps SZV.Gen.SrcFacts SZV.Model.Clamp SZV.Proofs.Clamp_proofs.

(* the clamp of the decompressors puts every finite value into [min, max] (float and double) *)
Theorem C08_clamp32_in_range : forall lo hi v,
  is_finite 24 128 lo = true -> is_finite 24 128 hi = true -> is_finite 24 128 v = true -> fle lo hi = true ->
  in_range32 lo hi (clamp32 lo hi v) = true.
Proof. exact clamp32_in_range. Qed.
Print Assumptions C08_clamp32_in_range.

Theorem C08_clamp64_in_range : forall lo hi v,
  is_finite 53 1024 lo = true -> is_finite 53 1024 hi = true -> is_finite 53 1024 v = true -> dle lo hi = true ->
  in_range64 lo hi (clamp64 lo hi v) = true.
Proof. exact clamp64_in_range. Qed.
Print Assumptions C08_clamp64_in_range.

(* "in addition to satisfying the error bound": for an original x inside [min, max] the clamp never
   moves the reconstruction away from x, and rounding the difference in the element type is monotone *)
Theorem C08_clamp_closer : forall prec emax lo hi x v,
  is_finite prec emax lo = true -> is_finite prec emax hi = true -> is_finite prec emax v = true -> is_finite prec emax x = true ->
  ble prec emax lo x = true -> ble prec emax x hi = true ->
  (Rabs (B2R prec emax x - B2R prec emax (gclamp prec emax lo hi v)) <= Rabs (B2R prec emax x - B2R prec emax v))%R.
Proof. exact gclamp_closer. Qed.
Print Assumptions C08_clamp_closer.

Theorem C08_rounded_error_monotone : forall prec emax, FLX.Prec_gt_0 prec -> forall u v : R,
  (Rabs u <= Rabs v)%R ->
  (Rabs (round radix2 (FLT_exp (3 - emax - prec) prec) (round_mode mode_NE) u) <=
   Rabs (round radix2 (FLT_exp (3 - emax - prec) prec) (round_mode mode_NE) v))%R.
Proof. intros prec emax H. exact (rnd_abs_le prec emax H). Qed.
Print Assumptions C08_rounded_error_monotone.

(* obligations on the facts regenerated from the source on every run: every serializer reachable from
   SZ_compress_args sets flag bit 0x04 under protectValueRange, both readers decode it, both
   decompressor entries clamp *)
Theorem C08_flag_propagates :
  forallb snd src_protect_flag_writers = true /\ forallb snd src_protect_flag_readers = true /\ forallb snd src_clamp_sites = true
  /\ List.length src_protect_flag_writers = 3%nat /\ List.length src_protect_flag_readers = 2%nat /\ List.length src_clamp_sites = 2%nat.
Proof. repeat split; reflexivity. Qed.
Print Assumptions C08_flag_propagates.

Example C08_ex : in_range32 (F 0%Z) (F 0x3F800000%Z) (clamp32 (F 0%Z) (F 0x3F800000%Z) (F 0xBC23D70A%Z)) = true
  /\ Fb (clamp32 (F 0%Z) (F 0x3F800000%Z) (F 0xBC23D70A%Z)) = 0%Z.
Proof. split; vm_compute; reflexivity. Qed.
