(* C06 — stream metadata truthfully describes the stream.
   Proved: every field of the parameter block that the metadata query reports is decoded to the
   value the writer stored, for all ten element types and every bound mode the block can carry.
   The header walk of SZ_getMetadata (offsets of the size field per element type and stream kind) is
   modelled in Model/Header.v (get_metadata / header_bytes), proved below for every well-formed header
   (C06_header_walk) and compared with the implementation on every run. *)
From Coq Require Import ZArith List Bool.
Import ListNotations.
Require Import SZV.Base.Bytes SZV.Gen.SrcConsts SZV.Model.Header SZV.Proofs.Header_proofs.
Local Open Scope Z_scope.

Theorem C06_params_roundtrip : forall p, pblock_ok p = true -> decode_params (force (encode_params p)) = view_of p.
Proof. exact decode_encode_params. Qed.
Print Assumptions C06_params_roundtrip.

Theorem C06_params_length : forall p, modes_ok (ebMode p) = true ->
  Z.of_nat (length (encode_params p)) = if dataType p =? 0 then src_MetaDataByteLength else src_MetaDataByteLength_double.
Proof. exact params_length. Qed.
Print Assumptions C06_params_length.

(* the header walk: on the prefix the serialisers write -- version, flag byte, parameter block in its 28- or 36-byte
   field, exact-byte-size byte of regular integer streams, element count in 4 or 8 bytes -- followed by anything,
   SZ_getMetadata reports the constant and lossless flags, the size type, the element count and every parameter it
   shows exactly as written, for all ten element types and all stream kinds *)
Theorem C06_header_walk : forall h rest, header_ok h = true ->
  let m := get_metadata (header_bytes h ++ rest) in
  let p := h_params h in
  m_const m = h_const h /\ m_lossless m = h_lossless h /\ m_sizeType m = (if h_size8 h =? 1 then 8 else 4) /\ m_length m = h_length h /\
  v_dataType (m_view m) = dataType p /\ v_ebMode (m_view m) = ebMode p /\ v_szMode (m_view m) = pb_szMode p /\
  v_b6 (m_view m) = v_b6 (view_of p) /\ v_b10 (m_view m) = v_b10 (view_of p) /\ v_intervals (m_view m) = v_intervals (view_of p) /\
  v_optQuantMode (m_view m) = pb_optQuantMode p /\ v_sampleDistance (m_view m) = pb_sampleDistance p /\ v_predThr (m_view m) = predThr p /\
  v_sol (m_view m) = solID p.
Proof. exact get_metadata_header. Qed.
Print Assumptions C06_header_walk.

Definition ex_block : pblock :=
  {| pb_optQuantMode := 1; dataEnd := 0; sysEnd := 0; pb_szMode := 1; pb_gzipMode := 3; pb_sampleDistance := 100; predThr := 9900; ebMode := 0; dataType := 9;
     absF := 0x3a83126f; relF := 0; psnrF := 0; pwrF := 0; solID := 101; maxQ := 65536; quantI := 0; fminB := 0; fmaxB := 0;
     dminB := 0; dmaxB := 0x4059000000000000 |}.
(* regression example: element type 9 (SZ_INT64) used to come back as 1 (mask 0x17 / 0x07) *)
Example C06_ex : pblock_ok ex_block = true /\ v_dataType (decode_params (force (encode_params ex_block))) = 9
  /\ v_b6 (decode_params (force (encode_params ex_block))) = 0x3a83126f.
Proof. repeat split; vm_compute; reflexivity. Qed.
Example C06_ex_walk : header_ok {| h_const := 0; h_lossless := 0; h_size8 := 1; h_other := 0; h_params := ex_block; h_exactByteSize := 2; h_length := 4099 |} = true
  /\ m_length (get_metadata (header_bytes {| h_const := 0; h_lossless := 0; h_size8 := 1; h_other := 0; h_params := ex_block; h_exactByteSize := 2; h_length := 4099 |} ++ [7; 7; 7])) = 4099.
Proof. split; vm_compute; reflexivity. Qed.

(* integer streams (T2, regenerated from TightDataPointStorageI.c, sz.c and Huffman.c on every run): the metadata query reads the real
   number of intervals at the end of the fields written before the coded type array plus one word, for both size types *)
Theorem C06_meta_int_offset : meta_int_offset_checks = true.
Proof. exact meta_int_offset_ok. Qed.
Print Assumptions C06_meta_int_offset.
