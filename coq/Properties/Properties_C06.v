(* C06 — stream metadata truthfully describes the stream.
   Proved: every field of the parameter block that the metadata query reports is decoded to the
   value the writer stored, for all ten element types and every bound mode the block can carry.
   The header walk of SZ_getMetadata (offsets of the size field per element type and stream kind) is
   modelled in Model/Header.v (get_metadata / header_bytes) and compared with the implementation on
   every run; its offsets theorem is not yet proved (stated in DESIGN.md §9). *)
From Coq Require Import ZArith List Bool.
Import ListNotations.
Require Import SZV.Base.Bytes SZV.Gen.SrcConsts SZV.Model.Header SZV.Proofs.Header_proofs.
Local Open Scope Z_scope.

Theorem C06_params_roundtrip : forall p, pblock_ok p = true -> decode_params (force (encode_params p)) = view_of p.
Proof. exact decode_encode_params. Qed.
Print Assumptions C06_params_roundtrip.

Theorem C06_params_length : forall p, modes_ok (ebMode p) = true ->
  Z.of_nat (length (encode_params p)) = if dataType p =? 0 then src_MetaDataByteLength else src_MetaDataByteLength_double.
Proof. exact params_length. Qed.
Print Assumptions C06_params_length.

Definition ex_block : pblock :=
  {| pb_optQuantMode := 1; dataEnd := 0; sysEnd := 0; pb_szMode := 1; pb_gzipMode := 3; pb_sampleDistance := 100; predThr := 9900; ebMode := 0; dataType := 9;
     absF := 0x3a83126f; relF := 0; psnrF := 0; pwrF := 0; solID := 101; maxQ := 65536; quantI := 0; fminB := 0; fmaxB := 0;
     dminB := 0; dmaxB := 0x4059000000000000 |}.
(* regression example: element type 9 (SZ_INT64) used to come back as 1 (mask 0x17 / 0x07) *)
Example C06_ex : pblock_ok ex_block = true /\ v_dataType (decode_params (force (encode_params ex_block))) = 9
  /\ v_b6 (decode_params (force (encode_params ex_block))) = 0x3a83126f.
Proof. repeat split; vm_compute; reflexivity. Qed.
