(* C10 — valid use is memory-safe and leak-free (the allocation-ledger half; the access-safety half is run-time). *)
From Coq Require Import ZArith List Bool.
Import ListNotations.
Require Import SZV.Model.Ledger SZV.Proofs.Ledger_proofs SZV.Model.RawCopy SZV.Proofs.RawCopy_proofs.
Local Open Scope Z_scope.

(* no per-call growth: after any history of calls the library owns at most its three parameter blocks *)
Theorem C10_lib_live_bounded : forall h s, 0 <= lib_live (lrun h s) <= 3.
Proof. exact lib_live_bounded. Qed.
Print Assumptions C10_lib_live_bounded.

(* once the caller has freed the returned buffers and finalised, no allocation remains live *)
Theorem C10_balanced : forall h s, 0 <= caller (lrun h s) ->
  total_live (lrun (h ++ repeat LCallerFree (Z.to_nat (caller (lrun h s))) ++ [LFinalize]) s) = 0.
Proof. exact balanced. Qed.
Print Assumptions C10_balanced.

(* the raw-copy fall-back writes its record into the block of the stream it replaces: behind the guard the code has, the write stays inside *)
Theorem C10_rawcopy_in_place : forall strict stream block meta szt w n,
  stream <= block -> guard strict stream meta szt w n = true -> record_size meta szt w n <= block.
Proof. exact guarded_write_fits. Qed.
Print Assumptions C10_rawcopy_in_place.

(* ... and behind a comparison with the raw data alone it does not *)
Theorem C10_rawcopy_raw_only_guard_refuted : exists stream meta szt w n,
  guard_raw_only stream w n = true /\ stream < record_size meta szt w n.
Proof. exact raw_only_guard_refuted. Qed.
Print Assumptions C10_rawcopy_raw_only_guard_refuted.

(* every call site has the guard of the theorem (or a malloc of the record size right before it); read from the source on every run *)
Theorem C10_rawcopy_source_facts : rawcopy_sites_ok = true.
Proof. exact rawcopy_sites_hold. Qed.
Print Assumptions C10_rawcopy_source_facts.

Example C10_ex : ledger_trace [0; 1; 2; 3; 4; 4; 4; 4; 0; 1; 5] = [2; 2; 3; 3; 3; 3; 3; 3; 3; 3; 0]
  /\ total_live (lrun [LInit; LCompress; LDecompress; LMetadata; LCallerFree; LCallerFree; LCallerFree; LCallerFree; LFinalize] l0) = 0.
Proof. split; vm_compute; reflexivity. Qed.
Example C10_ex_rawcopy : guard true 130 28 8 4 21 = true /\ guard false 124 28 8 4 21 = true /\ guard true 124 28 8 4 21 = false.
Proof. repeat split; vm_compute; reflexivity. Qed.
