(* C10 — valid use is memory-safe and leak-free (the allocation-ledger half; the access-safety half is run-time). *)
From Coq Require Import ZArith List Bool.
Import ListNotations.
Require Import SZV.Model.Ledger SZV.Proofs.Ledger_proofs.
Local Open Scope Z_scope.

(* no per-call growth: after any history of calls the library owns at most its three parameter blocks *)
Theorem C10_lib_live_bounded : forall h s, 0 <= lib_live (lrun h s) <= 3.
Proof. exact lib_live_bounded. Qed.
Print Assumptions C10_lib_live_bounded.

(* once the caller has freed the returned buffers and finalised, no allocation remains live *)
Theorem C10_balanced : forall h s, 0 <= caller (lrun h s) ->
  total_live (lrun (h ++ repeat LCallerFree (Z.to_nat (caller (lrun h s))) ++ [LFinalize]) s) = 0.
Proof. exact balanced. Qed.
Print Assumptions C10_balanced.

Example C10_ex : ledger_trace [0; 1; 2; 3; 4; 4; 4; 4; 0; 1; 5] = [2; 2; 3; 3; 3; 3; 3; 3; 3; 3; 0]
  /\ total_live (lrun [LInit; LCompress; LDecompress; LMetadata; LCallerFree; LCallerFree; LCallerFree; LCallerFree; LFinalize] l0) = 0.
Proof. split; vm_compute; reflexivity. Qed.
