(* C09 — any shape round-trips: size-1 dimensions, tiny arrays, 5-D refused cleanly.
   The statements are about the definitions generated from sz.c by tools/c2gallina.py
   (Gen/SrcFuns.v: c_computeDimension, c_computeDataLength, c_filterDimension); Model/Dims.v
   only adds the specification vocabulary. *)
From Coq Require Import ZArith List Bool.
Import ListNotations.
Require Import SZV.Base.CSem SZV.Gen.SrcFuns SZV.Model.Dims SZV.Proofs.Dims_proofs SZV.Proofs.Dims_corollaries.
Require Import SZV.Model.Consistency SZV.Proofs.Consistency_proofs.
Local Open Scope Z_scope.

(* The filter applied by SZ_compress_args and SZ_decompress removes exactly the size-1 dimensions,
   in any position, keeps the order of the others, maps an all-ones shape to (1), and returns a
   well-formed tuple. *)
Theorem C09_filter_squeezes : forall r5 r4 r3 r2 r1, wf r5 r4 r3 r2 r1 ->
  let '(f5, f4, f3, f2, f1) := filtered r5 r4 r3 r2 r1 in
  dims_of f5 f4 f3 f2 f1 = canon (dims_of r5 r4 r3 r2 r1) /\ wf f5 f4 f3 f2 f1.
Proof. exact filter_squeezes. Qed.
Print Assumptions C09_filter_squeezes.

(* exactly N elements: the kernels are dispatched on a tuple with the same product *)
Theorem C09_filter_preserves_length : forall r5 r4 r3 r2 r1, wf r5 r4 r3 r2 r1 ->
  dispatch_len r5 r4 r3 r2 r1 = c_computeDataLength r5 r4 r3 r2 r1.
Proof. exact filter_preserves_length. Qed.
Print Assumptions C09_filter_preserves_length.

Theorem C09_length_is_product : forall r5 r4 r3 r2 r1, wf r5 r4 r3 r2 r1 ->
  c_computeDataLength r5 r4 r3 r2 r1 = product (dims_of r5 r4 r3 r2 r1).
Proof. exact cdl_product. Qed.
Print Assumptions C09_length_is_product.

(* compressed with size-1 dimensions written out, decompressed with them omitted (or vice versa):
   both sides are dispatched on the same filtered tuple *)
Theorem C09_squeeze_equivalence : forall r5 r4 r3 r2 r1 s5 s4 s3 s2 s1,
  wf r5 r4 r3 r2 r1 -> wf s5 s4 s3 s2 s1 ->
  squeeze (dims_of r5 r4 r3 r2 r1) = squeeze (dims_of s5 s4 s3 s2 s1) ->
  filtered r5 r4 r3 r2 r1 = filtered s5 s4 s3 s2 s1.
Proof. exact squeeze_equivalence. Qed.
Print Assumptions C09_squeeze_equivalence.

Theorem C09_filter_idempotent : forall r5 r4 r3 r2 r1, wf r5 r4 r3 r2 r1 ->
  let '(f5, f4, f3, f2, f1) := filtered r5 r4 r3 r2 r1 in filtered f5 f4 f3 f2 f1 = (f5, f4, f3, f2, f1).
Proof. exact filter_idempotent. Qed.
Print Assumptions C09_filter_idempotent.

(* the dimension seen by the dispatch is the number of dimensions of size >= 2 (1 for all-ones) *)
Theorem C09_dispatch_dimension : forall r5 r4 r3 r2 r1, wf r5 r4 r3 r2 r1 ->
  dispatch_dim r5 r4 r3 r2 r1 = Z.of_nat (length (canon (dims_of r5 r4 r3 r2 r1))).
Proof. exact dispatch_dim_is_canon_length. Qed.
Print Assumptions C09_dispatch_dimension.

(* only a genuinely five-dimensional request reaches the (refusing) 5-D branch *)
Theorem C09_five_d_only_if_genuine : forall r5 r4 r3 r2 r1, wf r5 r4 r3 r2 r1 ->
  dispatch_dim r5 r4 r3 r2 r1 = 5 -> 2 <= r1 /\ 2 <= r2 /\ 2 <= r3 /\ 2 <= r4 /\ 2 <= r5.
Proof. exact five_d_only_if_genuine. Qed.
Print Assumptions C09_five_d_only_if_genuine.

(* non-vacuity and regression examples (the second was refuted before the fix of filterDimension:
   (1,1) used to filter to the empty shape) *)
(* read from the source on every run: every block offset of the regression kernels is written with one dimension letter and its loop counter throughout (86 sites in the float/double compressors and decompressors) *)
Theorem C09_block_offsets_consistent : block_offsets_ok = true.
Proof. exact block_offsets_hold. Qed.
Print Assumptions C09_block_offsets_consistent.

Example C09_ex_wf : wf 1 3 1 4 1 /\ filtered 1 3 1 4 1 = (0, 0, 0, 3, 4) /\ dispatch_len 1 3 1 4 1 = 12.
Proof. repeat split; try (vm_compute; congruence); vm_compute; reflexivity. Qed.
Example C09_ex_all_ones : wf 0 0 0 1 1 /\ filtered 0 0 0 1 1 = (0, 0, 0, 0, 1) /\ dispatch_len 0 0 0 1 1 = 1.
Proof. repeat split; try (vm_compute; congruence); vm_compute; reflexivity. Qed.
