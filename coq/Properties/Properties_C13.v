(* C13 — byte-order and bit-packing codecs are exact inverses for all values and lengths.
   Only property statements here; each is closed by [exact <lemma>] and followed by
   [Print Assumptions]. *)
From Coq Require Import ZArith List Bool.
Import ListNotations.
Require Import SZV.Base.Bytes SZV.Base.BitPack SZV.Proofs.Bytes_proofs SZV.Proofs.BitPack_proofs.
Require SZV.Gen.SrcFacts SZV.Model.InlineUnpack SZV.Proofs.InlineUnpack_proofs.
Local Open Scope Z_scope.

(* 16/32/64-bit big-endian writers and readers: w = 2, 4, 8 (and any other width) *)
Theorem C13_be_read_write : forall (w:nat) (v:Z), 0 <= v < 256 ^ Z.of_nat w -> from_be (to_be w v) = v.
Proof. exact from_be_to_be. Qed.
Print Assumptions C13_be_read_write.

Theorem C13_be_write_read : forall bs, Forall is_byte bs -> to_be (length bs) (from_be bs) = bs.
Proof. exact to_be_from_be. Qed.
Print Assumptions C13_be_write_read.

Theorem C13_be_signed : forall (w:nat) (s:Z), (0 < w)%nat ->
  - (256 ^ Z.of_nat w / 2) <= s < 256 ^ Z.of_nat w / 2 ->
  to_signed w (from_be (to_be w (to_unsigned w s))) = s.
Proof. exact signed_roundtrip. Qed.
Print Assumptions C13_be_signed.

(* float (w = 4) and double (w = 8) under both sysEndianType values, every bit pattern *)
Theorem C13_fp_roundtrip : forall (w:nat) sysEnd bits,
  0 <= bits < 256 ^ Z.of_nat w -> bytes_to_fp sysEnd (fp_to_bytes w sysEnd bits) = bits.
Proof. exact fp_roundtrip. Qed.
Print Assumptions C13_fp_roundtrip.

Theorem C13_fp_roundtrip_bytes : forall sysEnd bs,
  Forall is_byte bs -> fp_to_bytes (length bs) sysEnd (bytes_to_fp sysEnd bs) = bs.
Proof. exact fp_roundtrip_bytes. Qed.
Print Assumptions C13_fp_roundtrip_bytes.

Theorem C13_swap_involutive : forall bs, sym_transform (sym_transform bs) = bs.
Proof. exact sym_transform_involutive. Qed.
Print Assumptions C13_swap_involutive.

(* element arrays under both (sysEndianType, dataEndianType) settings *)
Theorem C13_array_roundtrip : forall (w:nat) sysEnd dataEnd l,
  (0 < w)%nat -> Forall (fun u => 0 <= u < 256 ^ Z.of_nat w) l ->
  bytes_to_array w sysEnd dataEnd (array_to_bytes w sysEnd dataEnd l) = l.
Proof. exact array_roundtrip. Qed.
Print Assumptions C13_array_roundtrip.

(* size fields, SZ_SIZE_TYPE = 8 and 4, the whole range of the field *)
Theorem C13_size8 : forall n, 0 <= n < 2 ^ 64 -> bytes_to_size 8 (size_to_bytes 8 n) = n.
Proof. exact size_roundtrip8. Qed.
Print Assumptions C13_size8.

Theorem C13_size4 : forall n, 0 <= n < 2 ^ 32 -> bytes_to_size 4 (size_to_bytes 4 n) = n.
Proof. exact size_roundtrip4. Qed.
Print Assumptions C13_size4.

(* bit packers: width k = 1, 2, 3 (fixed packers) and 0..8 (dynamic), every length *)
Theorem C13_unpack_pack : forall (k:nat) l, (k <= 8)%nat ->
  Forall (fun v => 0 <= v < 2 ^ Z.of_nat k) l -> unpack k (length l) (pack k l) = l.
Proof. exact unpack_pack. Qed.
Print Assumptions C13_unpack_pack.

Theorem C13_unpack_pack_prefix : forall (k:nat) l extra, (k <= 8)%nat ->
  Forall (fun v => 0 <= v < 2 ^ Z.of_nat k) l -> unpack k (length l) (pack k l ++ extra) = l.
Proof. exact unpack_pack_prefix. Qed.
Print Assumptions C13_unpack_pack_prefix.

Theorem C13_pack_length : forall (k:nat) l, length (pack k l) = packed_len k (length l).
Proof. exact pack_length. Qed.
Print Assumptions C13_pack_length.

(* non-vacuity: concrete non-trivial instances meet the hypotheses *)
Example C13_ex_be : from_be (to_be 8 0xFEDCBA9876543210) = 0xFEDCBA9876543210 /\ 0 <= 0xFEDCBA9876543210 < 256 ^ Z.of_nat 8.
Proof. split; [reflexivity|split; [discriminate|reflexivity]]. Qed.
Example C13_ex_pack : unpack 3 11 (pack 3 [1;7;0;5;2;3;6;4;7;7;1]) = [1;7;0;5;2;3;6;4;7;7;1]
  /\ pack 3 [1;7;0;5;2;3;6;4;7;7;1] = [0x3C; 0x54; 0xF4; 0xFC; 0x80].
Proof. split; reflexivity. Qed.

(* the unpacker of the residual bits that every decompressor carries inline (114 sites of one form, counted from the source on every
   run; the mask helpers it calls are translated from ByteToolkit.c): w bits from bit k of a byte, possibly running into the next byte,
   are exactly those bits, and the byte cursor advances exactly when the field reaches the byte's end *)
Theorem C13_inline_unpacker : forall k w b0 b1, 0 <= k < 8 -> 1 <= w < 8 -> 0 <= b0 < 256 -> 0 <= b1 < 256 ->
  SZV.Model.InlineUnpack.inline_extract k w b0 b1 = SZV.Model.InlineUnpack.spec_extract k w b0 b1 /\
  SZV.Model.InlineUnpack.inline_advance k w = (if k + w <? 8 then 0 else 1).
Proof. exact SZV.Proofs.InlineUnpack_proofs.inline_extract_correct. Qed.
Print Assumptions C13_inline_unpacker.
Theorem C13_inline_unpacker_sites :
  (SZV.Gen.SrcFacts.src_inline_unpack_sites =? SZV.Gen.SrcFacts.src_inline_unpack_exact) && (0 <? SZV.Gen.SrcFacts.src_inline_unpack_sites) = true.
Proof. exact SZV.Proofs.InlineUnpack_proofs.inline_sites_ok. Qed.
Print Assumptions C13_inline_unpacker_sites.
