(* C01 — float/double reconstruction stays within the requested bound.
   Generic theorems (Model/Quant.v) instantiated with the SZ-1.4 1-D kernels over Flocq arithmetic.
   Statement discipline: each of the three obligations of a kernel is either proved for all inputs,
   or evaluated by the model on the run (theorems "..._checked"), or refuted with a witness. *)
From Coq Require Import ZArith List Bool Reals.
From Flocq Require Import IEEE754.Binary.
Import ListNotations.
Require Import SZV.Base.FloatOps SZV.Model.Quant SZV.Model.QuantFloat SZV.Model.QuantFloat2 SZV.Model.QuantFloat3 SZV.Proofs.Quant_proofs SZV.Proofs.QuantFloat_proofs SZV.Proofs.QuantFloat2_proofs SZV.Proofs.QuantFloatNz_proofs SZV.Proofs.QuantFloat3_proofs.
Require Import SZV.Model.Consistency SZV.Proofs.Consistency_proofs.
Local Open Scope Z_scope.

(* generic: lock-step and bound from the three obligations (any value type, predictor, quantiser) *)
Theorem C01_generic_lockstep : forall V ctx pred quant dequant exact,
  (forall c h p x q r, quant c h p x = Some (q, r) -> q <> 0) ->
  (forall c h p x q r, quant c h p x = Some (q, r) -> dequant c p q = r) ->
  forall (c:ctx) (xs h:list V), let '(qs, es, rs) := enc V ctx pred quant exact c h xs in dec V ctx pred dequant c h qs es = Some rs.
Proof. exact lockstep. Qed.
Print Assumptions C01_generic_lockstep.

Theorem C01_generic_within_bound : forall V ctx pred quant exact (ok:ctx -> V -> V -> Prop) c xs h,
  (forall h p x q r, quant c h p x = Some (q, r) -> ok c x r) -> (forall x, In x xs -> ok c x (exact c x)) ->
  let '(_, _, rs) := enc V ctx pred quant exact c h xs in Forall2 (ok c) xs rs.
Proof. exact within_bound. Qed.
Print Assumptions C01_generic_within_bound.

(* float 1-D and (after the repair) double 1-D: the re-check makes "predicted elements are within the bound" hold on every input,
   and a predicted element never gets the code 0 (the marker of an exactly stored one) *)
Theorem C01_float1d_recheck : forall c h p x q r, fquant1 c h p x = Some (q, r) -> f_ok c x r = true.
Proof. exact fquant1_ok. Qed.
Print Assumptions C01_float1d_recheck.
Theorem C01_double1d_recheck : forall c h p x q r, dquant1 c h p x = Some (q, r) -> d_ok c x r = true.
Proof. exact dquant1_ok. Qed.
Print Assumptions C01_double1d_recheck.
Theorem C01_float1d_code_nonzero : forall c h p x q r, fquant1 c h p x = Some (q, r) -> q <> 0.
Proof. exact fquant1_nonzero. Qed.
Print Assumptions C01_float1d_code_nonzero.
Theorem C01_double1d_code_nonzero : forall c h p x q r, dquant1 c h p x = Some (q, r) -> q <> 0.
Proof. exact dquant1_nonzero. Qed.
Print Assumptions C01_double1d_code_nonzero.

(* the decoder's pred + (code - radius) * interval reproduces the encoder's reconstruction bit for bit on every input: identical
   expressions above the prediction; below it p - s*I against p + (-s)*I, equal by the symmetry of round-to-nearest-even under negation
   (proved over Flocq's definitions for all p, I, s <> 0).  Left out: a NaN result, and s = 0 below the prediction (p = -0 gives -0/+0) *)
Theorem C01_float1d_mirror : forall c h p x q r, fquant1 c h p x = Some (q, r) ->
  Binary.is_nan 24 128 (F r) = false -> (q <> fradius c \/ fge (F x) (F p) = true) -> fdequant1 c p q = r.
Proof. exact fquant1_mirror. Qed.
Print Assumptions C01_float1d_mirror.
Theorem C01_double1d_mirror : forall c h p x q r, dquant1 c h p x = Some (q, r) ->
  Binary.is_nan 53 1024 (D r) = false -> (q <> dradius c \/ dge (D x) (D p) = true) -> ddequant1 c p q = r.
Proof. exact dquant1_mirror. Qed.
Print Assumptions C01_double1d_mirror.

(* whole runs: decoder = encoder reconstruction whenever the evaluated mirror check passes (the code <> 0 check is static now) *)
Theorem C01_float1d_lockstep_checked : forall c xs h,
  let '(nz, mir, _, _) := fchecks1 c h xs in
  nz = true -> mir = true -> let '(qs, es, rs) := fenc1 c h xs in fdec1 c h qs es = Some rs.
Proof. exact f1d_lockstep. Qed.
Print Assumptions C01_float1d_lockstep_checked.
Theorem C01_float1d_nz_static : forall c xs h, let '(nz, _, _, _) := fchecks1 c h xs in nz = true.
Proof. exact fchecks1_nz. Qed.
Print Assumptions C01_float1d_nz_static.

(* every element within the bound whenever the exactly stored values are (truncation check) *)
Theorem C01_float1d_bound_partial : forall c xs h,
  let '(_, _, _, ex) := fchecks1 c h xs in
  ex = true -> let '(_, _, rs) := fenc1 c h xs in Forall2 (fun x r => f_ok c x r = true) xs rs.
Proof. exact f1d_bound. Qed.
Print Assumptions C01_float1d_bound_partial.

Theorem C01_double1d_lockstep_checked : forall c xs h,
  let '(nz, mir, _, _) := dchecks1 c h xs in
  nz = true -> mir = true -> let '(qs, es, rs) := denc1 c h xs in ddec1 c h qs es = Some rs.
Proof. exact d1d_lockstep. Qed.
Print Assumptions C01_double1d_lockstep_checked.
Theorem C01_double1d_nz_static : forall c xs h, let '(nz, _, _, _) := dchecks1 c h xs in nz = true.
Proof. exact dchecks1_nz. Qed.
Print Assumptions C01_double1d_nz_static.

Theorem C01_double1d_bound_partial : forall c xs h,
  let '(_, _, _, ex) := dchecks1 c h xs in
  ex = true -> let '(_, _, rs) := denc1 c h xs in Forall2 (fun x r => d_ok c x r = true) xs rs.
Proof. exact d1d_bound. Qed.
Print Assumptions C01_double1d_bound_partial.

(* float 2-D (SZ_compress_float_2D_MDQ / decompressDataSeries_float_2D, Lorenzo stencil over the raster-order history): for every
   input a code is only emitted after the re-check, and the decoder evaluates the very expression the encoder stored *)
Theorem C01_float2d_recheck : forall c h p x q r, fquant2 c h p x = Some (q, r) -> f_ok2 c x r = true.
Proof. exact fquant2_ok. Qed.
Print Assumptions C01_float2d_recheck.
Theorem C01_float2d_mirror : forall c h p x q r, fquant2 c h p x = Some (q, r) -> fdequant2 c p q = r.
Proof. exact fquant2_mirror. Qed.
Print Assumptions C01_float2d_mirror.
Theorem C01_float2d_lockstep_checked : forall c xs h,
  let '(nz, _, _, _) := fchecks2 c h xs in
  nz = true -> let '(qs, es, rs) := fenc2 c h xs in fdec2 c h qs es = Some rs.
Proof. exact f2d_lockstep. Qed.
Print Assumptions C01_float2d_lockstep_checked.
Theorem C01_float2d_bound_partial : forall c xs h,
  let '(_, _, _, ex) := fchecks2 c h xs in
  ex = true -> let '(_, _, rs) := fenc2 c h xs in Forall2 (fun x r => f_ok2 c x r = true) xs rs.
Proof. exact f2d_bound. Qed.
Print Assumptions C01_float2d_bound_partial.

(* float 3-D (SZ_compress_float_3D_MDQ / decompressDataSeries_float_3D): the 2-D kernel's quantiser under the seven-point stencil *)
Theorem C01_float3d_recheck : forall c h p x q r, fquant3 c h p x = Some (q, r) -> f_ok3 c x r = true.
Proof. exact fquant3_ok. Qed.
Print Assumptions C01_float3d_recheck.
Theorem C01_float3d_mirror : forall c h p x q r, fquant3 c h p x = Some (q, r) -> fdequant3 c p q = r.
Proof. exact fquant3_mirror. Qed.
Print Assumptions C01_float3d_mirror.
Theorem C01_float3d_lockstep_checked : forall c xs h,
  let '(nz, _, _, _) := fchecks3 c h xs in
  nz = true -> let '(qs, es, rs) := fenc3 c h xs in fdec3 c h qs es = Some rs.
Proof. exact f3d_lockstep. Qed.
Print Assumptions C01_float3d_lockstep_checked.
Theorem C01_float3d_bound_partial : forall c xs h,
  let '(_, _, _, ex) := fchecks3 c h xs in
  ex = true -> let '(_, _, rs) := fenc3 c h xs in Forall2 (fun x r => f_ok3 c x r = true) xs rs.
Proof. exact f3d_bound. Qed.
Print Assumptions C01_float3d_bound_partial.

(* float 2-D / 3-D: the code is never 0 either (for contexts with 2 .. 2^24 intervals and a non-negative 1/e, a decidable condition that
   every context built from a positive bound meets), so the decoder reproduces the encoder's reconstructions on EVERY input -- no evaluated
   flag is left in the lock-step statement of these two kernels *)
Theorem C01_float2d_code_nonzero : forall c h p x q r,
  (1 <= fradius (fc c)) -> (2 * fradius (fc c) < 2 ^ 24) -> (0 <= Binary.B2R 24 128 (frecip (fc c)))%R ->
  fquant2 c h p x = Some (q, r) -> q <> 0.
Proof. exact SZV.Proofs.QuantFloatNz_proofs.fquant2_nonzero. Qed.
Print Assumptions C01_float2d_code_nonzero.
Theorem C01_float2d_lockstep : forall c xs h, ctx_ok2 (fc c) -> let '(qs, es, rs) := fenc2 c h xs in fdec2 c h qs es = Some rs.
Proof. exact f2d_lockstep_all. Qed.
Print Assumptions C01_float2d_lockstep.
Theorem C01_float3d_lockstep : forall c xs h, ctx_ok2 (fc (f2 c)) -> let '(qs, es, rs) := fenc3 c h xs in fdec3 c h qs es = Some rs.
Proof. exact f3d_lockstep_all. Qed.
Print Assumptions C01_float3d_lockstep.
Theorem C01_ctx_ok_decidable : forall c, ctx_ok2b c = true -> ctx_ok2 c.
Proof. exact ctx_ok2b_ok. Qed.
Print Assumptions C01_ctx_ok_decidable.

(* before the repair the double 1-D kernel had no re-check; pred + 2ke rounds away from the value
   (data 0, 0, 0.5, e = 0.1: reconstruction 0.6000000000000001, error 0.10000000000000009 > 0.1) *)
Theorem C01_double1d_no_recheck_refuted : exists e iv xs,
  let c := dctx_of e iv xs in let '(_, _, o, _) := dchecks1_old c [] xs in o = false.
Proof. exists 0x3FB999999999999A, 65536, [0; 0; 0x3FE0000000000000; 0x3FF0000000000000; 0x3FF0000000000000]. vm_compute. reflexivity. Qed.
Print Assumptions C01_double1d_no_recheck_refuted.

(* before the repair, at the checkRadius edge the float 1-D kernel emitted code 0 ("unpredictable") for a
   predicted element: the decoder then consumed an exact value that was never stored *)
Theorem C01_float1d_code_zero_refuted : exists e iv xs,
  let c := fctx_of e iv xs in let '(nz, _, _, _) := fchecks1_old c [] xs in nz = false.
Proof. exists 0x3feabb9740000000, 128, [0x4639c2f4; 0x4639c2f4; 0x46381b1e; 0x4639c2f4; 0x4a371b00]. vm_compute. reflexivity. Qed.
Print Assumptions C01_float1d_code_zero_refuted.

(* non-vacuity: a run on which every check passes *)
(* read from the source on every run: the double compressor/decompressor files never use the float header length, nor the float files the double one (a verbatim double stream read at the float offset comes back shifted by one element) *)
Theorem C01_header_constants_by_type : header_constants_ok = true.
Proof. exact header_constants_hold. Qed.
Print Assumptions C01_header_constants_by_type.

Example C01_ex : let xs := [0x3F800000; 0x3F8CCCCD; 0x3F99999A; 0x40000000; 0x3FA66666] in
  let c := fctx_of 0x3FA999999999999A 32 xs in fchecks1 c [] xs = (true, true, true, true).
Proof. vm_compute. reflexivity. Qed.
Example C01_ex2 : let xs := [0x3F800000; 0x3F8CCCCD; 0x3F99999A; 0x40000000; 0x3FA66666; 0x3F800000] in
  let c := {| fc := fctx_of 0x3FA999999999999A 32 xs; frow := 3%nat |} in fchecks2 c [] xs = (true, true, true, true).
Proof. vm_compute. reflexivity. Qed.
(* the context of that run meets the hypothesis of the unconditional lock-step theorems *)
Example C01_ex3 : let xs := [0x3F800000; 0x3F8CCCCD; 0x3F99999A; 0x40000000; 0x3FA66666; 0x3F800000] in
  ctx_ok2b (fctx_of 0x3FA999999999999A 32 xs) = true.
Proof. vm_compute. reflexivity. Qed.
