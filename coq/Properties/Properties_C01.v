(* C01 — float/double reconstruction stays within the requested bound.
   Generic theorems (Model/Quant.v) instantiated with the SZ-1.4 1-D kernels over Flocq arithmetic.
   Statement discipline: each of the three obligations of a kernel is either proved for all inputs,
   or evaluated by the model on the run (theorems "..._checked"), or refuted with a witness. *)
From Coq Require Import ZArith List Bool.
Import ListNotations.
Require Import SZV.Base.FloatOps SZV.Model.Quant SZV.Model.QuantFloat SZV.Proofs.Quant_proofs SZV.Proofs.QuantFloat_proofs.
Local Open Scope Z_scope.

(* generic: lock-step and bound from the three obligations (any value type, predictor, quantiser) *)
Theorem C01_generic_lockstep : forall V ctx pred quant dequant exact,
  (forall c h p x q r, quant c h p x = Some (q, r) -> q <> 0) ->
  (forall c h p x q r, quant c h p x = Some (q, r) -> dequant c p q = r) ->
  forall (c:ctx) (xs h:list V), let '(qs, es, rs) := enc V ctx pred quant exact c h xs in dec V ctx pred dequant c h qs es = Some rs.
Proof. exact lockstep. Qed.
Print Assumptions C01_generic_lockstep.

Theorem C01_generic_within_bound : forall V ctx pred quant exact (ok:ctx -> V -> V -> Prop) c xs h,
  (forall h p x q r, quant c h p x = Some (q, r) -> ok c x r) -> (forall x, In x xs -> ok c x (exact c x)) ->
  let '(_, _, rs) := enc V ctx pred quant exact c h xs in Forall2 (ok c) xs rs.
Proof. exact within_bound. Qed.
Print Assumptions C01_generic_within_bound.

(* float 1-D: the re-check makes "predicted elements are within the bound" hold on every input *)
Theorem C01_float1d_recheck : forall c h p x q r, fquant1 c h p x = Some (q, r) -> f_ok c x r = true.
Proof. exact fquant1_ok. Qed.
Print Assumptions C01_float1d_recheck.

(* float 1-D: decoder = encoder reconstruction whenever the evaluated checks (code != 0, mirror) pass *)
Theorem C01_float1d_lockstep_checked : forall c xs h,
  let '(nz, mir, _, _) := fchecks1 c h xs in
  nz = true -> mir = true -> let '(qs, es, rs) := fenc1 c h xs in fdec1 c h qs es = Some rs.
Proof. exact f1d_lockstep. Qed.
Print Assumptions C01_float1d_lockstep_checked.

(* float 1-D: every element within the bound whenever the exactly stored values are (truncation check) *)
Theorem C01_float1d_bound_partial : forall c xs h,
  let '(_, _, _, ex) := fchecks1 c h xs in
  ex = true -> let '(_, _, rs) := fenc1 c h xs in Forall2 (fun x r => f_ok c x r = true) xs rs.
Proof. exact f1d_bound. Qed.
Print Assumptions C01_float1d_bound_partial.

Theorem C01_double1d_lockstep_checked : forall c xs h,
  let '(nz, mir, _, _) := dchecks1 c h xs in
  nz = true -> mir = true -> let '(qs, es, rs) := denc1 c h xs in ddec1 c h qs es = Some rs.
Proof. exact d1d_lockstep. Qed.
Print Assumptions C01_double1d_lockstep_checked.

Theorem C01_double1d_bound_checked : forall c xs h,
  let '(_, _, o, ex) := dchecks1 c h xs in
  o = true -> ex = true -> let '(_, _, rs) := denc1 c h xs in Forall2 (fun x r => d_ok c x r = true) xs rs.
Proof. exact d1d_bound. Qed.
Print Assumptions C01_double1d_bound_checked.

(* refuted: the double 1-D kernel has no re-check; pred + 2ke rounds away from the value
   (data 0, 0, 0.5, e = 0.1: reconstruction 0.6000000000000001, error 0.10000000000000009 > 0.1) *)
Theorem C01_double1d_no_recheck_refuted : exists e iv xs,
  let c := dctx_of e iv xs in let '(_, _, o, _) := dchecks1 c [] xs in o = false.
Proof. exists 0x3FB999999999999A, 65536, [0; 0; 0x3FE0000000000000; 0x3FF0000000000000; 0x3FF0000000000000]. vm_compute. reflexivity. Qed.
Print Assumptions C01_double1d_no_recheck_refuted.

(* refuted: at the checkRadius edge the float 1-D kernel emits code 0 ("unpredictable") for a
   predicted element: the decoder then consumes an exact value that was never stored *)
Theorem C01_float1d_code_zero_refuted : exists e iv xs,
  let c := fctx_of e iv xs in let '(nz, _, _, _) := fchecks1 c [] xs in nz = false.
Proof. exists 0x3feabb9740000000, 128, [0x4639c2f4; 0x4639c2f4; 0x46381b1e; 0x4639c2f4; 0x4a371b00]. vm_compute. reflexivity. Qed.
Print Assumptions C01_float1d_code_zero_refuted.

(* non-vacuity: a run on which every check passes *)
Example C01_ex : let xs := [0x3F800000; 0x3F8CCCCD; 0x3F99999A; 0x40000000; 0x3FA66666] in
  let c := fctx_of 0x3FA999999999999A 32 xs in fchecks1 c [] xs = (true, true, true, true).
Proof. vm_compute. reflexivity. Qed.
