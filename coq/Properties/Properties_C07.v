(* C07 — size never exceeds raw size + small constant; constant arrays compress to O(1). *)
From Coq Require Import ZArith List Bool String.
Import ListNotations.
Require Import SZV.Gen.SrcConsts SZV.Gen.SrcFacts SZV.Model.Size SZV.Proofs.Size_proofs.
Local Open Scope Z_scope.

(* whatever the kernel produced (k bytes, any k) and whatever the data: size <= raw + 128 + 0.1 % of raw,
   for every element type, size-field width, mode; under the stated worst-case framing of the back end *)
Theorem C07_size_bound : forall (wrap:Z -> Z), (forall s, 0 <= s -> wrap s <= s + s / 3277 + 40) ->
  forall ty st n tiny const best_speed k thr, ty_ok ty -> (st = 4 \/ st = 8) -> 0 <= n -> 0 <= k ->
  thr <= raw_stream ty st n + 8 ->
  out_size wrap ty st n tiny const best_speed k thr <= raw ty n + 128 + raw ty n / 1000.
Proof. intros wrap H. apply out_size_bound. intros s Hs. apply wrap_3277_implies_3000; auto. Qed.
Print Assumptions C07_size_bound.

(* the same under the weaker hypothesis that IS met by both back ends' documented worst cases for every length *)
Theorem C07_size_bound_weaker_hypothesis : forall (wrap:Z -> Z), (forall s, 0 <= s -> wrap s <= s + s / 3000 + 40) ->
  forall ty st n tiny const best_speed k thr, ty_ok ty -> (st = 4 \/ st = 8) -> 0 <= n -> 0 <= k ->
  thr <= raw_stream ty st n + 8 ->
  out_size wrap ty st n tiny const best_speed k thr <= raw ty n + 128 + raw ty n / 1000.
Proof. exact out_size_bound. Qed.
Print Assumptions C07_size_bound_weaker_hypothesis.

(* no numeric hypothesis left: whatever either back end returns within its documented bound (zstd's raw-block worst case, zlib's
   deflateBound - also the size of the buffer zlib_compress5 allocates) keeps the stream within raw + 128 + 0.1 % *)
Theorem C07_size_bound_backends : forall (wrap:Z -> Z),
  (forall s, 0 <= s -> wrap s <= zstd_worst s \/ wrap s <= deflate_bound s) ->
  forall ty st n tiny const best_speed k thr, ty_ok ty -> (st = 4 \/ st = 8) -> 0 <= n -> 0 <= k ->
  thr <= raw_stream ty st n + 8 ->
  out_size wrap ty st n tiny const best_speed k thr <= raw ty n + 128 + raw ty n / 1000.
Proof. exact out_size_bound_backends. Qed.
Print Assumptions C07_size_bound_backends.

(* the tighter figure s/3277 of C07_size_bound is not implied by deflateBound for streams of a gigabyte (why the weaker one is stated) *)
Theorem C07_deflate_bound_exceeds_3277_refuted : exists s, 0 <= s /\ ~ deflate_bound s <= s + s / 3277 + 40.
Proof. exact deflate_bound_exceeds_3277_refuted. Qed.
Print Assumptions C07_deflate_bound_exceeds_3277_refuted.

Theorem C07_constant_stream_small : forall ty st, ty_ok ty -> (st = 4 \/ st = 8) -> const_stream ty st < 64.
Proof. exact const_stream_small. Qed.
Print Assumptions C07_constant_stream_small.

(* obligations on the facts regenerated from the source: every kernel-level compress function of every
   element type (48) and every point-wise-relative one (12) ends in a raw-copy guard, and the float and
   double dispatchers guard their four regression / 1-D arms *)
Theorem C07_every_path_has_fallback :
  forallb snd src_fallback_kernel_sites = true /\ List.length src_fallback_kernel_sites = 52%nat /\
  src_fallback_dispatch_guards = [("float"%string, 4%nat); ("double"%string, 4%nat)].
Proof. repeat split; reflexivity. Qed.
Print Assumptions C07_every_path_has_fallback.

(* the output buffer handed to zstd (sizes read from the source on every run) is never smaller than zstd's worst-case
   framing of n bytes: the wrapper cannot fail with "destination too small" and report an error code as a size *)
Theorem C07_zstd_buffer_sufficient : forall n, 0 <= n -> zstd_worst n <= zstd_buffer n.
Proof. exact zstd_buffer_sufficient. Qed.
Print Assumptions C07_zstd_buffer_sufficient.

Example C07_ex : out_size (fun s => s + 22) 0 8 1000 false false false 5000 (raw_stream 0 8 1000 + 1) = 4062
  /\ const_stream 1 8 = 56 /\ const_stream 0 8 = 44.
Proof. repeat split; vm_compute; reflexivity. Qed.
