(* C07 — size never exceeds raw size + small constant; constant arrays compress to O(1). *)
From Coq Require Import ZArith List Bool String.
Import ListNotations.
Require Import SZV.Gen.SrcConsts SZV.Gen.SrcFacts SZV.Model.Size SZV.Proofs.Size_proofs.
Local Open Scope Z_scope.

(* whatever the kernel produced (k bytes, any k) and whatever the data: size <= raw + 128 + 0.1 % of raw,
   for every element type, size-field width, mode; under the stated worst-case framing of the back end *)
Theorem C07_size_bound : forall (wrap:Z -> Z), (forall s, 0 <= s -> wrap s <= s + s / 3277 + 40) ->
  forall ty st n tiny const best_speed k thr, ty_ok ty -> (st = 4 \/ st = 8) -> 0 <= n -> 0 <= k ->
  thr <= raw_stream ty st n + 8 ->
  out_size wrap ty st n tiny const best_speed k thr <= raw ty n + 128 + raw ty n / 1000.
Proof. exact out_size_bound. Qed.
Print Assumptions C07_size_bound.

Theorem C07_constant_stream_small : forall ty st, ty_ok ty -> (st = 4 \/ st = 8) -> const_stream ty st < 64.
Proof. exact const_stream_small. Qed.
Print Assumptions C07_constant_stream_small.

(* obligations on the facts regenerated from the source: every kernel-level compress function of every
   element type (48) and every point-wise-relative one (12) ends in a raw-copy guard, and the float and
   double dispatchers guard their four regression / 1-D arms *)
Theorem C07_every_path_has_fallback :
  forallb snd src_fallback_kernel_sites = true /\ List.length src_fallback_kernel_sites = 52%nat /\
  src_fallback_dispatch_guards = [("float"%string, 4%nat); ("double"%string, 4%nat)].
Proof. repeat split; reflexivity. Qed.
Print Assumptions C07_every_path_has_fallback.

(* the output buffer handed to zstd (sizes read from the source on every run) is never smaller than zstd's worst-case
   framing of n bytes: the wrapper cannot fail with "destination too small" and report an error code as a size *)
Theorem C07_zstd_buffer_sufficient : forall n, 0 <= n -> zstd_worst n <= zstd_buffer n.
Proof. exact zstd_buffer_sufficient. Qed.
Print Assumptions C07_zstd_buffer_sufficient.

Example C07_ex : out_size (fun s => s + 22) 0 8 1000 false false false 5000 (raw_stream 0 8 1000 + 1) = 4062
  /\ const_stream 1 8 = 56 /\ const_stream 0 8 = 44.
Proof. repeat split; vm_compute; reflexivity. Qed.
