(* C11 — the Huffman stage is lossless for every symbol sequence and alphabet size.
   The tree shape is universally quantified (the heap of Huffman.c:init only decides the
   compression ratio); the correspondence check feeds the model the tree the implementation
   serialised and compares payload bytes, sizes and decoded sequences. *)
From Coq Require Import ZArith List Bool.
Import ListNotations.
Require Import SZV.Base.Bytes SZV.Base.BitPack SZV.Gen.SrcConsts SZV.Model.Huffman SZV.Proofs.Bytes_proofs SZV.Proofs.Huffman_proofs.
Require Import SZV.Model.Consistency SZV.Proofs.Consistency_proofs.
Local Open Scope Z_scope.

(* bit-serial decoder (decode): payload bytes followed by anything decode to the sequence *)
Theorem C11_decode_encode : forall l r s payload,
  encode_bytes (Node l r) s = Some payload ->
  forall extra, decode (Node l r) (payload ++ extra) (length s) = s.
Proof. exact decode_encode_bytes. Qed.
Print Assumptions C11_decode_encode.

(* table-driven decoder (decode_MSST19), any table width *)
Theorem C11_decode_table_encode : forall l r mb s payload,
  encode_bytes (Node l r) s = Some payload ->
  forall extra, decode_msst19 (Node l r) mb (payload ++ extra) (length s) = s.
Proof. exact decode_msst19_encode_bytes. Qed.
Print Assumptions C11_decode_table_encode.

(* single-symbol sequences: root is a leaf, empty payload, both decoders repeat the symbol *)
Theorem C11_single_symbol : forall c s,
  encode (Leaf c) s <> None -> forall bytes, decode (Leaf c) bytes (length s) = s /\ encode_bytes (Leaf c) s = Some [].
Proof. exact decode_encode_leaf. Qed.
Print Assumptions C11_single_symbol.

(* encoding is defined whenever the tree's leaves cover the sequence *)
Theorem C11_encode_total : forall t s, tree_ok t s = true -> encode t s <> None.
Proof. exact encode_total. Qed.
Print Assumptions C11_encode_total.

(* tree table: reconstruction by following the L/R indices inverts the pre-order writer *)
Theorem C11_tree_roundtrip : forall t, unpad (nsize t) (pad t 0) 0 = Some t.
Proof. exact tree_roundtrip. Qed.
Print Assumptions C11_tree_roundtrip.

(* ... in each of the three byte layouts: the index width chosen from the node count (thresholds
   256 / 65 536) is wide enough for every index written, and the byte layout is parsed back exactly *)
Theorem C11_idx_width_sufficient : forall t, size t < 2 ^ 32 ->
  Forall (fun r => 0 <= rowL r < 256 ^ Z.of_nat (idx_width 256 65536 (size t)) /\
                   0 <= rowR r < 256 ^ Z.of_nat (idx_width 256 65536 (size t))) (pad t 0).
Proof. exact idx_width_sufficient. Qed.
Print Assumptions C11_idx_width_sufficient.

Theorem C11_tree_bytes_roundtrip : forall (w:nat) sysEnd rows, (0 < w)%nat ->
  Forall (fun r => 0 <= rowL r < 256 ^ Z.of_nat w /\ 0 <= rowR r < 256 ^ Z.of_nat w /\ 0 <= rowC r < 256 ^ Z.of_nat 4) rows ->
  parse_tree_bytes w (length rows) (tree_bytes w sysEnd rows) = rows.
Proof. exact tree_bytes_roundtrip. Qed.
Print Assumptions C11_tree_bytes_roundtrip.

(* obligation on the constants regenerated from Huffman.c on every run: every site that chooses the
   table layout (writer, reader, both decoders) uses the thresholds the theorem above is about *)
Theorem C11_thresholds_from_source : src_huff_thr8 = [256] /\ src_huff_thr16 = [65536].
Proof. split; reflexivity. Qed.
Print Assumptions C11_thresholds_from_source.

(* non-vacuity: a three-leaf tree, a sequence, its payload and both decoders *)
(* read from the source on every run: the byte in front of a serialised tree records the machine's byte order in all three table layouts (not the byte order declared for input files) *)
Theorem C11_tree_marker_is_machine_order : huff_marker_ok = true.
Proof. exact huff_marker_hold. Qed.
Print Assumptions C11_tree_marker_is_machine_order.

Example C11_ex :
  let t := Node (Leaf 7) (Node (Leaf 0) (Leaf 65535)) in
  let s := [7; 65535; 0; 7; 7; 0] in
  encode_bytes t s = Some [0x71; 0x00] /\ decode t [0x71; 0x00; 0xFF] 6 = s /\ decode_msst19 t 2 [0x71; 0x00; 0xFF] 6 = s
  /\ unpad 5 (pad t 0) 0 = Some t /\ tree_ok t s = true.
Proof. repeat split; reflexivity. Qed.
