(* C18 — HDF5 filter: the parameter array is recovered exactly on the decoding side. *)
From Coq Require Import ZArith List Bool.
Import ListNotations.
Require Import SZV.Base.CSem SZV.Gen.SrcFuns SZV.Model.Dims SZV.Model.H5Z SZV.Proofs.H5Z_proofs.
Local Open Scope Z_scope.

(* element type and chunk shape recorded by the filter (ranks 1..5; each size below 2^32, a 1-D
   length below 2^64) are recovered exactly; the reader's tuple is the writer's in reverse order,
   which H5Z_sz_set_local compensates by passing dims[0] as r1 (next theorem but three) *)
Theorem C18_shape_recovered : forall ty old f5 f4 f3 f2 f1, fwf f5 f4 f3 f2 f1 ->
  decode_cd (record_cd ty old f5 f4 f3 f2 f1) = (c_computeDimension f5 f4 f3 f2 f1, ty, rev_tuple f5 f4 f3 f2 f1).
Proof. exact decode_record. Qed.
Print Assumptions C18_shape_recovered.

Theorem C18_long_1d : forall ty old n, 1 <= n < 2 ^ 64 ->
  decode_cd (record_cd ty old 0 0 0 0 n) = (1, ty, (0, 0, 0, 0, n)).
Proof. exact long_1d. Qed.
Print Assumptions C18_long_1d.

(* mode and the four doubles packed by SZ_errConfigToCdArray are recovered bit-exactly for every rank *)
Theorem C18_error_settings_recovered : forall ty mode a r p s f5 f4 f3 f2 f1, fwf f5 f4 f3 f2 f1 ->
  - 2 ^ 31 <= mode < 2 ^ 31 -> w64 a -> w64 r -> w64 p -> w64 s ->
  decode_err (record_cd ty (err_words mode a r p s) f5 f4 f3 f2 f1) = (mode, (a, r, p, s)).
Proof. exact decode_err_record. Qed.
Print Assumptions C18_error_settings_recovered.

Theorem C18_error_words_detected : forall ty mode a r p s f5 f4 f3 f2 f1, fwf f5 f4 f3 f2 f1 ->
  with_err (record_cd ty (err_words mode a r p s) f5 f4 f3 f2 f1) = true /\
  with_err (record_cd ty [] f5 f4 f3 f2 f1) = false.
Proof. exact with_err_record. Qed.
Print Assumptions C18_error_words_detected.

(* from the HDF5 chunk shape (dims[0] slowest) to the tuple the compressor is called with *)
Theorem C18_set_local_decodes : forall ty old d0 d1 d2 d3 d4, wf d4 d3 d2 d1 d0 ->
  let '(dim, ty', t) := decode_cd (set_local ty old d0 d1 d2 d3 d4) in
  ty' = ty /\ tuple_dims t = rev (canon (dims_of d4 d3 d2 d1 d0)) /\ dim = dispatch_dim d4 d3 d2 d1 d0.
Proof. exact set_local_decodes. Qed.
Print Assumptions C18_set_local_decodes.

(* the legacy helper SZ_copymetaDataToCdArray is not an inverse of the reader for rank >= 2 *)
Theorem C18_copymeta_reverses_refuted : exists r2 r1, wf 0 0 0 r2 r1 /\
  decode_cd (copymeta_cd 0 0 0 0 r2 r1) = (2, 0, (0, 0, 0, r1, r2)) /\ r1 <> r2.
Proof. exact copymeta_reverses_2d. Qed.
Print Assumptions C18_copymeta_reverses_refuted.

Example C18_ex : wf 0 0 1 9 1 /\ decode_cd (set_local 1 [] 1 9 1 0 0) = (1, 1, (0, 0, 0, 0, 9))
  /\ decode_cd (set_local 0 (err_words 1 5 6 7 8) 30 40 0 0 0) = (2, 0, (0, 0, 0, 30, 40)).
Proof. repeat split; try (vm_compute; congruence); vm_compute; reflexivity. Qed.
