(* C02 — point-wise relative bound: every element within r*|x|, zeros and signs kept. *)
From Coq Require Import Reals Lra List Bool ZArith.
Import ListNotations.
Require Import SZV.Model.PwRel SZV.Proofs.PwRel_proofs.
Local Open Scope R_scope.

(* an absolute error of log2(1+r) in the log2 domain is a relative error of r *)
Theorem C02_log_domain_bound : forall r x y', 0 < r -> 0 < x ->
  Rabs (y' - log2R x) <= log2R (1 + r) -> Rabs (exp2R y' - x) <= r * x.
Proof. exact log_domain_bound. Qed.
Print Assumptions C02_log_domain_bound.

(* every element through the log-transform path, for any inner codec that keeps the log-domain bound and any
   placeholder / threshold offsets a*e + ta*t, b*e + tb*t with a - 1 > b > 1, ta >= tb >= 0, t >= 0: within r|x|,
   zeros exact, sign kept *)
Theorem C02_element : forall a ta b tb r minlog t x y',
  0 < r -> 0 <= t -> b + 1 < a -> 1 < b -> tb <= ta -> 0 <= tb ->
  (x <> 0 -> minlog <= log2R (Rabs x)) ->
  Rabs (y' - to_log a ta minlog (log2R (1 + r)) t x) <= log2R (1 + r) ->
  let x' := from_log b tb minlog (log2R (1 + r)) t (is_neg x) y' in
  Rabs (x' - x) <= r * Rabs x /\ (x = 0 -> x' = 0) /\ (0 < x -> 0 < x') /\ (x < 0 -> x' < 0).
Proof. exact pwrel_element. Qed.
Print Assumptions C02_element.

(* the inner codec of the log path stores the first elements (and every unpredictable one) with the exact-value codec, sized from the range
   radius R and the median it is handed: inside that range it is within e, so C02_element applies to it ... *)
Theorem C02_exact_codec_within_range : forall R e median x, 0 < e -> e <= R -> Rabs (x - median) <= R ->
  Rabs (exact_codec R e median x - x) < e.
Proof. exact exact_codec_within. Qed.
Print Assumptions C02_exact_codec_within_range.

(* ... and outside it is not: a value up to 3e beyond the radius (where the placeholder of the zeros lies when the range is taken before the
   placeholders are set, defect e31086f) can come back more than 3e/2 away, i.e. on the other side of the zero threshold.  Hence the
   obligation src_pwr_range_covers_placeholders in C02_source_facts. *)
Theorem C02_exact_codec_outside_range_refuted :
  exists R e v, 0 < e /\ e <= R /\ Rabs v <= R + 3 * e /\ Rabs (cut (keep R e) v - v) > 3 / 2 * e.
Proof. exact cut_outside_range_refuted. Qed.
Print Assumptions C02_exact_codec_outside_range_refuted.

(* together with the threshold theorem: through the exact-value codec a zero comes back below the threshold (hence as an exact zero) as soon as the
   range the codec is sized for covers the placeholder, and a non-zero magnitude inside the range never does *)
Theorem C02_zero_through_exact_codec : forall a ta b tb minlog e t rad median,
  0 < e -> 0 <= t -> b + 1 < a -> tb <= ta -> e <= rad ->
  Rabs (zero_placeholder a ta minlog e t - median) <= rad ->
  exact_codec rad e median (zero_placeholder a ta minlog e t) < zero_threshold b tb minlog e t.
Proof. exact zero_through_exact_codec. Qed.
Print Assumptions C02_zero_through_exact_codec.

Theorem C02_nonzero_through_exact_codec : forall b tb minlog e t rad median y,
  0 < e -> 0 <= t -> 1 < b -> 0 <= tb -> e <= rad -> minlog <= y -> Rabs (y - median) <= rad ->
  ~ exact_codec rad e median y < zero_threshold b tb minlog e t.
Proof. exact nonzero_through_exact_codec. Qed.
Print Assumptions C02_nonzero_through_exact_codec.

(* the constants, the fixed back end of the sign plane on both sides, the exact fallback for unresolvable ratios,
   the private copy and the range loop of the accelerated path are read from the source on every run *)
Theorem C02_source_facts : pwr_source_facts_ok = true.
Proof. exact pwr_source_facts_hold. Qed.
Print Assumptions C02_source_facts.

(* with the constants the code had (2.0001 / 1.0001) a zero could land on the threshold and decode as non-zero *)
Theorem C02_old_zero_edge_refuted : exists minlog e y', 0 < e /\
  Rabs (y' - zero_placeholder 2.0001 0 minlog e 0) <= e /\ ~ y' < zero_threshold 1.0001 0 minlog e 0.
Proof. exact old_zero_edge_refuted. Qed.

Example C02_ex : 0 < 0.5 /\ 1.5 + 1 < 3 /\ 1 < 1.5 /\ 4 <= 8 /\ 0 <= 4.
Proof. lra. Qed.
(* the hypotheses of C02_exact_codec_within_range are met by a log-domain range of radius 2.9 around the median 0.2 with e = log2 1.5 ~ 0.585
   once it covers the placeholder -2.7 (the case of defect e31086f after the repair) *)
Example C02_ex_codec : 0 < 0.585 /\ 0.585 <= 2.9 /\ Rabs (-2.7 - 0.2) <= 2.9.
Proof. repeat split; try lra. rewrite Rabs_left by lra. lra. Qed.
