(* C16 — config-file and programmatic initialisation set exactly the stated parameters. *)
From Coq Require Import ZArith List Bool String.
Import ListNotations.
Require Import SZV.Model.Conf SZV.Proofs.Conf_proofs.
Local Open Scope string_scope.
Local Open Scope Z_scope.

(* the file that spells out a parameter structure initialises exactly as passing that structure
   programmatically does (every field, including the quantisation state derived from it) *)
Theorem C16_file_equals_programmatic : forall p, expressible p = true -> read_conf (to_conf p) = init_params p.
Proof. exact file_equals_programmatic. Qed.
Print Assumptions C16_file_equals_programmatic.

Theorem C16_odd_interval_count_rejected : forall c,
  Z.rem (get_int c "parameter:quantization_intervals" 0) 2 <> 0 -> read_conf c = None.
Proof. exact odd_interval_count_rejected. Qed.
Print Assumptions C16_odd_interval_count_rejected.

Theorem C16_unknown_value_rejected : forall c k tbl s, In (k, tbl) validated_keys ->
  lookup k c = Some (VS s) -> match_str s tbl = None -> read_conf c = None.
Proof. exact unknown_value_rejected. Qed.
Print Assumptions C16_unknown_value_rejected.

Theorem C16_selected_level_key_governs : forall c st, read_conf c = Some st ->
  (losslessCompressor st = 1 -> exists z, get_str c "parameter:zstdmode" (Some "Zstd_HIGH_SPEED") = Some z /\ match_str z zstd_tbl = Some (gzipMode st)) /\
  (losslessCompressor st <> 1 -> exists g, get_str c "parameter:gzipmode" (Some "Gzip_BEST_SPEED") = Some g /\ match_str g gzip_tbl = Some (gzipMode st)).
Proof. exact selected_level_key_governs. Qed.
Print Assumptions C16_selected_level_key_governs.

Definition ex_params : state :=
  {| dataEndianType := 0; sol_ID := 101; max_quant_intervals := 65536; quantization_intervals := 256; maxRangeRadius := 0;
     predThreshold := 0x3f7d70a4; sampleDistance := 100; szMode := 1; losslessCompressor := 0; withRegression := 1; gzipMode := 9;
     protectValueRange := 0; randomAccess := 0; snapshotCmprStep := 5; errorBoundMode := 0; absErrBound := 0x3f50624dd2f1a9fc;
     relBoundRatio := 0; psnr := 0; normErr := 0; pw_relBoundRatio := 0; segment_size := 36; accelerate_pw_rel := 1; pwr_type := 0;
     optQuantMode := 0; intvCapacity := 0; intvRadius := 0 |}.
Example C16_ex : expressible ex_params = true /\
  option_map state_fields (read_conf (to_conf ex_params)) =
  Some [0; 101; 256; 256; 128; 0x3f7d70a4; 100; 1; 0; 1; 9; 0; 0; 5; 0; 0x3f50624dd2f1a9fc; 0; 0; 0; 0; 36; 1; 0; 0; 256; 128].
Proof. split; vm_compute; reflexivity. Qed.
