(* Extraction of the executable model to OCaml for the correspondence check.
   ExtrOcamlBasic only: bool, option, unit, list, prod, sumbool, sumor map to OCaml's own
   types; Z, positive, N, nat and Flocq's binary_float stay the Coq datatypes. *)
From Coq Require Import ZArith List Extraction ExtrOcamlBasic.
Require Import SZV.Base.Bytes SZV.Base.BitPack SZV.Base.CSem SZV.Gen.SrcFuns SZV.Model.Dims SZV.Model.Huffman SZV.Model.RW SZV.Model.H5Z SZV.Model.Transpose SZV.Model.Lossless SZV.Model.Conf SZV.Model.Header SZV.Model.Quant SZV.Model.QuantInt SZV.Base.FloatOps SZV.Model.InlineUnpack SZV.Model.QuantFloat SZV.Model.QuantFloat2 SZV.Model.QuantFloat3 SZV.Model.Api SZV.Model.TimeStep SZV.Model.TimeStepFloat SZV.Model.Threads SZV.Model.Ledger.
Extraction Blacklist List String Int.
Extraction "../ocaml/gen/szm.ml"
  to_be from_be to_signed to_unsigned fp_to_bytes bytes_to_fp size_to_bytes bytes_to_size
  array_to_bytes bytes_to_array
  pack unpack packed_len read_all inline_extract inline_advance
  fdim_report filtered wfb c_computeDataLength c_computeDimension
  codes encode_with encode_bytes decode decode_msst19 pad unpad parse_seq size nsize idx_width tree_bytes parse_tree_bytes
  tree_bytes_len tree_ok leaves pack_bits
  write_file read_file swapped_file
  err_words set_local decode_cd decode_err with_err copymeta_cd
  transpose detranspose
  chunk_schedule zlib_header sniff starts_with_magic entry_sniff
  read_conf init_params state_fields to_conf
  get_metadata encode_params force all_written
  recon_array ity_of
  frun1 drun1 frun2 frun3 frun_ctxok
  hist_exes
  ts_run_f ts_run_d ts_out_f ts_out_d resolve
  run_threads
  ledger_trace.
