#!/usr/bin/env python3
"""Run the registered checks against the seeded breaking changes kept under /verif/seeded/<name>/.

  tools/seeded.py                  run every seeded change against the check of its own property
  tools/seeded.py <name> [Cxx ...] run one seeded change against the given checks (default: its own property)
  tools/seeded.py --table          rewrite seeded/README.md from the meta.json files

For each change: `git -C /repo apply patch.diff`, run `tools/check.py Cxx quick` (VERIF_SEED as given), record the
verdict in meta.json, `git -C /repo checkout -- .` (always, also on errors).  /repo must be clean before."""
import json, os, subprocess, sys, time

VERIF = os.path.dirname(os.path.dirname(os.path.abspath(__file__)))
REPO = "/repo"
SEEDED = os.path.join(VERIF, "seeded")


def sh(cmd, **kw):
    return subprocess.run(cmd, capture_output=True, text=True, **kw)


def repo_clean():
    p = sh(["git", "-C", REPO, "status", "--porcelain", "--untracked-files=no"])
    return p.stdout.strip() == ""


def run_one(name, checks):
    d = os.path.join(SEEDED, name)
    meta_p = os.path.join(d, "meta.json")
    meta = json.load(open(meta_p)) if os.path.exists(meta_p) else {"name": name}
    checks = checks or [meta.get("property", name[:3])]
    if not repo_clean():
        print("refusing: /repo has uncommitted changes")
        return 2
    p = sh(["git", "-C", REPO, "apply", os.path.join(d, "patch.diff")])
    if p.returncode != 0:
        print("patch does not apply:", p.stderr[:400])
        meta.setdefault("checks", {})["apply"] = "patch does not apply to the current /repo: " + p.stderr[:200]
        json.dump(meta, open(meta_p, "w"), indent=1, sort_keys=True)
        return 2
    saved = {}
    for c in checks:
        ep = os.path.join(VERIF, "evidence", c + ".json")
        if os.path.exists(ep):
            saved[ep] = open(ep).read()
    try:
        for c in checks:
            t0 = time.time()
            env = dict(os.environ)
            q = sh([sys.executable, os.path.join(VERIF, "tools", "check.py"), c, "quick"], cwd=VERIF, env=env)
            lines = [l for l in q.stdout.split("\n") if l.startswith(("VIOLATION", "OK "))]
            viol = [l for l in lines if l.startswith("VIOLATION")]
            verdict = "caught" if (q.returncode != 0 and viol) else "missed"
            with_input = [l for l in viol if not l.rstrip().endswith("no-failing-input-found")]
            kind = "failing input replayed" if with_input else ("no-failing-input-found" if viol else "")
            seed = os.environ.get("VERIF_SEED", "1")
            meta.setdefault("checks" if seed == "1" else "checks_seed" + seed, {})[c] = {"verdict": verdict, "how": kind, "first_line": ((with_input or viol)[0] if viol else (lines[-1] if lines else q.stdout[-200:]))[:400],
                                                  "violations": len(viol), "wall_s": round(time.time() - t0, 1), "seed": os.environ.get("VERIF_SEED", "1")}
            print("%s vs %s: %s %s" % (name, c, verdict, kind))
    finally:
        sh(["git", "-C", REPO, "checkout", "--", "."])
        # the generated Coq files were last written from the changed tree: bring them back to what the restored tree says
        sh([sys.executable, "-c", "import sys; sys.path.insert(0, %r); import gen; gen.gen_funs(); gen.gen_consts(); gen.gen_facts()" % os.path.join(VERIF, "tools")])
        # evidence written while the patch was applied describes the seeded tree: put the unchanged tree's record back
        for ep, txt in saved.items():
            open(ep, "w").write(txt)
        # replays written while the patch was applied describe the seeded tree, not /repo: drop them
        for f in os.listdir(os.path.join(VERIF, "replays")) if os.path.isdir(os.path.join(VERIF, "replays")) else []:
            pth = os.path.join(VERIF, "replays", f)
            if os.path.getmtime(pth) >= start_time:
                os.unlink(pth)
    json.dump(meta, open(meta_p, "w"), indent=1, sort_keys=True)
    return 0


def table():
    rows = []
    for name in sorted(os.listdir(SEEDED)):
        mp = os.path.join(SEEDED, name, "meta.json")
        if not os.path.exists(mp):
            continue
        m = json.load(open(mp))
        own = m.get("checks", {}).get(m.get("property", ""), {})
        others = ", ".join("%s:%s" % (k, v["verdict"]) for k, v in sorted(m.get("checks", {}).items()) if isinstance(v, dict) and k != m.get("property"))
        s2 = m.get("checks_seed2", {}).get(m.get("property", ""), {})
        if s2:
            others = (others + "; " if others else "") + "VERIF_SEED=2: %s" % s2.get("verdict")
        rows.append("| %s | %s | %s | %s | %s | %s |" % (name, m.get("property", ""), m.get("change", "")[:110].replace("|", "/"), m.get("trigger", "")[:110].replace("|", "/"),
                                                      ("%s (%s)" % (own.get("verdict", "not run"), own.get("how", ""))) if own else "not run", others))
    txt = ("# Seeded breaking changes\n\nEach directory holds `patch.diff` (applies to /repo's pinned+repaired tree), the author's demonstration and `meta.json`.\n"
           "Authors were fresh sub-agents given only the property text and a scratch worktree. Verdicts are from `tools/seeded.py` (quick tier, seed 1; the last column adds the verdict of a full run under VERIF_SEED=2).\n\n"
           "| change | property | what was changed | what it needs to manifest | own check | other checks |\n|---|---|---|---|---|---|\n" + "\n".join(rows) + "\n")
    open(os.path.join(SEEDED, "README.md"), "w").write(txt)
    print(txt)


start_time = time.time()
if __name__ == "__main__":
    a = sys.argv[1:]
    if a and a[0] == "--table":
        table()
    elif a:
        sys.exit(run_one(a[0], a[1:]))
    else:
        for name in sorted(os.listdir(SEEDED)):
            if os.path.exists(os.path.join(SEEDED, name, "patch.diff")):
                run_one(name, [])
        table()
