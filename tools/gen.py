#!/usr/bin/env python3
"""Regenerates coq/Gen/*.v from /repo's current working tree (T1 translations, T2 constants).
A file is rewritten only when its content changes, so that `make` re-checks exactly what moved."""
import os, re, sys
sys.path.insert(0, os.path.dirname(os.path.abspath(__file__)))
import c2gallina
VERIF = os.path.dirname(os.path.dirname(os.path.abspath(__file__)))
REPO = os.environ.get("VERIF_REPO", "/repo")
GEN = os.path.join(VERIF, "coq", "Gen")

T1_FUNCS = [
    ("sz/src/sz.c", "computeDimension"),
    ("sz/src/sz.c", "computeDataLength"),
    ("sz/src/sz.c", "filterDimension"),
]


def write_if_changed(path, txt):
    old = open(path).read() if os.path.exists(path) else None
    if old != txt:
        with open(path + ".tmp", "w") as f:
            f.write(txt)
        os.replace(path + ".tmp", path)
        return True
    return False


def gen_funs():
    cflags = ["-I" + os.path.join(REPO, "sz/include"), "-I" + os.path.join(VERIF, "harness", "cfg")]
    txt, failed = c2gallina.translate_functions([(os.path.join(REPO, s), f) for s, f in T1_FUNCS], cflags)
    notes = {"t1_translated": [f for _, f in T1_FUNCS if f not in [x for x, _ in failed]], "t1_failed": failed}
    if failed:
        # keep the committed copy: the tie for these functions falls back to the differential check
        notes["t1_fallback"] = True
        return False, notes
    changed = write_if_changed(os.path.join(GEN, "SrcFuns.v"), txt)
    notes["t1_changed"] = changed
    return changed, notes


def main():
    changed, notes = gen_funs()
    print(notes)


if __name__ == "__main__":
    main()
