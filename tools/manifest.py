#!/usr/bin/env python3
"""Regenerates /verif/MANIFEST.json from the table below and validates it against the schema."""
import json, os, sys
VERIF = os.path.dirname(os.path.dirname(os.path.abspath(__file__)))

TB_COMMON = ("Trusted: Coq 8.16.1 kernel + vm_compute; the hand-written Gallina model (tied to /repo by the correspondence "
             "check: extracted OCaml model vs libSZ built from the working tree on the same generated cases, ExtrOcamlBasic only); "
             "gcc/ASan; harness glue. ")

CHECKS = {
    "C13": dict(
        category="proof", design_ref="DESIGN.md §4 C13",
        text=("Round-trip theorems for the big-endian integer codecs (any width, every value), float/double bytes under both "
              "sysEndianType values, element arrays under the four endianness pairs, size fields (4 and 8 bytes, whole range) and the "
              "1/2/3-bit and 0..8-bit packers for every length and content, proved in Coq with no axioms; the unpacker of the residual bits that the "
              "decompressors carry inline (114 sites of one form, counted from the source on every run; its four mask helpers translated from ByteToolkit.c) "
              "is proved to return exactly the addressed bits for every offset, width and pair of bytes. The model is run against "
              "the exported C functions (ASan build) on every 16-bit value, boundary/random 32/64-bit values, every packer length, and the inline "
              "unpacker snippet with the library's helpers on every offset, width and byte."),
        note=TB_COMMON + "Host little-endian LP64; the inline unpacker's control structure is transcribed by hand (the site-form fact ties it), its helpers are generated.",
        technique="Coq proof (induction + finite sweeps lifted by forallb_forall) + model/implementation differential check"),
    "C09": dict(
        category="proof", design_ref="DESIGN.md §4 C09",
        text=("Theorems over the Gallina translation of computeDimension/computeDataLength/filterDimension regenerated from sz.c on every "
              "run (c2gallina): the filter removes exactly the size-1 dimensions (all-ones -> (1)), preserves the element count, is idempotent, "
              "squeezed and unsqueezed tuples dispatch identically, and only a genuine 5-D request reaches the refusing branch. The generated "
              "code is compared with the compiled C on every tuple over {1,2,3,5,21}^<=5; end-to-end round trips (ASan) with equal and squeezed "
              "tuples for all ten element types check count, bound and 5-D refusal."),
        note=TB_COMMON + "c2gallina (clang JSON AST -> Gallina, unsigned wrap mod 2^64); tuple sizes < 2^12 in the theorems; kernel correctness itself is C01-C03 (their listed finding classes are subtracted by exact class predicate).",
        technique="Coq proof over code translated from the C source on every run + differential check + end-to-end oracle"),
    "C11": dict(
        category="proof", design_ref="DESIGN.md §4 C11",
        text=("Prefix-code round trip for every tree and sequence (bit-serial and table-driven decoders, payload followed by arbitrary "
              "bytes), single-symbol case, tree table round trip in the three byte layouts with the width thresholds shown sufficient, all "
              "proved in Coq without axioms; on every run the model parses the tree the implementation serialised and compares payload "
              "bytes, sizes, maxBits and both decoders (ASan build) on exhaustive small alphabets, threshold node counts and skewed profiles."),
        note=TB_COMMON + "Tree shape is a universally quantified input (optimality of the heap-built tree not modelled); code words <= 64 bits; 'stays within its buffer' is observed by ASan, not proved.",
        technique="Coq proof (induction over trees/sequences) + model/implementation differential check with the implementation's tree as oracle input"),
    "C19": dict(
        category="proof", design_ref="DESIGN.md §4 C19",
        text=("Theorems over the byte-list model of rw.c: write-then-read is the identity for the integer family under either declaration and for "
              "float/double under the machine's, a byte-swapped file read with the swap declared returns the original values for every bit pattern, "
              "declaring the other endianness equals byte-swapping each element, element count = length/width, missing file = failure status; "
              "model and implementation (real files, ASan) compared on file bytes, values, counts and statuses for all ten element types."),
        note=TB_COMMON + "OS file layer trusted; host little-endian.",
        technique="Coq proof over a byte-list file model + differential check on real files"),
    "C18": dict(
        category="proof", design_ref="DESIGN.md §4 C18",
        text=("Theorems over the word-level model of the cd_values helpers: for every rank 1..5 (sizes < 2^32, 1-D length < 2^64) the recorded "
              "element type and shape are decoded exactly, the mode and four doubles of SZ_errConfigToCdArray are recovered bit-exactly at the "
              "rank-dependent offset, error words are detected iff present, and the composition with the (generated) dimension filter yields the "
              "SZ tuple of the HDF5 chunk shape; the legacy helper's reversal is a refuted statement. Model and C helpers are compared word for "
              "word; datasets of all ten types and ranks 1..5 with partial/size-1 chunks go through filter 32017 and the bound is checked."),
        note=TB_COMMON + "HDF5 1.10.8 trusted; the dataset round trip is explored (exploration), only the parameter packing is proved; REL bounds only judged on evenly divided chunks.",
        technique="Coq proof over a word-list model + differential check of the exported helpers + end-to-end HDF5 round trips"),
    "C14": dict(
        category="proof", design_ref="DESIGN.md §4 C14",
        text=("Proved: detransposeData inverts transposeData for every shape of rank 1..4 and every content (index identities by div/mod "
              "reasoning, lifted to lists), with the pinned tree's 2-D behaviour as a refuted statement; model vs C on transposition. Explored "
              "on the implementation: 14 public entry points (defaults call, caller-buffer variants, customize names and their threadsafe twins, "
              "Fortran dN wrappers) run next to the canonical pair on the same input: statuses, counts, bit-identical reconstructions where the "
              "names denote one algorithm, bound for all."),
        note=TB_COMMON + "Wrapper agreement is a differential between entry points of the implementation (exploration), not a theorem; kernels' classes are C01-C03's.",
        technique="Coq proof of the transposition algebra + differential check between public entry points"),
    "C12": dict(
        category="proof", design_ref="DESIGN.md §4 C12",
        text=("Proved: the chunk schedule of zlib_compress5 partitions every length with exactly the last chunk finishing; every zlib header "
              "deflateInit(level) can emit is accepted by the isZlibFormat translated from the source; zstd frames, zlib streams and raw SZ "
              "streams are classified correctly (under the stated assumption on ZSTD_getFrameContentSize); each decoder entry agrees with the "
              "sniffer except at its two bypass lengths (refuted there; listed finding), which equal the constant-stream sizes read from the "
              "source. Checked on the implementation: round trip and sniffing of byte strings around the 64 KiB chunk size for all levels of both "
              "back ends, and bit-identical reconstructions across 8 mode/back-end/level settings."),
        note=TB_COMMON + "zlib and zstd are trusted code (round trip, headers, frame-size query are assumptions sampled by the check); c2gallina for isZlibFormat; constants by source-text anchors.",
        technique="Coq proof (schedule induction, finite sweep over levels, section hypotheses for the back ends) + differential and mode-independence checks"),
    "C16": dict(
        category="proof", design_ref="DESIGN.md §4 C16",
        text=("Theorems over the model of SZ_ReadConf's key ladder and SZ_Init_Params: the file that spells out a parameter structure initialises "
              "to exactly the state programmatic initialisation yields (all 26 fields incl. the derived quantisation state), an odd interval count "
              "or an unknown value for any of the eight validated keys is rejected, and the level key of the selected back end governs. Model vs "
              "implementation on generated files in many concrete syntaxes (case, spacing, quotes, comments, float/hex syntaxes) and on ill-formed "
              "variants; on the implementation alone: file vs programmatic fields and the stream compressed under each."),
        note=TB_COMMON + "strtol/atof trusted; the INI lexer is tied by the differential check (not modelled); PASTRI configurations not modelled.",
        technique="Coq proof over a token-level model of the configuration ladder + differential check with rendered configuration files"),
    "C06": dict(
        category="proof", design_ref="DESIGN.md §4 C06",
        text=("Proved: the parameter block codec (flag bits, two 16-bit fields, mode/type byte with the 0x0f masks, the per-mode bound fields, "
              "solution id, interval count, min/max) decodes every field to what the writer stored, for all ten element types and ten bound modes, and the header walk "
              "of SZ_getMetadata (flag byte, block in its 28/36-byte field, exact-byte-size byte, element count in 4/8 bytes) returns every reported field as written "
              "(finite sweeps for the packed bytes lifted to all values, byte-list lemmas for the rest). On every run SZ_getMetadata is compared "
              "field by field with the model's header walk on regular, constant and lossless streams of every type, the block is re-encoded by the "
              "model and must equal the implementation's bytes, and the reported fields are judged against the call's arguments and the "
              "reconstruction error (for float/double data also in the combined point-wise relative modes 11..14); five listed finding classes are subtracted by predicate."),
        note=TB_COMMON + "The header walk is proved (C06_header_walk) for the fields SZ_getMetadata reports; min/max of integer streams lie outside the 28-byte field and are not part of the statement; PSNR/NORM derived bounds rely on libm.",
        technique="Coq proof of the parameter-block codec + differential check of SZ_getMetadata + oracle against call arguments"),
    "C05": dict(
        category="proof", design_ref="DESIGN.md §4 C05",
        text=("The process globals (configuration fields of confparams_cpr, its per-call scratch fields, exe_params, dataEndianType, the streams "
              "produced so far) are a state machine over {compress (explicit arguments / configured defaults / SZ1.4 entry), decompress, metadata "
              "query, finalise+re-initialise}; proved by induction over arbitrary histories, without axioms: everything a compression can read "
              "after its own writes equals what it reads in a freshly initialised library, hence so does any stream and reconstruction computed "
              "from it; the configuration and the configured default bounds are unchanged by every history. The three pre-repair behaviours are "
              "refuted statements with witness histories; so is the one remaining dependence (listed finding threadsafe_leaves_bounds: the thread-safe customize entry, "
              "modelled as step_ts outside the theorem's operations, leaves its own bounds in the configuration), which the check identifies per case by comparing with a "
              "fresh process configured with the bounds left behind. The effect table is tied to the source on every run by extracted facts (which functions "
              "write which global, unconditional re-derivation, restores on every return) and by running random histories in the implementation: "
              "globals after every operation vs. the model, and the observed pair's stream and reconstruction vs. a fresh process."),
        note=TB_COMMON + "That the model's `view` is everything the kernels read is checked by stream equality on explored histories, not derived from the C source. Time-step globals (sz_tsc) are C17's subject.",
        technique="Coq proof (invariant by induction over operation histories) + source-fact obligations + history differential against a fresh process"),
    "C17": dict(
        category="proof", design_ref="DESIGN.md §4 C17",
        text=("Time-step compression as two state machines (compressor and decompressor each keeping the previous step's reconstruction) over a pair of "
              "kernels of the generic prediction/quantisation codec: snapshot (spatial) and temporal (element i predicted from element i of the history). "
              "Proved without axioms for every pair of kernels meeting the two codec obligations, every step sequence, every schedule and every "
              "data-/size-dependent decision (tiny, constant, verbatim): the decompressor fed the step streams reproduces every reconstruction and ends "
              "each step with the compressor's history (lock-step, by induction over the steps), and every decoded step is within that step's own bound "
              "(no accumulation). For the float and double instances (Flocq arithmetic on bit patterns; the temporal kernels transcribed from "
              "sz_{float,double}_ts.c) the same theorems hold for every run on which the model's evaluated flags hold, and the temporal quantisers are proved "
              "to emit only re-checked codes. The pre-repair behaviour (verbatim step) is a refuted statement with a witness. On every run: compressor "
              "and a forked decompressor process on random step sequences and schedules; history digests and bounds checked after every step; 1-D "
              "variables compared bit for bit with the model, schedule decisions with the model's resolve function. Point-wise relative variables (compressed by the "
              "point-wise relative kernels at every step, no temporal prediction) are part of the explored sets and judged per step by the relative bound; they are outside the model."),
        note=TB_COMMON + "Multi-dimensional snapshot kernels are not transcribed (oracle only). Axioms of the float/double instance theorems: Flocq's use of the standard library's real numbers (ClassicalDedekindReals.sig_not_dec, sig_forall_dec, functional_extensionality_dep, Classical_Prop.classic). Built with -DHAVE_TIMECMPR.",
        technique="Coq proof (lock-step and per-step bound by induction over step sequences, generic in the kernels) + bit-exact model/implementation comparison + two-process differential"),
    "C15": dict(
        category="proof", design_ref="DESIGN.md §4 C15",
        text=("Concurrent calls as threads of atomic blocks (the code between the library's SZ_VERIF_YIELD points) of writes and reads of the process globals; "
              "(and copies: a setting saved into a local and put back on return); a schedule is any list of thread ids. Proved without axioms, for any number of "
              "threads, programs and schedules: calls that agree on every global they write, read only tracked globals and only after writing them, and copy only "
              "into untracked ones observe under every schedule exactly what they observe alone (invariant by induction "
              "over the schedule, completion of every thread included). The property as stated (no agreement) is a refuted statement with a witness schedule, "
              "replayed on the implementation: it is a listed finding. On every run the implementation executes 2..16 calls under explicit random schedules "
              "(deterministic hand-off at the yield points) and under real concurrency; the parameter block of every concurrent stream is compared with the "
              "model's prediction for that schedule, every reconstruction with the call made alone; a difference is a listed finding only where the model says "
              "the call read another call's different value, otherwise a violation."),
        note=TB_COMMON + "Granularity = blocks between the five hook points (guard SZ_VERIF): races inside a block are only explored by free-running cases. Which reads the reconstruction depends on is validated by the differential, not derived from the C source.",
        technique="Coq proof (schedule-independence under agreement, invariant over arbitrary schedules; refutation witness) + deterministic schedule replay through guarded yield hooks + differential against the call made alone"),
    "C10": dict(
        category="proof", design_ref="DESIGN.md §4 C10",
        text=("The leak-freedom half is a theorem about the allocation ledger of the API (which blocks the library owns between calls): for every "
              "history of initialise / compress / decompress / metadata / caller-free / finalise operations the library owns at most its three "
              "parameter blocks (no per-call growth), and once the caller has freed what it was given and finalised nothing is live -- proved by "
              "induction without axioms. The ledger model is tied to the code by running generated valid call sequences with malloc/calloc/realloc/free "
              "wrapped at link time: the library-owned block count after every operation must equal the model's, the final ledger must be empty. One access-safety "
              "fact is proved too: the raw-copy fall-back of the float/double compressors writes its record in place, and behind the guard every call site has (read "
              "from the source on every run: compared with exactly the record size, or a malloc of it) that write stays inside the block; the guard comparing with the raw data alone is refuted. The "
              "access-safety half (out-of-bounds, use-after-free, double free, reads outside the caller's array) is decided by AddressSanitizer on the "
              "same sequences plus stress shapes (tiny, block-misaligned, everything-unpredictable, sampling distance 1): that half is exploration."),
        note=TB_COMMON + "Memory safety of C code is not derived by proof here: no C semantics is available in this toolbox (VST/CompCert absent); the ASan replay is labelled exploration. zlib/zstd internal allocations are outside the ledger.",
        technique="Coq proof (ledger invariant and balance by induction over call histories) + link-time allocation ledger compared with the model + AddressSanitizer replay of generated valid call sequences"),
    "C02": dict(
        category="proof", design_ref="DESIGN.md §4 C02",
        text=("Proved over the reals (Coq Reals; Flocq's generic rounding for the exact-value codec): an absolute error of log2(1+r) on log2|x| is a relative error of at most r on x; with the zero "
              "placeholder a*e and threshold b*e below the smallest log-magnitude and a-1 > b > 1, every exact zero decodes to exactly 0 and no non-zero value does, for "
              "any inner codec keeping the log-domain bound; sign restoration keeps every sign. The constants the code had (2.0001 / 1.0001) are a refuted statement "
              "(a zero on the threshold), replayed on the implementation and repaired. The exact-value codec the log kernels store their first and unpredictable elements with "
              "is proved (Flocq rounding toward zero to p significant bits) to stay within the bound on the range it is sized for and refuted outside it; that the range and "
              "median handed to the kernels cover the zero placeholders is therefore one of the extracted facts (defect e31086f). The constants (3.0 / 1.5 in all six kernels), the fixed back end of the sign "
              "plane on both sides, the exact fallback for unresolvable ratios, the private copy of the accelerated path and its range loop are extracted from the "
              "source on every run and are proof obligations. The implementation is judged on every run by an exact oracle on generated arrays (mixed signs, zeros, "
              "hundreds of binades, both paths, both back ends) under AddressSanitizer; denormal magnitudes are a listed finding."),
        note=TB_COMMON + "No bit-exact model of the PW_REL kernels: libm's log2/exp2/pow are not modelled, so floating-point rounding inside the transform is covered by the oracle (exploration), the theorems are the real-number design argument. Axioms: the standard library's real numbers (ClassicalDedekindReals.sig_not_dec, sig_forall_dec, functional_extensionality_dep, Classical_Prop.classic).",
        technique="Coq proof over the reals (log-domain bound, zero threshold, sign restoration) + source-fact obligations + exact point-wise oracle on the implementation"),
    "C04": dict(
        category="proof", design_ref="DESIGN.md §4 C04",
        text=("Proved: every byte of the parameter block (shared by all stream kinds) is assigned for every bound mode the writer handles, and its "
              "length is the source's MetaDataByteLength(_double); an unlisted mode is a refuted statement. Checked on the implementation: each "
              "(array, arguments, configuration) triple is compressed and decompressed in four fresh processes with different heap fill patterns, "
              "arena settings and ASLR on/off; stream bytes and reconstructions must be identical."),
        note=TB_COMMON + "Only the parameter-block serializer is covered by the all-written theorem; the remaining serializers by run-to-run comparison (exploration). zlib/zstd determinism trusted.",
        technique="Coq proof (all positions written) + multi-process differential under heap/ASLR perturbation"),
    "C03": dict(
        category="proof", design_ref="DESIGN.md §4 C03",
        text=("The integer kernels (1-D previous value, 2-D/3-D Lorenzo stencils, 4-D as independent 3-D blocks) are an instance of the generic "
              "prediction/quantisation codec; proved without axioms: the decoder reproduces the encoder's reconstruction for every array and "
              "context (lock-step), emitted codes are never 0, and every element is within an integral bound e (|d - 2e*floor((d+e)/2e)| <= e), "
              "unpredictable ones exact; the two ways the unguarded statement fails (non-integral bounds, values leaving their C type) are refuted "
              "statements with witnesses and listed finding classes. On every run the model's reconstruction is compared bit for bit with the "
              "implementation on runs without narrowing events (all eight types, ranks 1..4), and the bound oracle runs on all cases. The width of a stored exact "
              "value (computeByteSizePerIntValue, translated from the source on every run) holds every offset of every value range: C03_exact_value_roundtrip."),
        note=TB_COMMON + "binary64 evaluation of the state formula assumed exact below 2^52 (tied by comparison); per-file C types of intermediates are a table in the model; finding classes int_fractional_bound / int_narrowing are decided by e and by the model's event flag (or a sufficient safe-zone predicate).",
        technique="Coq proof (generic codec induction + integer division lemma) + bit-exact model/implementation comparison + bound oracle"),
    "C01": dict(
        category="proof", design_ref="DESIGN.md §4 C01",
        text=("Generic theorems for every SZ kernel (any value type, predictor, quantiser): decoder history = encoder history and element-wise "
              "bound from three obligations; the same two theorems with the obligations evaluated per element by the model. Instantiated with the "
              "SZ-1.4 1-D float and double kernels and the 2-D and 3-D float kernels transcribed over Flocq binary32/binary64 (range, median, required "
              "length, mantissa truncation, mixed int/float/double expressions, Lorenzo stencils over the raster-order history). For every input: a code is "
              "only emitted after the re-check passed (all five kernels), it is never 0 (all five; for 2-D/3-D over the reals through Flocq's correctness theorems, giving an unconditional lock-step theorem for those two kernels), and the decoder's expression reproduces the encoder's "
              "reconstruction bit for bit (1-D: by the symmetry of round-to-nearest-even under negation, proved over Flocq's definitions; 2-D/3-D: the "
              "same term). The pre-repair double kernel (no re-check) and float code-0 edge are kept as refuted statements with witnesses. On every run "
              "the model reproduces the implementation's 1-D, 2-D and 3-D reconstructions bit for bit (bound and interval count read from the stream), "
              "its remaining checks are evaluated, and the bound oracle runs over ranks 1..4, both kernel families, 12 configurations, 4 modes under ASan."),
        note=TB_COMMON + "Stdlib real-number axioms + classic + functional extensionality through Flocq (Print Assumptions per theorem in the evidence). The 4-D and double multi-dimensional SZ-1.4 kernels and the regression kernels are not transcribed: they are covered by the generic theorems only via the implementation oracle (partial). Truncation-within-bound is an evaluated check, not a theorem.",
        technique="Coq proof (generic codec induction, Flocq-based kernel instances, vm_compute witnesses) + bit-exact differential + bound oracle"),
    "C08": dict(
        category="proof", design_ref="DESIGN.md §4 C08",
        text=("Proved over Flocq: the decompressors' clamp puts every finite value into [min, max] (binary32 and binary64, generic in the format), "
              "leaves in-range values alone, never moves a reconstruction away from an original inside the range, and rounding the difference in "
              "the element type is monotone, so the bound of C01 survives the clamp; obligations on facts regenerated from the source: each of the "
              "three serializers sets flag bit 0x04 under protectValueRange, both readers decode it, both decompressor entries clamp. On the "
              "implementation: arrays touching their extremes, protection on, all kernels: every element in [min, max] and within the bound."),
        note=TB_COMMON + "Stdlib real axioms via Flocq. The composition clamp o kernel is observed (oracle), the flag/clamp sites are regex facts over the source text.",
        technique="Coq proof over Flocq (order lemmas from Bcompare_correct) + source-fact obligations + oracle on extreme-touching data"),
    "C07": dict(
        category="proof", design_ref="DESIGN.md §4 C07",
        text=("Proved: for every element type, size-field width, array length and *every* kernel stream size k, the returned size is at most raw + 128 + "
              "0.1 % of raw, given only that each path's raw-copy guard fires no later than raw-stream size + 8 and the back end's worst-case framing "
              "(hypothesis wrap(s) <= s + s/3277 + 40, sampled; also proved under the weaker s/3000 and, with no numeric hypothesis, for any back end "
              "that stays within zstd's raw-block worst case or zlib's deflateBound: C07_size_bound_backends); constant streams are below 64 bytes for all ten types. Obligations on facts "
              "regenerated from the source: all 52 kernel-level compress functions (float, double, 8 integer types, PW_REL variants) end in a "
              "raw-copy guard placed after the writer of the size it tests, and both dispatchers guard their four arms. On the implementation: incompressible and constant arrays, all modes."),
        note=TB_COMMON + "zlib/zstd framing is an assumption (sampled by the lz cases); the guards' exact thresholds are facts matched by regular expressions over the source text.",
        technique="Coq proof (linear arithmetic over stream-size formulas, section hypothesis for the back end) + source-fact obligations + size oracle"),
}

NOT_YET = {}


def main():
    props = [json.loads(l) for l in open(os.path.join(VERIF, "properties.jsonl"))]
    ids = [p["id"] for p in props]
    checks = []
    for pid in ids:
        if pid in CHECKS:
            c = CHECKS[pid]
            checks.append({
                "property_id": pid,
                "quick_cmd": "python3 tools/check.py %s quick" % pid,
                "thorough_cmd": "python3 tools/check.py %s thorough" % pid,
                "evidence_file": "evidence/%s.json" % pid,
                "replay_cmd_template": "python3 tools/check.py %s --replay {path}" % pid,
                "engine": "coq+t3",
                "level_claimed": {"category": c["category"], "text": c["text"], "design_ref": c["design_ref"]},
                "level_note": c["note"],
                "technique": c["technique"],
            })
    na = [{"property_id": pid, "reason": NOT_YET.get(pid, "no check registered yet in this revision (model and theorems under construction; see DESIGN.md §10 build order)")}
          for pid in ids if pid not in CHECKS]
    hooks_commits = []
    hc = os.path.join(VERIF, "HOOK_COMMITS.txt")
    if os.path.exists(hc):
        hooks_commits = [l.split()[0] for l in open(hc) if l.strip() and not l.startswith("#")]
    m = {
        "version": 1,
        "setup_cmd": "sh tools/setup.sh",
        "hooks": {
            "guard": "SZ_VERIF",
            "enable": "checks compile sz/src/*.c from /repo's working tree themselves with -DSZ_VERIF (tools/lib.py build_impl); the guard is never defined by the repository's own build",
            "baseline_off_cmd": "cmake --build /repo/_build --target SZ cunit_extras test_ByteToolkit test_DynamicByteArray test_DynamicFloatArray test_DynamicIntArray.c test_TypeManager test_dataCompression && ctest --test-dir /repo/_build -j8 --timeout 900",
            "source_commits": hooks_commits,
            "add_only": True,
        },
        "engines": [
            {"name": "coq+t3", "path": "tools/check.py", "serves_properties": sorted(CHECKS.keys()),
             "kind_free_text": "Coq 8.16 theorems about a hand-written executable model (coq/), re-checked on every run; model extracted to OCaml and compared with libSZ rebuilt from /repo's working tree on generated cases; property oracle on the implementation for the search"},
        ],
        "checks": checks,
        "not_applicable": na,
        "notes": "Known findings: KNOWN_FINDINGS.txt. Seeded breaking changes used to validate the checks: seeded/. Trusted base and modelling limits: DESIGN.md §6, §9.",
    }
    with open(os.path.join(VERIF, "MANIFEST.json"), "w") as f:
        json.dump(m, f, indent=1)
        f.write("\n")
    try:
        import jsonschema
        jsonschema.validate(m, json.load(open("/root/.vp/MANIFEST.schema.json")))
        print("MANIFEST.json valid; %d checks, %d not_applicable" % (len(checks), len(na)))
    except ImportError:
        print("jsonschema not available; MANIFEST.json written (%d checks)" % len(checks))


if __name__ == "__main__":
    main()
