#!/usr/bin/env python3
"""c2gallina: translate small pure C leaf functions of /repo to Gallina (T1 tie).

Reads clang's JSON AST (clang -Xclang -ast-dump=json -Xclang -ast-dump-filter=<fn>) and emits one
Gallina definition over Z per C function.  Accepted subset: integer scalars and size_t, local
variables, fixed-size out-arrays indexed by constants (each element becomes a variable), pointer
aliases of such arrays, if/else, switch with constant cases, return, calls to other translated
functions, the operators + - * / % << >> & | ^ ! && || == != < <= > >=, integer casts.
Unsigned arithmetic is wrapped mod 2^width; signed arithmetic is left in Z (signed overflow is
undefined in C; theorems that need it state the no-overflow range).
Anything outside the subset raises Unsupported: the caller then falls back to the differential tie.
"""
import json, os, re, subprocess, sys


class Unsupported(Exception):
    pass


TYPES = {
    "size_t": (False, 64), "unsigned long": (False, 64), "uint64_t": (False, 64), "unsigned long long": (False, 64),
    "long": (True, 64), "int64_t": (True, 64), "long long": (True, 64),
    "int": (True, 32), "unsigned int": (False, 32), "uint32_t": (False, 32), "int32_t": (True, 32),
    "short": (True, 16), "unsigned short": (False, 16), "uint16_t": (False, 16), "int16_t": (True, 16),
    "char": (True, 8), "unsigned char": (False, 8), "signed char": (True, 8), "uint8_t": (False, 8), "int8_t": (True, 8),
}


def ctype(node):
    t = node.get("type", {})
    q = t.get("desugaredQualType") or t.get("qualType")
    q = q.replace("const ", "").strip()
    return q


def tinfo(q):
    if q in TYPES:
        return TYPES[q]
    raise Unsupported("type " + q)


def subrange(a, b):
    """is the value range of type a contained in that of type b?"""
    (sa, wa), (sb, wb) = a, b
    if sa == sb:
        return wa <= wb
    if not sa and sb:
        return wa < wb
    return False


def load_ast(src, fn, cflags):
    cmd = ["clang", "-std=gnu99", "-fsyntax-only", "-w"] + cflags + ["-Xclang", "-ast-dump=json", "-Xclang", "-ast-dump-filter=" + fn, src]
    p = subprocess.run(cmd, capture_output=True, text=True)
    txt = p.stdout
    dec = json.JSONDecoder()
    i = 0
    best = None
    while i < len(txt):
        while i < len(txt) and txt[i].isspace():
            i += 1
        if i >= len(txt):
            break
        d, j = dec.raw_decode(txt, i)
        i = j
        if d.get("kind") == "FunctionDecl" and d.get("name") == fn and any(c.get("kind") == "CompoundStmt" for c in d.get("inner", [])):
            best = d
    if best is None:
        raise Unsupported("function %s not found in %s" % (fn, src))
    return best


class Fn:
    def __init__(self, decl, known):
        self.decl = decl
        self.name = decl["name"]
        self.known = known          # name -> Fn of already translated functions
        self.params = []            # (name, kind, type) kind in scalar/array
        self.arrays = {}            # array name -> size
        self.alias = {}             # pointer local -> array name
        self.vtype = {}
        self.fresh = 0
        self.out_arrays = []
        body = None
        for c in decl.get("inner", []):
            if c["kind"] == "ParmVarDecl":
                q = ctype(c)
                if q.endswith("*"):
                    self.params.append((c["name"], "array", q[:-1].strip()))
                else:
                    tinfo(q)
                    self.params.append((c["name"], "scalar", q))
                    self.vtype[c["name"]] = q
            elif c["kind"] == "CompoundStmt":
                body = c
        self.body = body
        self.rettype = decl["type"]["qualType"].split("(")[0].strip()
        # array sizes: from the largest constant index used
        self._scan_arrays(body)

    def _scan_arrays(self, n):
        if n.get("kind") == "VarDecl" and ctype(n).endswith("*"):
            # pointer alias: T* c = param;
            init = n.get("inner", [])
            if init:
                tgt = self._strip(init[0])
                if tgt.get("kind") == "DeclRefExpr":
                    self.alias[n["name"]] = tgt["referencedDecl"]["name"]
        if n.get("kind") == "ArraySubscriptExpr":
            base = self._strip(n["inner"][0])
            idx = self._strip(n["inner"][1])
            if base.get("kind") != "DeclRefExpr" or idx.get("kind") != "IntegerLiteral":
                raise Unsupported("array subscript with non-constant index or base")
            name = base["referencedDecl"]["name"]
            name = self.alias.get(name, name)
            self.arrays[name] = max(self.arrays.get(name, 0), int(idx["value"]) + 1)
        for c in n.get("inner", []):
            self._scan_arrays(c)

    @staticmethod
    def _strip(n):
        while n.get("kind") in ("ImplicitCastExpr", "ParenExpr") and n.get("castKind") in (None, "LValueToRValue", "NoOp", "ArrayToPointerDecay", "FunctionToPointerDecay"):
            n = n["inner"][0]
        return n

    # ---------- expressions ----------
    def lval(self, n):
        n = self._strip(n)
        if n["kind"] == "DeclRefExpr":
            return n["referencedDecl"]["name"]
        if n["kind"] == "ArraySubscriptExpr":
            base = self._strip(n["inner"][0])["referencedDecl"]["name"]
            base = self.alias.get(base, base)
            idx = int(self._strip(n["inner"][1])["value"])
            return "%s_%d" % (base, idx)
        raise Unsupported("lvalue " + n["kind"])

    def expr(self, n, env):
        k = n["kind"]
        if k == "ParenExpr":
            return self.expr(n["inner"][0], env)
        if k == "IntegerLiteral":
            return "%d" % int(n["value"])
        if k == "CharacterLiteral":
            return "%d" % int(n["value"])
        if k in ("DeclRefExpr", "ArraySubscriptExpr"):
            v = self.lval(n)
            if v not in env:
                raise Unsupported("read of unknown or uninitialised variable " + v)
            return env[v]
        if k in ("ImplicitCastExpr", "CStyleCastExpr"):
            ck = n.get("castKind")
            inner = n["inner"][0]
            if ck in ("LValueToRValue", "NoOp"):
                return self.expr(inner, env)
            if ck == "IntegralCast":
                e = self.expr(inner, env)
                src, dst = tinfo(ctype(inner)), tinfo(ctype(n))
                if re.fullmatch(r"-?\d+", e):
                    v = int(e)
                    s, w = dst
                    v = v % (1 << w)
                    if s and v >= 1 << (w - 1):
                        v -= 1 << w
                    return "%d" % v if v >= 0 else "(%d)" % v
                if subrange(src, dst):
                    return e
                return "(%s %d %s)" % ("wraps" if dst[0] else "wrapu", dst[1], e)
            if ck == "IntegralToBoolean":
                return "(b2z (negb (%s =? 0)))" % self.expr(inner, env)
            raise Unsupported("cast " + str(ck))
        if k == "UnaryOperator":
            op = n["opcode"]
            e = self.expr(n["inner"][0], env)
            if op == "-":
                s, w = tinfo(ctype(n))
                return "(- %s)" % e if s else "(wrapu %d (- %s))" % (w, e)
            if op == "!":
                return "(b2z (%s =? 0))" % e
            if op == "+":
                return e
            if op == "~":
                s, w = tinfo(ctype(n))
                return "(Z.lnot %s)" % e if s else "(wrapu %d (Z.lnot %s))" % (w, e)
            raise Unsupported("unary " + op)
        if k == "BinaryOperator":
            op = n["opcode"]
            if op in ("==", "!=", "<", "<=", ">", ">=", "&&", "||"):
                return "(b2z %s)" % self.cond(n, env)
            a = self.expr(n["inner"][0], env)
            b = self.expr(n["inner"][1], env)
            s, w = tinfo(ctype(n))
            wrap = (lambda x: x) if s else (lambda x: "(wrapu %d %s)" % (w, x))
            if op == "+":
                return wrap("(%s + %s)" % (a, b))
            if op == "-":
                return wrap("(%s - %s)" % (a, b))
            if op == "*":
                return wrap("(%s * %s)" % (a, b))
            if op == "/":
                return "(Z.quot %s %s)" % (a, b)
            if op == "%":
                return "(Z.rem %s %s)" % (a, b)
            if op == "<<":
                return wrap("(Z.shiftl %s %s)" % (a, b))
            if op == ">>":
                return "(Z.shiftr %s %s)" % (a, b)
            if op == "&":
                return "(Z.land %s %s)" % (a, b)
            if op == "|":
                return "(Z.lor %s %s)" % (a, b)
            if op == "^":
                return "(Z.lxor %s %s)" % (a, b)
            raise Unsupported("binary " + op)
        if k == "ConditionalOperator":
            return "(if %s then %s else %s)" % (self.cond(n["inner"][0], env), self.expr(n["inner"][1], env), self.expr(n["inner"][2], env))
        if k == "CallExpr":
            callee = self._strip(n["inner"][0])
            if callee.get("kind") != "DeclRefExpr":
                raise Unsupported("indirect call")
            name = callee["referencedDecl"]["name"]
            if name not in self.known:
                raise Unsupported("call to untranslated function " + name)
            g = self.known[name]
            if g.out_arrays:
                raise Unsupported("call to a function with out-arrays in expression position")
            args = [self.expr(a, env) for a in n["inner"][1:]]
            return "(c_%s %s)" % (name, " ".join(args))
        raise Unsupported("expression " + k)

    def cond(self, n, env):
        n2 = n
        while n2["kind"] == "ParenExpr":
            n2 = n2["inner"][0]
        if n2["kind"] == "BinaryOperator":
            op = n2["opcode"]
            cmpmap = {"==": "=?", "<": "<?", "<=": "<=?", ">": ">?", ">=": ">=?"}
            if op in cmpmap:
                return "(%s %s %s)" % (self.expr(n2["inner"][0], env), cmpmap[op], self.expr(n2["inner"][1], env))
            if op == "!=":
                return "(negb (%s =? %s))" % (self.expr(n2["inner"][0], env), self.expr(n2["inner"][1], env))
            if op == "&&":
                return "(%s && %s)" % (self.cond(n2["inner"][0], env), self.cond(n2["inner"][1], env))
            if op == "||":
                return "(%s || %s)" % (self.cond(n2["inner"][0], env), self.cond(n2["inner"][1], env))
        if n2["kind"] == "UnaryOperator" and n2["opcode"] == "!":
            return "(negb %s)" % self.cond(n2["inner"][0], env)
        return "(negb (%s =? 0))" % self.expr(n2, env)

    # ---------- statements ----------
    def flat(self, n):
        if n is None:
            return []
        if n["kind"] == "CompoundStmt":
            out = []
            for c in n.get("inner", []):
                out += self.flat(c)
            return out
        if n["kind"] == "NullStmt":
            return []
        return [n]

    def has_return(self, stmts):
        for s in stmts:
            if s["kind"] == "ReturnStmt":
                return True
            if s["kind"] in ("IfStmt", "CompoundStmt", "SwitchStmt", "CaseStmt", "DefaultStmt"):
                if self.has_return([c for c in s.get("inner", [])[(1 if s["kind"] in ("IfStmt", "SwitchStmt") else 0):]] if s["kind"] != "CompoundStmt" else s.get("inner", [])):
                    return True
        return False

    def assigned(self, stmts, acc=None):
        acc = acc if acc is not None else []
        for s in stmts:
            k = s["kind"]
            if k == "BinaryOperator" and s["opcode"] == "=":
                v = self.lval(s["inner"][0])
                if v not in acc:
                    acc.append(v)
            elif k == "CompoundAssignOperator":
                v = self.lval(s["inner"][0])
                if v not in acc:
                    acc.append(v)
            elif k == "DeclStmt":
                pass
            elif k == "IfStmt":
                self.assigned(self.flat(s["inner"][1]), acc)
                if len(s["inner"]) > 2:
                    self.assigned(self.flat(s["inner"][2]), acc)
            elif k == "CompoundStmt":
                self.assigned(self.flat(s), acc)
        return acc

    def newname(self, v):
        self.fresh += 1
        return "%s_%d" % (v, self.fresh) if not re.search(r"_\d+$", v) else "%s'%d" % (v, self.fresh)

    def result(self, retexpr, env):
        if not self.out_arrays:
            return retexpr
        parts = [retexpr]
        for a in self.out_arrays:
            parts.append("(" + ", ".join(env.get("%s_%d" % (a, i), "0") for i in range(self.arrays[a])) + ")")
        return "(" + ", ".join(parts) + ")"

    def block_tuple(self, stmts, env, mods, ind):
        """translate stmts (no return inside) and finish with the tuple of the variables in mods"""
        def k(env2):
            vals = []
            for v in mods:
                if v not in env2:
                    raise Unsupported("variable %s may be used uninitialised after a branch" % v)
                vals.append(env2[v])
            return vals[0] if len(vals) == 1 else "(" + ", ".join(vals) + ")"
        return self.stmts(stmts, dict(env), k, ind)

    def stmts(self, stmts, env, k, ind):
        """k: env -> Gallina text for 'control reaches the end of this list'"""
        pad = "  " * ind
        if not stmts:
            return k(env)
        s, rest = stmts[0], stmts[1:]
        kind = s["kind"]
        if kind == "ReturnStmt":
            e = self.expr(s["inner"][0], env) if s.get("inner") else "0"
            return self.result(e, env)
        if kind == "DeclStmt":
            out = ""
            for d in s.get("inner", []):
                if d["kind"] != "VarDecl":
                    raise Unsupported("decl " + d["kind"])
                q = ctype(d)
                if q.endswith("*"):
                    continue  # alias, handled in _scan_arrays
                tinfo(q)
                self.vtype[d["name"]] = q
                if d.get("inner"):
                    e = self.expr(d["inner"][0], env)
                    nm = self.newname(d["name"])
                    env[d["name"]] = nm
                    out += "let %s := %s in\n%s" % (nm, e, pad)
            return out + self.stmts(rest, env, k, ind)
        if kind == "BinaryOperator" and s["opcode"] == "=":
            v = self.lval(s["inner"][0])
            e = self.expr(s["inner"][1], env)
            nm = self.newname(v)
            env[v] = nm
            return "let %s := %s in\n%s" % (nm, e, pad) + self.stmts(rest, env, k, ind)
        if kind == "CompoundStmt":
            return self.stmts(self.flat(s) + rest, env, k, ind)
        if kind == "IfStmt":
            c = self.cond(s["inner"][0], env)
            A = self.flat(s["inner"][1])
            B = self.flat(s["inner"][2]) if len(s["inner"]) > 2 else []
            if self.has_return(A) or self.has_return(B):
                ta = self.stmts(A + rest, dict(env), k, ind + 1)
                tb = self.stmts(B + rest, dict(env), k, ind + 1)
                return "if %s then\n%s  %s\n%selse\n%s  %s" % (c, pad, ta, pad, pad, tb)
            mods = self.assigned(A + B)
            if not mods:
                return self.stmts(rest, env, k, ind)
            ta = self.block_tuple(A, env, mods, ind + 1)
            tb = self.block_tuple(B, env, mods, ind + 1)
            names = []
            for v in mods:
                nm = self.newname(v)
                names.append(nm)
            for v, nm in zip(mods, names):
                env[v] = nm
            pat = names[0] if len(names) == 1 else "'(" + ", ".join(names) + ")"
            return "let %s := if %s then\n%s    %s\n%s  else\n%s    %s in\n%s" % (pat, c, pad, ta, pad, pad, tb, pad) + self.stmts(rest, env, k, ind)
        if kind == "SwitchStmt":
            scrut = self.expr(s["inner"][0], env)
            body = s["inner"][1]
            arms = []   # (value or None, stmts)
            cur = None
            for c in body.get("inner", []):
                node = c
                while node["kind"] in ("CaseStmt", "DefaultStmt"):
                    if node["kind"] == "CaseStmt":
                        val = self._strip(node["inner"][0])
                        if val["kind"] == "ConstantExpr":
                            val = self._strip(val["inner"][0])
                        cur = (int(val["value"]), [])
                        node = node["inner"][1]
                    else:
                        cur = (None, [])
                        node = node["inner"][0]
                    arms.append(cur)
                if cur is None:
                    raise Unsupported("statement before first case")
                cur[1].extend(self.flat(node))
            # every arm must end in return or break (no fall-through between non-empty arms)
            for i, (v, st) in enumerate(arms):
                if st and st[-1]["kind"] not in ("ReturnStmt", "BreakStmt"):
                    if i + 1 < len(arms):
                        raise Unsupported("switch fall-through")
            # empty arms fall through to the next
            for i in range(len(arms) - 2, -1, -1):
                if not arms[i][1]:
                    arms[i] = (arms[i][0], arms[i + 1][1])
            default = [st for v, st in arms if v is None]
            default = default[0] if default else []
            txt = ""
            closes = 0
            for v, st in arms:
                if v is None:
                    continue
                st2 = [x for x in st if x["kind"] != "BreakStmt"]
                txt += "if %s =? %d then %s else\n%s" % (scrut, v, self.stmts(st2 + rest, dict(env), k, ind + 1), pad)
            st2 = [x for x in default if x["kind"] != "BreakStmt"]
            txt += self.stmts(st2 + rest, dict(env), k, ind + 1)
            return txt
        raise Unsupported("statement " + kind)

    def translate(self):
        env = {}
        args = []
        for name, kind, q in self.params:
            if kind == "scalar":
                env[name] = name
                args.append("(%s:Z)" % name)
            else:
                if name not in self.arrays:
                    raise Unsupported("array parameter %s is not indexed by constants" % name)
                self.out_arrays.append(name)   # treated as in/out; initial contents unknown -> not readable before written
        def kend(env2):
            if self.rettype == "void":
                return self.result("0", env2)
            raise Unsupported("control reaches end of non-void function")
        body = self.stmts(self.flat(self.body), env, kend, 1)
        return "Definition c_%s %s :=\n  %s.\n" % (self.name, " ".join(args), body)


PRELUDE = """(* GENERATED by tools/c2gallina.py from /repo's working tree -- do not edit.
   One Gallina definition per C function, statement by statement. *)
From Coq Require Import ZArith Bool.
Require Import SZV.Base.CSem.
Local Open Scope Z_scope.
Local Open Scope bool_scope.

"""


def translate_functions(specs, cflags):
    """specs: list of (source file, function name).  Returns (text, list of (fn, error))."""
    known = {}
    out = PRELUDE
    failed = []
    for src, fn in specs:
        try:
            decl = load_ast(src, fn, cflags)
            f = Fn(decl, known)
            txt = f.translate()
            known[fn] = f
            out += "(* %s : %s *)\n" % (os.path.relpath(src, "/repo") if src.startswith("/repo") else src, fn) + txt + "\n"
        except Unsupported as e:
            failed.append((fn, str(e)))
        except (KeyError, IndexError, TypeError) as e:
            failed.append((fn, "translator error: %r" % (e,)))
    return out, failed


if __name__ == "__main__":
    repo = os.environ.get("VERIF_REPO", "/repo")
    specs = [(os.path.join(repo, a.split(":")[0]), a.split(":")[1]) for a in sys.argv[1:]]
    txt, failed = translate_functions(specs, ["-I" + os.path.join(repo, "sz/include"), "-I" + os.path.join(repo, "_build")])
    sys.stdout.write(txt)
    for fn, e in failed:
        sys.stderr.write("UNSUPPORTED %s: %s\n" % (fn, e))
