#!/bin/sh
# MANIFEST.setup_cmd: build the framework offline from files on disk only.
set -e
cd "$(dirname "$0")/.."
mkdir -p ocaml/gen evidence replays .cache
cd coq
coq_makefile -f _CoqProject -o Makefile
timeout 3000 make -j16
cd ..
sh ocaml/build.sh
echo "setup done"
