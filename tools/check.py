#!/usr/bin/env python3
"""Entry point of every registered check:  python3 tools/check.py <property id> [quick|thorough]
   (VERIF_SEED and VERIF_TIER are honoured; replay:  python3 tools/check.py <id> --replay <file>)."""
import importlib, os, sys, traceback
sys.path.insert(0, os.path.dirname(os.path.abspath(__file__)))
import lib


def main():
    if len(sys.argv) < 2:
        print("usage: check.py <Cxx> [quick|thorough] [--replay file]")
        sys.exit(2)
    pid = sys.argv[1].upper()
    mod = importlib.import_module("props." + pid.lower())
    chk = lib.Check(pid, level=getattr(mod, "LEVEL", "proof"))
    if "--replay" in sys.argv:
        path = sys.argv[sys.argv.index("--replay") + 1]
        sys.exit(mod.replay(chk, path))
    try:
        mod.run(chk)
    except SystemExit:
        raise
    except Exception as e:
        # the machinery itself failed (e.g. the tree no longer builds): the property is not shown
        traceback.print_exc()
        chk.broken.append("check machinery error: %s" % (str(e)[:500],))
    chk.finish()


if __name__ == "__main__":
    main()
