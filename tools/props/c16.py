"""C16 — config-file and programmatic initialisation set exactly the stated parameters."""
import json, os, struct
import lib

LEVEL = "proof"
PROP_FILE = "Properties_C16"

SZMODE = {"SZ_BEST_SPEED": 0, "SZ_DEFAULT_COMPRESSION": 2, "SZ_BEST_COMPRESSION": 1}
GZIP = {"Gzip_NO_COMPRESSION": 0, "Gzip_BEST_SPEED": 1, "Gzip_BEST_COMPRESSION": 9, "Gzip_DEFAULT_COMPRESSION": -1}
ZSTD = {"Zstd_BEST_SPEED": 1, "Zstd_HIGH_SPEED": 3, "Zstd_HIGH_COMPRESSION": 19, "Zstd_BEST_COMPRESSION": 22, "Zstd_DEFAULT_COMPRESSION": 3}
EBM = {"ABS": 0, "REL": 1, "VR_REL": 1, "ABS_AND_REL": 2, "ABS_OR_REL": 3, "PW_REL": 10, "PSNR": 4, "NORM": 5, "abs": 0, "rel": 1, "abs_or_rel": 3,
       "ABS_AND_PW_REL": 11, "REL_OR_PW_REL": 14}
PWR = {"MIN": 0, "AVG": 1, "MAX": 2}
SOL = {"SZ": 101, "SZ_Transpose": 104}


def dbits(x):
    return struct.unpack("<Q", struct.pack("<d", x))[0]


def f32(bits):
    return struct.unpack("<f", struct.pack("<I", bits))[0]


def shex(v):
    return "-%x" % -v if v < 0 else "%x" % v


def kv(line):
    d = {}
    for tok in line.split(" "):
        if "=" in tok:
            k, v = tok.split("=", 1)
            d[k] = v
    return d


def dbl_text(x, rng):
    forms = [repr(x), "%.17g" % x, "%.17e" % x, ("%.17e" % x).upper(), ("%.17g" % x).replace("e", "E")]
    return rng.choice(forms)


def gen_params(rng):
    p = {}
    p["sol"] = rng.choice(list(SOL))
    p["mqi"] = rng.choice((65536, 32768, 1024, 2048, 131072))
    p["qi"] = rng.choice((0, 0, 256, 32, 2, 65536, 1000))
    p["pthr"] = rng.choice((0x3f7d70a4, 0x3f000000, 0x3f800000, 0x3f7fbe77, 0x3e99999a))
    p["sdist"] = rng.choice((100, 1, 3, 50))
    p["szmode"] = rng.choice(list(SZMODE))
    p["lossless"] = rng.choice(("GZIP_COMPRESSOR", "ZSTD_COMPRESSOR"))
    p["reg"] = rng.choice(("YES", "NO"))
    p["gzip"] = rng.choice(list(GZIP))
    p["zstd"] = rng.choice(list(ZSTD))
    p["protect"] = rng.choice(("YES", "NO"))
    p["snap"] = rng.choice((5, 1, 10))
    p["ebm"] = rng.choice(list(EBM))
    p["abs"] = rng.choice((1e-4, 1e-3, 0.5, 3.0, 1.25e-7, 0.1))
    p["rel"] = rng.choice((1e-4, 1e-2, 0.001))
    p["psnr"] = rng.choice((90.0, 60.5, 120.0))
    p["norm"] = rng.choice((0.05, 1.5))
    p["pwr"] = rng.choice((1e-3, 1e-2, 1e-6))
    p["seg"] = rng.choice((36, 16))
    p["acc"] = rng.choice((0, 1))
    p["pwrtype"] = rng.choice(list(PWR))
    return p


KEYNAMES = {"mqi": "max_quant_intervals", "qi": "quantization_intervals", "pthr": "predThreshold", "sdist": "sampleDistance", "szmode": "szMode",
            "lossless": "losslessCompressor", "reg": "withLinearRegression", "gzip": "gzipMode", "zstd": "zstdMode", "protect": "protectValueRange",
            "snap": "snapshotCmprStep", "ebm": "errorBoundMode", "abs": "absErrBound", "rel": "relBoundRatio", "psnr": "psnr", "norm": "normErr",
            "pwr": "pw_relBoundRatio", "seg": "segment_size", "acc": "accelerate_pw_rel_compression", "pwrtype": "pwr_type"}


def render(p, rng, drop=(), override=None, both_levels=True):
    """returns (file text, model token string)"""
    override = override or {}
    lines, toks = [], []

    def emit(section_key, text, tok):
        k = section_key
        if rng.random() < 0.3:
            k = k.upper() if rng.random() < 0.5 else k.lower()
        sp1, sp2 = rng.choice(("", " ", "   ", "\t")), rng.choice(("", " ", "  "))
        style = rng.randrange(5)
        if style == 0 and " " not in text:
            v = '"%s"' % text
        elif style == 1 and " " not in text:
            v = "'%s'" % text
        elif style == 2:
            v = text + rng.choice(("  ; trailing comment", " # note", ";x"))
        else:
            v = text
        lines.append(rng.choice(("", "  ", "\t")) + k + sp1 + "=" + sp2 + v)
        if rng.random() < 0.3:
            lines.append(rng.choice(("", "# a comment line", "; another = comment", "   ")))
        return tok

    lines.append(rng.choice(("[ENV]", "[env]", " [ENV] ")))
    toks.append("env:dataendiantype=S:LITTLE_ENDIAN_DATA")
    emit("dataEndianType", "LITTLE_ENDIAN_DATA", None)
    if "sol" not in drop:
        v = override.get("sol", p["sol"])
        emit("sol_name", v, None)
        toks.append("env:sol_name=S:" + v)
    lines.append(rng.choice(("[PARAMETER]", "[parameter]", "[Parameter]")))
    order = list(KEYNAMES)
    rng.shuffle(order)
    for f in order:
        if f in drop:
            continue
        if f in ("gzip", "zstd") and not both_levels:
            if (f == "gzip") != (p["lossless"] == "GZIP_COMPRESSOR"):
                continue
        v = override.get(f, p[f])
        key = KEYNAMES[f]
        lk = "parameter:" + key.lower()
        if f in ("mqi", "qi", "sdist", "snap", "seg", "acc"):
            text = str(v) if rng.random() < 0.8 or v < 0 else hex(v)
            toks.append("%s=I:%s" % (lk, shex(v)))
        elif f == "pthr":
            text = repr(f32(v))
            toks.append("%s=F:%x" % (lk, v))
        elif f in ("abs", "rel", "psnr", "norm", "pwr"):
            text = dbl_text(v, rng)
            toks.append("%s=D:%x" % (lk, dbits(v)))
        else:
            text = v
            toks.append("%s=S:%s" % (lk, v))
        emit(key, text, None)
    text = "\n".join(lines) + ("\n" if rng.random() < 0.7 else "")       # the last line of a file need not end in a newline
    return text, ";".join(toks)


def prog_fields(p):
    """the 26 fields of a caller-filled sz_params structure (exe fields 0)"""
    lossless = 0 if p["lossless"] == "GZIP_COMPRESSOR" else 1
    level = ZSTD[p["zstd"]] if lossless else GZIP[p["gzip"]]
    f = [0, SOL[p["sol"]], p["mqi"], p["qi"], 0, p["pthr"], p["sdist"], SZMODE[p["szmode"]], lossless, 1 if p["reg"] == "YES" else 0, level,
         1 if p["protect"] == "YES" else 0, 0, p["snap"], EBM[p["ebm"]], dbits(p["abs"]), dbits(p["rel"]), dbits(p["psnr"]), dbits(p["norm"]),
         dbits(p["pwr"]), p["seg"], p["acc"], PWR[p["pwrtype"]], 0, 0, 0]
    return ",".join(shex(v) for v in f)


def run(chk):
    rng = chk.rng
    thorough = chk.tier == "thorough"
    exe = lib.build_impl("plain")
    chk.prove(PROP_FILE)
    model = lib.build_model()
    icases, mcases, meta = [], [], []
    nparams = 600 if thorough else 90
    for _ in range(nparams):
        p = gen_params(rng)
        # well-formed: three renderings of the same file (different syntax), with both level keys or only the selected one
        for r in range(3):
            text, toks = render(p, rng, both_levels=(r != 2))
            icases.append("conf f " + text.encode().hex())
            mcases.append("conf f " + toks)
            meta.append(("file", p))
        icases.append("conf p " + prog_fields(p))
        mcases.append("conf p " + prog_fields(p))
        meta.append(("prog", p))
        # ill-formed variants
        bad = rng.choice(("szmode", "lossless", "gzip", "zstd", "ebm", "pwrtype", "sol", "oddqi", "drop_szmode", "drop_ebm", "missing"))
        if bad == "missing":
            icases.append("conf m"); mcases.append("conf m"); meta.append(("bad", bad))
        elif bad == "oddqi":
            text, toks = render(p, rng, override={"qi": rng.choice((1, 3, 255, 1001))})
            icases.append("conf f " + text.encode().hex()); mcases.append("conf f " + toks); meta.append(("bad", bad))
            q = dict(p); q["qi"] = 255
            icases.append("conf p " + prog_fields(q)); mcases.append("conf p " + prog_fields(q)); meta.append(("bad", "oddqi-prog"))
        elif bad.startswith("drop_"):
            text, toks = render(p, rng, drop=(bad[5:],))
            icases.append("conf f " + text.encode().hex()); mcases.append("conf f " + toks); meta.append(("bad", bad))
        else:
            text, toks = render(p, rng, override={bad: rng.choice(("WRONG_VALUE", "sz_best_speed", "Gzip_FAST", "zstd", "ABSOLUTE", "MEDIAN", "SZ3"))})
            icases.append("conf f " + text.encode().hex()); mcases.append("conf f " + toks); meta.append(("bad", bad))
    tmp = lib.scratch("szv-conf-")
    io = lib.run_cases(exe, icases, env={"SZV_TMP": tmp}, timeout=1800)
    mo = lib.run_cases(model, mcases, timeout=1800)
    nfail = nbad = 0
    # (1) model vs implementation on every case
    for i, (c, r, m) in enumerate(zip(icases, io, mo)):
        chk.cov["evaluations"] += 1
        chk.distinct.add(c)
        rr = " ".join(t for t in r.split(" ") if not t.startswith("cd="))
        if rr != m:
            nbad += 1
            if nbad <= 3:
                chk.broken.append("correspondence C16 on case %d (%s): model `%s` impl `%s`" % (i, meta[i][0], m[:160], rr[:160]))
    # (2) the property on the implementation alone
    i = 0
    while i < len(icases):
        kind, p = meta[i]
        if kind == "file":
            files = io[i:i + 3]
            prog = io[i + 3]
            fs = [kv(x) for x in files]
            pd = kv(prog)
            for j, fd in enumerate(fs):
                why = None
                if fd.get("ret") != "0" or pd.get("ret") != "0":
                    why = "well-formed file / structure rejected (file ret %s, programmatic ret %s)" % (fd.get("ret"), pd.get("ret"))
                elif fd["fields"] != pd["fields"]:
                    a, b = fd["fields"].split(","), pd["fields"].split(",")
                    k = [n for n in range(len(a)) if a[n] != b[n]]
                    why = "file-based and programmatic initialisation differ in field(s) %s" % k
                elif fd.get("cd") != pd.get("cd"):
                    why = "streams compressed after file-based and programmatic initialisation differ"
                if why:
                    nfail += 1
                    if nfail <= 6:
                        chk.violation(why, {"case": icases[i + j], "prog_case": icases[i + 3], "impl": files[j][:300], "impl_prog": prog[:300],
                                            "file_text": bytes.fromhex(icases[i + j].split(" ")[2]).decode(), "variant": "plain"})
            i += 4
        else:
            d = kv(io[i])
            if d.get("ret") != "-1":
                nfail += 1
                if nfail <= 6:
                    txt = bytes.fromhex(icases[i].split(" ")[2]).decode() if icases[i].startswith("conf f") else icases[i]
                    chk.violation("ill-formed initialisation (%s) did not report failure" % p, {"case": icases[i], "impl": io[i][:300], "file_text": txt, "variant": "plain"})
            i += 1
    chk.cov["traces_validated_against_impl"] = len(icases) - nbad
    chk.cov["rule"] = ("random parameter structures over the documented keys/values; each rendered three times as a configuration file with random key "
                       "case, spacing, quoting, inline and full-line comments, blank lines, key order, float syntaxes (repr, %.17g, %.17e, upper-case E), "
                       "hex integers, with both level keys or only the selected back end's; the same structure passed to SZ_Init_Params; one ill-formed "
                       "variant each (unknown value per validated key, odd interval count in file and structure, missing required key, missing file). "
                       "Compared: return value, 26 fields of confparams_cpr/exe_params, digest of a stream compressed under each")
    chk.cov["input_distribution"] = {"files": sum(1 for m in meta if m[0] == "file"), "programmatic": sum(1 for m in meta if m[0] == "prog"),
                                     "ill_formed": sum(1 for m in meta if m[0] == "bad")}
    chk.sample({"file_text": bytes.fromhex(icases[0].split(" ")[2]).decode()[:600], "model_tokens": mcases[0][:300]})
    chk.assumptions += ["strtol/atof (libc) give the numeric tokens; the INI lexer is tied by rendering the same association list in many syntaxes, not modelled",
                        "PASTRI configurations are not modelled"]


def replay(chk, path):
    r = json.load(open(path))
    if "case" not in r:
        print("replay names a broken obligation, not an input:", r.get("broken"))
        return 1
    exe = lib.build_impl("plain")
    cases = [r["case"]] + ([r["prog_case"]] if "prog_case" in r else [])
    outs = lib.run_cases(exe, cases, env={"SZV_TMP": lib.scratch("szv-conf-")})
    for c, o in zip(cases, outs):
        print("case:", c[:120]); print("impl:", o[:300])
    if "file_text" in r:
        print("file:\n" + r["file_text"])
    if len(outs) == 2:
        a, b = kv(outs[0]), kv(outs[1])
        bad = a.get("ret") != "0" or b.get("ret") != "0" or a.get("fields") != b.get("fields") or a.get("cd") != b.get("cd")
    else:
        bad = kv(outs[0]).get("ret") != "-1"
    print("result:", "violation reproduced" if bad else "property holds on this case")
    return 1 if bad else 0
