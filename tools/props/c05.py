"""C05 — reconstruction is independent of earlier calls in the same process."""
import json, struct, os, struct
import lib, gen

LEVEL = "proof"
PROP_FILE = "Properties_C05"


def dbits(x):
    return "%x" % struct.unpack("<Q", struct.pack("<d", x))[0]


def kv(line):
    d = {}
    for tok in line.split(" "):
        if "=" in tok:
            k, v = tok.split("=", 1)
            d[k] = v
    return d


SHAPES = [(64,), (15,), (300,), (21,), (10, 10), (30, 40), (2, 40), (8, 9, 10), (6, 6, 6), (3, 4, 5, 6)]
CFGS = ["szMode=SZ_BEST_SPEED", "-", "szMode=SZ_BEST_SPEED;quantization_intervals=256", "quantization_intervals=64", "szMode=SZ_BEST_SPEED;withLinearRegression=NO",
        "losslessCompressor=GZIP_COMPRESSOR", "szMode=SZ_BEST_SPEED;protectValueRange=YES", "szMode=SZ_BEST_SPEED;errorBoundMode=REL;relBoundRatio=1E-2",
        "szMode=SZ_BEST_SPEED;errorBoundMode=PW_REL;pw_relBoundRatio=1E-2", "szMode=SZ_BEST_SPEED;absErrBound=1E-2;max_quant_intervals=1024",
        "szMode=SZ_BEST_SPEED;errorBoundMode=PSNR;psnr=60"]


def gen_compress(rng, kinds="cCk"):
    """one compression token; returns (token, is_int)"""
    how = rng.choice(kinds)
    t = rng.choice(SHAPES)
    ty = rng.choice((0, 0, 1, 1, 2, 3, 4, 5, 6, 7, 8, 9))
    n = 1
    for v in t:
        n *= v
    dims = ",".join("%x" % v for v in [0] * (5 - len(t)) + list(t))
    kind = rng.choice((0, 1, 2, 3, 6))
    seed = rng.getrandbits(20)
    if ty < 2:
        scale = rng.choice((1.0, 100.0))
        mode = rng.choice((0, 0, 1, 2, 3, 4, 5, 10, 10))
        absb = rng.choice((0.1, 1e-3, 1e-7)) * scale
    else:
        scale = 3.0 if ty in (2, 3) else 200.0
        mode = rng.choice((0, 0, 1, 4))
        absb = rng.choice((1.0, 2.0, 5.0))
    rel = rng.choice((1e-2, 1e-3))
    pwr = rng.choice((1e-2, 1e-3, 1e-6)) if mode == 10 else 0.0
    if how == "c":
        return "c:%x:%x:%s:%s:%s:%s:%d:%x:%s" % (ty, mode, dbits(absb), dbits(rel), dbits(pwr), dims, kind, seed, dbits(scale)), ty >= 2
    if how == "C":
        return "C:%x:%s:%d:%x:%s" % (ty, dims, kind, seed, dbits(scale)), ty >= 2
    return "k:%s:%x:%s:%d:%x:%s" % (rng.choice(("SZ1.4", "SZ1.4", "SZ2.1", "SZ")), ty, dims, kind, seed, dbits(scale)), ty >= 2


MODE_NAMES = {0: "ABS", 1: "REL", 2: "ABS_AND_REL", 3: "ABS_OR_REL", 4: "PSNR", 5: "NORM", 10: "PW_REL"}


def gen_threadsafe(rng):
    """the thread-safe customize entry called with bounds of its own in the parameter block (float / double only)"""
    t = rng.choice(SHAPES)
    dims = ",".join("%x" % v for v in [0] * (5 - len(t)) + list(t))
    scale = rng.choice((1.0, 100.0))
    mode = rng.choice((0, 0, 1, 2, 3, 10))
    return "T:%x:%x:%s:%s:%s:%s:%d:%x:%s" % (rng.choice((0, 1)), mode, dbits(rng.choice((0.5, 1e-4, 3e-2)) * scale), dbits(rng.choice((5e-2, 2e-4))),
                                             dbits(rng.choice((3e-2, 1e-4))), dims, rng.choice((0, 1, 2, 3, 6)), rng.getrandbits(20), dbits(scale))


def gen_history(rng, maxlen, threadsafe=0.0):
    ops, isint = [], []
    for _ in range(rng.randint(1, maxlen)):
        r = rng.random()
        if rng.random() < threadsafe:
            ops.append(gen_threadsafe(rng)); isint.append(False)
        elif r < 0.45 or not isint:
            tok, ii = gen_compress(rng)
            ops.append(tok); isint.append(ii)
        elif r < 0.75:
            ops.append("d:%d" % rng.randrange(64))
        elif r < 0.9:
            ops.append("m:%d" % rng.randrange(64))
        else:
            ops.append("f")
    return ops


def gen_cases(chk):
    rng = chk.rng
    thorough = chk.tier == "thorough"
    cases = []
    # corpus: the histories that failed before the repairs (kept first)
    one = dbits(1.0)
    cases.append(("szMode=SZ_BEST_SPEED", ["c:7:0:%s:%s:0:0,0,0,0,64:1:6:%s" % (dbits(2.0), dbits(1e-3), dbits(200.0)), "d:0"],
                  "c:0:0:%s:%s:0:0,0,0,1e,28:0:9:%s" % (dbits(0.1), dbits(1e-3), one)))
    cases.append(("szMode=SZ_BEST_SPEED;absErrBound=1E-2", ["c:0:1:%s:%s:0:0,0,0,0,64:0:5:%s" % (dbits(0.1), dbits(0.1), one)], "C:0:0,0,0,1e,28:0:9:%s" % one))
    cases.append(("szMode=SZ_BEST_SPEED;absErrBound=1E-2", ["k:SZ1.4:0:0,0,0,a,a:1:6:%s" % dbits(100.0)], "C:0:0,0,0,1e,28:0:9:%s" % one))
    cases.append(("szMode=SZ_BEST_SPEED;errorBoundMode=PW_REL;pw_relBoundRatio=1E-2", ["c:0:a:0:0:%s:0,0,0,0,64:0:5:%s" % (dbits(1e-6), one)], "C:0:0,0,0,0,c8:0:9:%s" % one))
    # the configured defaults (mode, bound and each of the three ratios) are what a defaults / customize call compresses with after any earlier call:
    # one configuration per ratio in use, one earlier explicit compression, observed through every defaults entry
    for cfgd in ("szMode=SZ_BEST_SPEED;errorBoundMode=REL;relBoundRatio=2E-2", "szMode=SZ_BEST_SPEED;errorBoundMode=ABS_AND_REL;relBoundRatio=2E-2;absErrBound=5E-1",
                 "szMode=SZ_BEST_SPEED;errorBoundMode=PW_REL;pw_relBoundRatio=3E-2", "szMode=SZ_BEST_SPEED;errorBoundMode=ABS;absErrBound=3E-2"):
        for k, obs in enumerate(("C:0:0,0,0,0,12c:0:9:%s" % one, "k:SZ:1:0,0,0,14,1e:0:a:%s" % one, "K:SZ:0:0,0,0,0,12c:0:b:%s" % one)):
            cases.append((cfgd, ["c:%x:0:%s:%s:0:0,0,0,0,64:0:5:%s" % (k % 2, dbits(0.25), dbits(0.125), one)], obs))
    # a constant array (value range within the bound) takes the early-return branch of the entry: per-call state must be put back there too
    for ty in (0, 1):
        cases.append(("szMode=SZ_BEST_SPEED", ["c:%x:0:%s:%s:0:0,0,0,0,100:6:5:%s" % (ty, dbits(1e-3), dbits(1e-3), one)],
                      "c:%x:a:0:0:%s:0,0,0,0,1000:0:9:%s" % (ty, dbits(1e-2), one)))
    # a decompression that stops early (tiny array: no header is parsed) leaves exe_params zeroed: the next compression must re-derive all of it
    spiky = "c:0:0:%s:%s:0:0,0,0,0,1000:4:77:%s" % (dbits(1e-2), dbits(1e-3), one)
    for ty in (0, 1):
        cases.append(("szMode=SZ_BEST_SPEED", ["c:%x:0:%s:%s:0:0,0,0,0,a:0:5:%s" % (ty, dbits(1e-2), dbits(1e-3), one), "d:0"], spiky))
        cases.append(("-", ["c:%x:0:%s:%s:0:0,0,0,0,a:0:5:%s" % (ty, dbits(1e-2), dbits(1e-3), one), "d:0", "m:0"], spiky.replace("c:0:", "c:1:", 1)))
    n = 400 if thorough else 70
    for k in range(n):
        cfg = rng.choice(CFGS)
        h = gen_history(rng, 24 if thorough else 10)
        obs, _ = gen_compress(rng, "ccCk")
        if k % 2 == 1:
            # a compression of other data of the same element type (another scale: another value range) between the observed compression
            # and the decompression of its stream
            f = obs.split(":")
            ty = int(f[2 if obs[0] == "k" else 1], 16)
            for _try in range(20):
                inter, _i = gen_compress(rng, "c")
                g = inter.split(":")
                if int(g[1], 16) == ty:
                    break
            g[1] = "%x" % ty
            sc = struct.unpack("<d", struct.pack("<Q", int(g[9], 16)))[0]
            g[9] = dbits(sc * rng.choice((0.01, 7.0)) if ty < 2 else sc)
            if ty >= 2 and int(g[2], 16) not in (0, 1, 4):
                g[2] = "0"
            obs = obs + " " + ":".join(g)
        cases.append((cfg, h, obs))
    # the thread-safe customize entry after a decompression of a stream made with another (fixed) interval count: it derives its
    # quantisation state from the configuration like every other entry
    for ty in (0, 1):
        fixed = "c:%x:0:%s:%s:0:0,0,0,0,3e8:0:%x:%s" % (ty, dbits(1e-2), dbits(1e-3), 0x31 + ty, one)
        for nm in ("SZ", "SZ1.4"):
            cases.append(("szMode=SZ_BEST_SPEED;quantization_intervals=256", [fixed, "f", "d:0"], "K:%s:%x:0,0,0,0,7d0:0:%x:%s" % (nm, ty, 0x41 + ty, dbits(100.0))))
            cases.append(("szMode=SZ_BEST_SPEED", [fixed, "d:0"], "K:%s:%x:0,0,0,1e,28:2:%x:%s" % (nm, ty, 0x43 + ty, one)))
    # the thread-safe customize entry with bounds of its own somewhere in the history, observed: a defaults / customize compression (which reads the
    # configured bounds) or an explicit one
    for k in range(60 if thorough else 16):
        cfg = rng.choice(CFGS)
        h = gen_history(rng, 6, threadsafe=0.4)
        if k % 4 != 3:
            h.append(gen_threadsafe(rng))
            if k % 4 == 1:
                h += [rng.choice(("d:0", "m:0", "f"))]
        obs, _ = gen_compress(rng, "CCkc")
        cases.append((cfg, h, obs))
    # observed: SZ_compress_customize("SZ") with a parameter block of its own (it initialises the library with that block and compresses): the block
    # is the configuration of the pair, whatever was initialised, compressed or left behind before
    for k in range(40 if thorough else 12):
        cfg = rng.choice(CFGS[2:])
        h = gen_history(rng, 6, threadsafe=0.15)
        tok, _ = gen_compress(rng, "c")
        f = tok.split(":")
        if int(f[1], 16) < 2 and k % 2 == 0:
            f[3] = dbits(struct.unpack("<d", struct.pack("<Q", int(f[3], 16)))[0] * 37.0)      # a bound unlike the configured one
        cases.append((cfg, h, "U:" + ":".join(f[1:])))
    # value-range protection: what the decompressor clamps to must come from the stream, not from whatever was compressed last
    for ty in (0, 1):
        for big, small in ((100.0, 1.0), (1.0, 100.0)):
            a_ = "c:%x:0:%s:%s:0:0,0,0,0,3e8:0:%x:%s" % (ty, dbits(1e-3 * big), dbits(1e-3), 0x77 + ty, dbits(big))
            b_ = "c:%x:0:%s:%s:0:0,0,0,0,3e8:2:%x:%s" % (ty, dbits(1e-3 * small), dbits(1e-3), 0x99 + ty, dbits(small))
            cases.append(("szMode=SZ_BEST_SPEED;protectValueRange=YES", [], a_ + " " + b_))
    return cases


def left_bounds(cfg, h, obs, snaps, chk):
    """(final configuration, index of the thread-safe operation whose bounds are still in it or None, the `hist` case of a fresh process configured with them or None)"""
    c0 = snaps[0].split(";")[0]
    cfin, left_by = c0, None
    for j, sn in enumerate(snaps[1:len(h) + 1]):
        cj = sn.lstrip("!").split(";")[0]
        if cj != cfin and h[j][0] == "T" and cj.split(",")[:11] + cj.split(",")[15:] == cfin.split(",")[:11] + cfin.split(",")[15:]:
            left_by = j
        elif cj == c0:
            left_by = None
        cfin = cj
    if left_by is None or obs[0] not in "CkK" or "threadsafe_leaves_bounds" not in chk.known_classes:
        return cfin, left_by, None
    f = cfin.split(",")
    md = int(f[11], 16)
    if md not in MODE_NAMES:
        return cfin, left_by, None
    keep = [x for x in cfg.split(";") if x != "-" and x.split("=")[0] not in ("errorBoundMode", "absErrBound", "relBoundRatio", "pw_relBoundRatio")]
    over = ";".join(keep + ["errorBoundMode=%s" % MODE_NAMES[md]] + ["%s=%r" % (k, struct.unpack("<d", struct.pack("<Q", int(v, 16)))[0])
                                                                   for k, v in (("absErrBound", f[12]), ("relBoundRatio", f[13]), ("pw_relBoundRatio", f[14]))])
    return cfin, left_by, "hist %s _ %s" % (over, obs.split(" ")[0])


def model_history(h, snaps):
    """the history as the model's (kind.x.y) triples, dropping operations the implementation skipped;
    chosen interval count = what exe_params held after the compression (choice oracle)"""
    toks, k = [], 0
    nstreams = 0
    expect = []
    for op, sn in zip(h, snaps[1:]):
        skipped = sn.startswith("!")
        exe = sn.lstrip("!").split(";")[1]
        if skipped:
            continue
        if op[0] in "cCkT":
            ty = int(op.split(":")[2 if op[0] == "k" else 1], 16)
            if nstreams < 64:
                nstreams += 1
            toks.append("0.%x.%s" % (1 if ty >= 2 else 0, exe.split(",")[1]))
        elif op[0] == "d":
            toks.append("1.%x.%s" % (2 * (int(op[2:]) % nstreams) + int(exe.split(",")[0], 16), exe.split(",")[1]))
        elif op[0] == "m":
            toks.append("2.%x.0" % (int(op[2:]) % nstreams))
        else:
            toks.append("3.0.0")
        expect.append(exe)
    return toks, expect


def run(chk):
    notes = gen.gen_facts()[1]
    exe = lib.build_impl("plain")
    chk.prove(PROP_FILE)
    model = lib.build_model()
    cases = gen_cases(chk)
    hist = ["hist %s %s %s" % (cfg, "/".join(h) or "_", obs) for cfg, h, obs in cases]
    # the fresh process of a `U` pair starts from another configuration than the history's: the pair's configuration is its own block
    fresh = ["hist %s _ %s" % (cfg if obs[0] != "U" else ("-" if cfg != "-" else "szMode=SZ_BEST_SPEED;errorBoundMode=REL;relBoundRatio=1E-2"), obs.split(" ")[0]) for cfg, h, obs in cases]
    ho = lib.run_cases(exe, hist, timeout=3000)
    fo = lib.run_cases(exe, fresh, timeout=3000)
    mcases, midx, mexp = [], [], []
    pending = []
    nfail = nbad = 0
    oplen = {}
    for i, ((cfg, h, obs), a, b) in enumerate(zip(cases, ho, fo)):
        chk.cov["evaluations"] += 2
        chk.distinct.add(hist[i])
        oplen[len(h)] = oplen.get(len(h), 0) + 1
        da, db = kv(a), kv(b)
        if a.startswith("DIED") or b.startswith("DIED") or "dig" not in da or "dig" not in db:
            # a crash inside the history is C10's subject; but an observed pair that dies after a history whose operations all completed,
            # and works in the fresh process, depends on that history
            chk.cov.setdefault("died", 0); chk.cov["died"] += 1
            part = kv(a.split(" | ", 1)[1]) if (a.startswith("DIED") and " | " in a) else {}
            done_ops = len(part.get("snap", "").split("|")) - 2 if "snap" in part else -1
            if a.startswith("DIED") and not b.startswith("DIED") and "dig" in db and done_ops >= len(h):
                over = left_bounds(cfg, h, obs, part["snap"].split("|")[:-1], chk)[2]
                if over:        # e.g. an integer array under the point-wise relative mode a thread-safe call left in the configuration: refused (exit)
                    pending.append((i, over, -1))
                    continue
                nfail += 1
                if nfail <= 8:
                    chk.violation("the observed compression/decompression dies after the history (all %d operations of it completed) and succeeds in a fresh process, on `%s`: %s" % (len(h), hist[i][:200], a[:120]),
                                  {"case": hist[i], "fresh": fresh[i], "after_history": a[:300], "fresh_out": b[-120:], "variant": "plain"})
            continue
        snaps = da["snap"].split("|")[:-1]
        c0 = snaps[0].split(";")[0]
        cfin, left_by, over = left_bounds(cfg, h, obs, snaps, chk)
        if da["dig"] != db["dig"] and over:
            # the observed compression takes its bounds from the configuration, which an earlier thread-safe customize call overwrote with its own:
            # it is that finding exactly when the reconstruction equals the one of a fresh process *configured* with the bounds left behind
            pending.append((i, over, left_by))
            continue
        if da["dig"] != db["dig"]:
            nfail += 1
            if nfail <= 8:
                chk.violation("reconstruction after the history differs from the fresh process (digest %s vs %s) on `%s`" % (da["dig"], db["dig"], hist[i][:200]),
                              {"case": hist[i], "fresh": fresh[i], "after_history": a[-120:], "fresh_out": b[-120:], "variant": "plain"})
            continue
        obs_int = int(obs.split(":")[2 if obs[0] in "kK" else 1], 16) >= 2
        skey = "smdig" if (obs_int and da.get("wrapped") == "0") else "sdig"
        if obs_int and da.get("wrapped") != "0":
            pass        # a wrapped integer stream: the unread dmin slot (see harness) changes the wrapped bytes everywhere; the reconstruction was compared
        elif (da[skey] != db[skey] or da["out"] != db["out"]) and over:
            pending.append((i, over, left_by))         # the header carries the configured bounds, also those the mode does not use
            continue
        elif da[skey] != db[skey] or da["out"] != db["out"]:
            nbad += 1
            if nbad <= 3:
                chk.broken.append("correspondence C05 (the view is everything a compression reads): stream differs after history though the reconstruction does not, on `%s`" % hist[i][:200])
        cprev = c0
        for j, sn in enumerate(snaps[1:]):
            cj = sn.lstrip("!").split(";")[0]
            if cj != cprev and not (j < len(h) and h[j][0] == "f" and cj == c0):
                if (j < len(h) and h[j][0] == "T" and cj.split(",")[:11] + cj.split(",")[15:] == cprev.split(",")[:11] + cprev.split(",")[15:]
                        and "threadsafe_leaves_bounds" in chk.known_classes):
                    # bounds of the thread-safe call's parameter block left in the configuration (mode / abs / rel / pw_rel fields only)
                    chk.known("threadsafe_leaves_bounds", chk.known_classes["threadsafe_leaves_bounds"]["text"])
                    tf = h[j].split(":")
                    want = ["%x" % int(tf[2], 16), tf[4].lstrip("0") or "0"]       # the absolute bound left is the one the kernels derive (AND/OR/PW_REL), the ratio the call's
                    if [cj.split(",")[11], cj.split(",")[13]] != want and not sn.startswith("!"):
                        nbad += 1
                        if nbad <= 3:
                            chk.broken.append("correspondence C05 (step_ts: the thread-safe entry leaves its own mode and ratio): operation %d `%s` of `%s` left %s" % (j, h[j][:80], hist[i][:100], cj.split(",")[11:15]))
                else:
                    nbad += 1
                    if nbad <= 3:
                        chk.broken.append("correspondence C05 (config_preserved): configuration globals changed by operation %d `%s` of `%s`: %s -> %s" % (j, h[j][:60] if j < len(h) else obs[:60], hist[i][:120], cprev, cj))
                    break
            cprev = cj
        toks, expect = model_history(h, snaps)
        qi = int(c0.split(",")[0], 16)
        mcases.append("hist %x %s %s" % (qi, c0.split(",")[1], "/".join(toks) or "_"))
        midx.append(i); mexp.append(expect)
    po = lib.run_cases(exe, [c for _, c, _ in pending], timeout=3000)
    for (i, pc, j), o in zip(pending, po):
        cfg, h, obs = cases[i]
        chk.cov["evaluations"] += 1
        same_death = ho[i].startswith("DIED") and o.startswith("DIED") and ho[i].split(" | ")[0] == o.split(" | ")[0]
        dh, do = kv(ho[i]), kv(o)
        oint = int(obs.split(":")[2 if obs[0] in "kK" else 1], 16) >= 2
        sk = None if (oint and dh.get("wrapped") != "0") else "smdig" if oint else "sdig"      # as for the comparison with the fresh process above
        if same_death or (do.get("dig") == dh.get("dig") and "dig" in do and not ho[i].startswith("DIED") and (sk is None or do.get(sk) == dh.get(sk))):
            chk.known("threadsafe_leaves_bounds", chk.known_classes["threadsafe_leaves_bounds"]["text"])
        else:
            nfail += 1
            if nfail <= 8:
                chk.violation("reconstruction after the history differs from the fresh process, and also from a fresh process configured with the bounds operation %d left in the configuration, on `%s`" % (j, hist[i][:200]),
                              {"case": hist[i], "fresh": fresh[i], "after_history": ho[i][-120:], "fresh_out": fo[i][-120:], "fresh_with_left_bounds": pc, "variant": "plain"})
    mo = lib.run_cases(model, mcases, timeout=3000)
    for i, m, expect in zip(midx, mo, mexp):
        got = m[4:].split("|") if m.startswith("exe=") and len(m) > 4 else []
        if got != expect:
            nbad += 1
            if nbad <= 3:
                chk.broken.append("correspondence C05 (exe_params after each operation) on `%s`: model %s impl %s" % (hist[i][:160], "|".join(got)[:200], "|".join(expect)[:200]))
    chk.cov["traces_validated_against_impl"] = len(mcases)
    chk.cov["rule"] = ("random histories of explicit / defaults / customize compressions (ten element types, ranks 1..4, ABS/REL/AND/OR/PSNR/NORM/PW_REL), decompressions and "
                       "metadata queries of earlier streams, finalise/re-initialise cycles, under eleven configurations; the observed pair's reconstruction and stream are "
                       "compared with the same pair in a fresh process; the configuration globals after every operation are compared with the initial ones and "
                       "exe_params after every operation with the model's step function")
    chk.cov["input_distribution"] = {"histories": len(cases), "history_lengths": {str(k): v for k, v in sorted(oplen.items())},
                                     "ops": {k: sum(1 for _, h, _ in cases for o in h if o[0] == k) for k in "cCkTdmf"}}
    for c in hist[:2] + hist[10:11]:
        chk.sample(c[:200])
    chk.assumptions += ["source facts (T2): %s" % {k: notes["facts"][k] for k in ("cpr_writes", "rederives", "defaults_restored", "custom14_restored", "accel")},
                        "time-step compression (a separate global, sz_tsc) is C17's subject and not part of these histories",
                        "the model's `view` being everything a compression reads is checked by stream equality on the explored histories, not proved from the C source"]


def replay(chk, path):
    r = json.load(open(path))
    if "case" not in r:
        print("replay names a broken obligation, not an input:", r.get("broken"))
        return 1
    exe = lib.build_impl("plain")
    a = lib.run_cases(exe, [r["case"]])[0]
    b = lib.run_cases(exe, [r["fresh"]])[0]
    print("history:", r["case"][:300]); print("after history:", a[-120:]); print("fresh:", b[-120:])
    bad = kv(a).get("dig") != kv(b).get("dig")
    print("result:", "violation reproduced" if bad else "property holds on this case")
    return 1 if bad else 0
