"""C17 — time-step compression keeps every step within bound for any step schedule."""
import json, os, struct
import lib, gen, classes

LEVEL = "proof"
PROP_FILE = "Properties_C17"
TS = dict(harness=("szimpl.c", "ops_more.c", "ops_ts.c"), exe="szimpl_ts", extra_cflags=("-DWITH_TS", "-DHAVE_TIMECMPR"))


def dbits(x):
    return "%x" % struct.unpack("<Q", struct.pack("<d", x))[0]


def dbl(h):
    return struct.unpack("<d", struct.pack("<Q", int(h, 16)))[0]


SHAPES_SMALL = [(25,), (21,), (40,), (64,), (15,), (20,), (33,)]
SHAPES_BIG = [(1000,), (300,), (30, 40), (8, 9, 10), (3, 4, 5, 6), (2, 40), (10, 10)]
CFGS = ["-", "szMode=SZ_BEST_SPEED", "quantization_intervals=256", "snapshotCmprStep=3", "snapshotCmprStep=1", "withLinearRegression=NO",
        "protectValueRange=YES", "losslessCompressor=GZIP_COMPRESSOR", "quantization_intervals=32;snapshotCmprStep=2", "sampleDistance=3;predThreshold=0.5"]


def gen_cases(chk):
    rng = chk.rng
    thorough = chk.tier == "thorough"
    one = dbits(1.0)
    cases = [
        # corpus: histories that failed before the repairs
        "ts - 0 0,0,0,0,3e8 0 %s %s STTTT 7 0 5 %s 1" % (dbits(1e-9), dbits(1e-3), one),                    # verbatim step then temporal steps
        "ts szMode=SZ_BEST_SPEED 0 0,0,0,1e,28 0 %s %s STTTT 7 0 5 %s 1" % (dbits(1e-9), dbits(1e-3), one),
        "ts - 1 0,0,0,0,64 0 %s %s SS 5 3 e8c2 %s 1" % (dbits(0.01), dbits(0.01), one),                      # double decoder ignored the compression type
        "ts quantization_intervals=32 0 0,0,0,0,64 0 %s %s TT 5 5 1 %s 1" % (dbits(0.5), dbits(1e-3), dbits(-15.5)),   # error exactly (cap-1)*e
        "ts quantization_intervals=32 1 0,0,0,0,64 0 %s %s TT 5 5 1 %s 1" % (dbits(0.5), dbits(1e-3), dbits(15.5)),
        "ts - 1 0,0,0,0,3e8 2 %s %s PTSPTSPSS 0 3 c10f %s 2" % (dbits(0.01), dbits(0.01), one),               # double temporal kernel without re-check
        # verbatim steps of more than a megabyte: the reader's unwrap buffer is sized before the stream header is parsed
        "ts - 0 0,0,0,0,40000 0 %s %s ST 5 1 6267 %s 1" % (dbits(1e-3), dbits(1e-4), dbits(100.0)),
        "ts - 1 0,0,0,0,20000 0 %s %s ST 5 1 6267 %s 1" % (dbits(1e-3), dbits(1e-4), dbits(100.0)),
    ]
    # bounds of a few ulps of the values: the machine-epsilon re-check of the kernels rejects codes, on snapshot and temporal steps
    for ty, bounds in ((0, (2.3e-4, 4.1e-4, 1e-4)), (1, (4.3e-13, 2.0e-13))):
        for t in ((40,), (64,), (1000,), (30, 40)):
            dims = ",".join("%x" % v for v in [0] * (5 - len(t)) + list(t))
            for b in bounds:
                cases.append("ts %s %x %s 0 %s %s %s 8 %d %x %s 1" % (rng.choice(("-", "snapshotCmprStep=6", "quantization_intervals=256")), ty, dims, dbits(b), dbits(1e-3),
                                                                    rng.choice(("STTTTTT", "PPPPPPPPPPPP", "STTSTTTT")), rng.choice((0, 2)), rng.getrandbits(16), one))
    # multi-dimensional variables whose extents do not split evenly into the regression kernels' blocks (a run of longer blocks, then shorter
    # ones: the history buffer is filled block by block), smooth fields that vary along every dimension, snapshot then temporal steps
    for t in ((8, 9, 20), (7, 12, 32), (5, 6, 13), (20, 9, 8), (30, 23), (17, 35), (4, 5, 6, 13)):
        dims = ",".join("%x" % v for v in [0] * (5 - len(t)) + list(t))
        for ty in (0, 1):
            for sched in ("STTT", "PPPPPP"):
                cases.append("ts %s %x %s 0 %s %s %s 0 0 %x %s 1" % (rng.choice(("-", "szMode=SZ_BEST_SPEED")), ty, dims, dbits(0.01), dbits(1e-3), sched, rng.getrandbits(16), one))
    # point-wise relative variables (always compressed as snapshots by the point-wise relative kernels, accelerated or log path), alone and next to
    # ABS variables of the same set, decoded by the reader process: each step within r|x|, the other variables' histories untouched
    for cfgp in ("-", "accelerate_pw_rel_compression=0", "szMode=SZ_BEST_SPEED"):
        for ty in (0, 1):
            for t in ((1000,), (30, 40), (8, 9, 10)):
                dims = ",".join("%x" % v for v in [0] * (5 - len(t)) + list(t))
                for sched, nv, mask in (("SPPTP", 1, 1), ("STTPT", 2, 2), ("TTTSP", 3, 5)):
                    cases.append("ts %s %x %s 0 %s %s %s %d 0 %x %s %d %s %x" % (cfgp, ty, dims, dbits(0.01), dbits(1e-3), sched, rng.choice((0, 1, 3)), rng.getrandbits(16), one, nv,
                                                                               dbits(rng.choice((1e-2, 1e-4))), mask))
    n = 260 if thorough else 70
    for i in range(n):
        small = i % 2 == 0
        t = rng.choice(SHAPES_SMALL if small else SHAPES_BIG)
        dims = ",".join("%x" % v for v in [0] * (5 - len(t)) + list(t))
        ty = rng.choice((0, 1))
        mode = rng.choice((0, 0, 1, 2, 3))
        scale = rng.choice((1.0, 100.0))
        absb = rng.choice((0.1, 1e-2, 1e-4, 1e-7 if ty == 0 else 1e-13)) * scale
        rel = rng.choice((1e-2, 1e-4))
        ns = rng.randint(1, 50 if thorough and not small else 10)
        sched = "".join(rng.choice("STTPPP") for _ in range(ns))
        evo = rng.choice((0, 1, 2, 3, 4, 5, 6, 7, 8))
        kind = rng.choice((0, 1, 2, 3, 4))
        cases.append("ts %s %x %s %x %s %s %s %d %d %x %s %d" % (rng.choice(CFGS), ty, dims, mode, dbits(absb), dbits(rel), sched, evo, kind,
                                                                   rng.getrandbits(16), dbits(scale), rng.choice((1, 1, 2, 3))))
    return cases


def parse(out):
    """-> (list of step records, child status, detail string)"""
    if not out.startswith("steps="):
        return None, None, None
    body, _, tail = out[6:].partition(" child=")
    child, _, detail = tail.partition(" detail=")
    recs = []
    for st in body.split("|"):
        f = st.split(",")
        if len(f) < 15:
            continue
        recs.append(dict(tag=f[0], var=int(f[1]), ct=int(f[2]), eh=f[3], dh=f[4], viol=int(f[5], 16), maxerr=dbl(f[6]), e=dbl(f[7]), size=int(f[8], 16),
                         first=int(f[9], 16) if f[9] != "ffffffffffffffff" else -1, ori=f[10], dec=f[11], ehv=f[12], amax=dbl(f[13]), cstep=int(f[14], 16)))
    return recs, child.strip(), detail.strip()


def hdr_fields(h, ty):
    if h == "-":
        return None
    b = bytes.fromhex(h)
    md = 28 if ty == 0 else 36
    flag = b[3]
    info = {"const": flag & 1, "lossless": (flag >> 4) & 1}
    o = 4 + md + 8 + 4
    if len(b) >= o + 4 + (4 if ty == 0 else 8) + 9 and not info["const"] and not info["lossless"]:
        w = 4 if ty == 0 else 8
        info["intervals"] = int.from_bytes(b[o:o + 4], "big")
        info["prec"] = int.from_bytes(b[o + 5 + w:o + 13 + w], "big")
    return info


def classify(case, rec):
    """finding class of a bound violation, or None"""
    a = case.split(" ")
    ty = int(a[2], 16)
    dims = [int(x, 16) for x in a[3].split(",")]
    rank = sum(1 for v in dims if v > 1)
    over = rec["maxerr"] - rec["e"]
    tol = 4 * classes.ulp(rec["amax"] + rec["e"], ty)
    if rec["ct"] == 0 and (ty == 1 or rank >= 4) and 0 < over <= tol:
        return "fd_no_recheck"
    return None


def run(chk):
    exe = lib.build_impl("plain", **TS)
    chk.prove(PROP_FILE)
    model = lib.build_model()
    cases = gen_cases(chk)
    outs = lib.run_cases(exe, cases, timeout=3000)
    nfail = nbad = 0
    mcases, mmeta, rcases, rmeta = [], [], [], []
    sched_hist = {}
    for c, o in zip(cases, outs):
        chk.cov["evaluations"] += 1
        chk.distinct.add(c)
        a = c.split(" ")
        ty = int(a[2], 16)
        dims = [int(x, 16) for x in a[3].split(",")]
        n = 1
        for v in dims:
            if v:
                n *= v
        nvars = int(a[12])
        pwmask = int(a[14], 16) if len(a) > 14 else 0
        period = 5
        for kvp in a[1].split(";"):
            if kvp.startswith("snapshotCmprStep="):
                period = int(kvp.split("=")[1])
        recs, child, detail = parse(o)
        sched_hist[len(a[7])] = sched_hist.get(len(a[7]), 0) + 1
        if recs is None or child != "0" or len(recs) != len(a[7]) * nvars:
            nfail += 1
            if nfail <= 8:
                chk.violation("time-step run failed (decompressor died or output truncated) on `%s`: %s" % (c[:160], o[:160]), {"case": c, "impl": o[:400], "variant": "plain"})
            continue
        for r in recs:
            why = None
            if r["eh"] != r["dh"] and not (pwmask >> r["var"]) & 1:      # a point-wise relative variable's history is never read (no temporal prediction for it)
                why = "decoder history differs from encoder history after step %s (variable %d)" % (r["tag"], r["var"])
            elif r["viol"]:
                why = "step %s variable %d: %d elements outside the step's bound (max error %g, bound %g)" % (r["tag"], r["var"], r["viol"], r["maxerr"], r["e"])
            if why:
                cls = classify(c, r) if (r["eh"] == r["dh"] and not (pwmask >> r["var"]) & 1) else None
                if cls and cls in chk.known_classes:
                    chk.known(cls, chk.known_classes[cls]["text"])
                    continue
                nfail += 1
                if nfail <= 8:
                    chk.violation("%s on `%s`" % (why, c[:170]), {"case": c, "impl": o[:600], "variant": "plain", "step": r["tag"]})
                break
        # model comparison: 1-D variables of at most 64 elements, first variable's steps
        if detail and detail != "_" and sum(1 for v in dims if v > 1) <= 1:
            dsteps = [d.split(";") for d in detail.split("/") if d]
            for v in range(nvars):
                if (pwmask >> v) & 1:
                    continue            # the model has the ABS-family kernels only
                mine = [dsteps[k * nvars + v] for k in range(len(a[7]))]
                toks, impl_rec, ok = [], [], True
                for k, (ct, hdr, data, rec, eh) in enumerate(mine):
                    info = hdr_fields(hdr, ty)
                    tiny = n <= 20
                    if tiny:
                        toks.append("0.1.0.0.0.0.%s" % data)
                    elif info["const"]:
                        toks.append("0.0.1.0.0.0.%s" % data)
                    elif info["lossless"]:
                        toks.append("%s.0.0.1.0.0.%s" % (ct, data))
                    else:
                        toks.append("%s.0.0.0.%x.%x.%s" % (ct, info["prec"], info["intervals"], data))
                        # the schedule: the kernel's choice must be the model's resolve(cmprType, currentStep, period)
                        cm = {"S": 0, "T": 1, "P": 2}[a[7][k]]
                        rcases.append("tsres %x %x %x" % (cm, recs[k * nvars + v]["cstep"], period)); rmeta.append((c, k, ct))
                    impl_rec.append(rec)
                mcases.append("tsm %x %x %s %d" % (ty, n, "/".join(toks), 1 if "protectValueRange=YES" in c.split(" ")[1] else 0)); mmeta.append((c, v, impl_rec, mine[-1][4]))
    mo = lib.run_cases(model, mcases, timeout=3000)
    ncmp = 0
    for (c, v, impl_rec, eh), m in zip(mmeta, mo):
        d = dict(t.split("=", 1) for t in m.split(" ") if "=" in t)
        ncmp += 1
        if d.get("rec") != "/".join(impl_rec) or d.get("hist") != eh or d.get("self") != "1":
            nbad += 1
            if nbad <= 3:
                chk.broken.append("correspondence C17 (model vs implementation, reconstructions and final history of variable %d) on `%s`: model rec %s.. impl %s.." % (v, c[:150], d.get("rec", m)[:80], "/".join(impl_rec)[:80]))
        elif d.get("lock") != "1":
            chk.cov.setdefault("model_lock_flag_zero", 0); chk.cov["model_lock_flag_zero"] += 1
    ro = lib.run_cases(model, rcases, timeout=600)
    for (c, k, ct), r in zip(rmeta, ro):
        if r != ct:
            nbad += 1
            if nbad <= 3:
                chk.broken.append("correspondence C17 (schedule: resolve) step %d of `%s`: model %s impl %s" % (k, c[:150], r, ct))
    chk.cov["traces_validated_against_impl"] = ncmp
    chk.cov["rule"] = ("step sequences of float/double variables (1-D..4-D, 15..1000 elements, 1..3 registered variables, smooth drift / abrupt change / constant steps / "
                       "alternating / noise / static / verbatim-then-predictable evolutions) under forced-snapshot, forced-temporal and periodic schedules (periods 1, 2, 3, 5), "
                       "ten configurations; the compressor runs in one process and the decompressor in a forked one fed only the step streams; after every step the two "
                       "history buffers must be identical and every element within the step's bound; for 1-D variables of at most 64 elements the model is run on the "
                       "same steps (decisions read from the stream headers) and its reconstructions and final history compared bit for bit")
    chk.cov["input_distribution"] = {"cases": len(cases), "schedule_lengths": {str(k): v for k, v in sorted(sched_hist.items())}, "model_runs": len(mcases), "schedule_decisions_compared": len(rcases)}
    for c in cases[:2] + cases[8:9]:
        chk.sample(c[:170])
    chk.assumptions += ["2-D/3-D/4-D snapshot kernels and the regression kernels are not transcribed: for those variables only the oracle (history equality, bound) runs",
                        "built with -DHAVE_TIMECMPR (the feature is compiled out of the default build)",
                        "PW_REL variables are compressed by the point-wise relative kernels at every step (no temporal prediction for them): judged by the relative bound per step; their history buffers are not compared (never read)"]


def replay(chk, path):
    r = json.load(open(path))
    if "case" not in r:
        print("replay names a broken obligation, not an input:", r.get("broken"))
        return 1
    exe = lib.build_impl("plain", **TS)
    out = lib.run_cases(exe, [r["case"]])[0]
    recs, child, _ = parse(out)
    print("case:", r["case"][:200]); print("impl:", out[:400])
    bad = recs is None or child != "0" or any((x["eh"] != x["dh"] or (x["viol"] and classify(r["case"], x) is None)) for x in recs)
    print("result:", "violation reproduced" if bad else "property holds on this case")
    return 1 if bad else 0
