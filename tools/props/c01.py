"""C01 — float/double reconstruction stays within the requested absolute/range bound."""
import json, math, os, struct
import lib, classes

LEVEL = "proof"
PROP_FILE = "Properties_C01"


def dbits(x):
    return "%x" % struct.unpack("<Q", struct.pack("<d", x))[0]


def dbl(h):
    return struct.unpack("<d", struct.pack("<Q", int(h, 16)))[0]


def f32b(x):
    return struct.unpack("<I", struct.pack("<f", x))[0]


def f64b(x):
    return struct.unpack("<Q", struct.pack("<d", x))[0]


def kv(line):
    d = {}
    for tok in line.split(" "):
        if "=" in tok:
            k, v = tok.split("=", 1)
            d[k] = v
    return d


def tup5(t):
    t = list(t)
    return ",".join("%x" % v for v in [0] * (5 - len(t)) + t)


def gen_array(n, rng, ty):
    kind = rng.randrange(8)
    scale = rng.choice((1.0, 1.0, 100.0, 1e-3, 1e5, 1e-20, 1e20))
    if kind == 0:
        v = [scale * (math.sin(i * 0.1) + 0.3 * math.sin(i * 0.73)) for i in range(n)]
    elif kind == 1:
        v = [scale * (rng.random() * 2 - 1) for _ in range(n)]
    elif kind == 2:
        w, v = 0.0, []
        for _ in range(n):
            w += (rng.random() - 0.5) * 0.1
            v.append(scale * w)
    elif kind == 3:
        v = [scale * ((i // 17) % 5) * 0.25 for i in range(n)]
    elif kind == 4:
        v = [scale * (100 * (rng.random() - 0.5) if rng.random() < 0.03 else math.sin(i * 0.02)) for i in range(n)]
    elif kind == 5:
        v = [scale * (10.0 ** rng.randrange(-8, 8)) * (rng.random() - 0.5) for _ in range(n)]       # huge dynamic range
    elif kind == 6:
        v = [scale * (1000.0 + math.sin(i * 0.05)) for i in range(n)]                                 # large offset, small variation
    else:
        base = rng.choice((1e-41, 1e-39)) if ty == 0 else rng.choice((1e-310, 5e-324 * 1000))
        v = [base * rng.randrange(0, 1000) for _ in range(n)]                                         # denormal range
    if ty == 0:
        v = [struct.unpack("<f", struct.pack("<f", x))[0] if abs(x) < 3e38 else 0.0 for x in v]
    return v


def gen_cases(chk):
    rng = chk.rng
    thorough = chk.tier == "thorough"
    k1, orc = [], []
    # (A) 1-D arrays, explicit values, compared bit for bit with the model
    for _ in range(900 if thorough else 160):
        ty = rng.choice((0, 1))
        n = rng.choice((21, 22, 30, 64, 100, 257, 1000)) if not thorough else rng.choice((21, 33, 100, 1000, 5000))
        v = gen_array(n, rng, ty)
        rngv = max(v) - min(v)
        mode = rng.choice((0, 0, 1, 2, 3))
        mag = max(abs(min(v)), abs(max(v)), 1e-300)
        absb = rngv * rng.choice((1e-1, 1e-2, 1e-3, 1e-5, 1e-7)) if rngv > 0 else mag * 1e-3
        if rng.random() < 0.1:
            absb = mag * rng.choice((1e-9, 1e-12, 2.0))          # far below one ulp of a float / above the range
        rel = rng.choice((1e-1, 1e-2, 1e-4, 1e-6))
        q = rng.choice((0, 0, 2, 32, 256, 65536, 4))
        cfg = "szMode=SZ_BEST_SPEED" + (";quantization_intervals=%d" % q if q else "") + rng.choice(("", ";sampleDistance=3", ";predThreshold=0.5"))
        bits = [f32b(x) if ty == 0 else f64b(x) for x in v]
        k1.append("rtr %x %s %s %x %s %s 0 %s x:%s" % (ty, tup5((n,)), tup5((n,)), mode, dbits(absb), dbits(rel), cfg, ",".join("%x" % b for b in bits)))
    # (A2) 2-D float arrays through the SZ-1.4 2-D kernel (no regression), explicit values, compared bit for bit with the model
    for _ in range(300 if thorough else 60):
        r1, r2 = rng.choice(((5, 7), (8, 8), (3, 40), (30, 3), (16, 33), (2, 11), (11, 2), (21, 21)))
        n = r1 * r2
        v = gen_array(n, rng, 0)
        if rng.random() < 0.5:      # a smooth surface plus a little noise: the Lorenzo predictor hits, the re-check and the interval edge get exercised
            a_, b_, c_ = rng.uniform(-3, 3), rng.uniform(-3, 3), rng.choice((1.0, 100.0, 1e-3))
            v = [struct.unpack("<f", struct.pack("<f", c_ * (a_ * (k // r2) + b_ * (k % r2) + 0.01 * rng.uniform(-1, 1) + 0.3 * math.sin(0.7 * (k % r2) + 0.4 * (k // r2)))))[0] for k in range(n)]
        rngv = max(v) - min(v)
        mode = rng.choice((0, 0, 1, 3))
        mag = max(abs(min(v)), abs(max(v)), 1e-300)
        absb = rngv * rng.choice((1e-1, 1e-2, 1e-3, 1e-5, 1e-7)) if rngv > 0 else mag * 1e-3
        rel = rng.choice((1e-1, 1e-2, 1e-4, 1e-6))
        q = rng.choice((0, 0, 2, 32, 256, 65536, 4))
        cfg = "szMode=SZ_BEST_SPEED;withLinearRegression=NO" + (";quantization_intervals=%d" % q if q else "") + rng.choice(("", ";sampleDistance=3", ";predThreshold=0.5"))
        k1.append("rtr 0 %s %s %x %s %s 0 %s x:%s" % (tup5((r1, r2)), tup5((r1, r2)), mode, dbits(absb), dbits(rel), cfg, ",".join("%x" % f32b(x) for x in v)))
    # (A3) 3-D float arrays through the SZ-1.4 3-D kernel, explicit values, compared bit for bit with the model
    for _ in range(150 if thorough else 40):
        r1, r2, r3 = rng.choice(((3, 4, 5), (2, 3, 7), (4, 4, 4), (2, 2, 11), (5, 3, 2), (3, 7, 3)))
        n = r1 * r2 * r3
        a_, b_, d_, c_ = rng.uniform(-3, 3), rng.uniform(-3, 3), rng.uniform(-3, 3), rng.choice((1.0, 100.0, 1e-3))
        v = [struct.unpack("<f", struct.pack("<f", c_ * (a_ * (k // (r2 * r3)) + b_ * ((k // r3) % r2) + d_ * (k % r3) + 0.02 * rng.uniform(-1, 1)
                                                      + 0.3 * math.sin(0.7 * (k % r3) + 0.4 * (k // r3)))))[0] for k in range(n)]
        if rng.random() < 0.3:
            v = gen_array(n, rng, 0)
        rngv = max(v) - min(v)
        mag = max(abs(min(v)), abs(max(v)), 1e-300)
        absb = rngv * rng.choice((1e-1, 1e-2, 1e-3, 1e-5, 1e-7)) if rngv > 0 else mag * 1e-3
        q = rng.choice((0, 0, 2, 32, 256, 65536, 4))
        cfg = "szMode=SZ_BEST_SPEED;withLinearRegression=NO" + (";quantization_intervals=%d" % q if q else "")
        k1.append("rtr 0 %s %s %x %s %s 0 %s x:%s" % (tup5((r1, r2, r3)), tup5((r1, r2, r3)), rng.choice((0, 0, 1, 3)), dbits(absb), dbits(rng.choice((1e-1, 1e-2, 1e-4))), cfg,
                                                      ",".join("%x" % f32b(x) for x in v)))
    # (B) every rank / kernel / configuration: bound oracle on the implementation
    shapes = [(64,), (1000,), (30, 40), (17, 33), (100, 100), (8, 9, 10), (16, 17, 18), (6, 6, 6), (3, 4, 5, 6), (6, 7, 6, 7), (2, 3, 30, 5)]
    if thorough:
        shapes += [(100000,), (300, 400), (50, 60, 70), (10, 12, 14, 16), (21,), (5, 5), (3, 3, 3), (2, 2, 2, 3), (3, 7)]
    cfgs = ["-", "szMode=SZ_BEST_SPEED", "withLinearRegression=NO", "szMode=SZ_BEST_SPEED;withLinearRegression=NO", "quantization_intervals=256",
            "quantization_intervals=2;szMode=SZ_BEST_SPEED", "quantization_intervals=65536;withLinearRegression=NO", "sampleDistance=3;predThreshold=0.5",
            "sampleDistance=50;predThreshold=1;szMode=SZ_DEFAULT_COMPRESSION", "losslessCompressor=GZIP_COMPRESSOR;gzipMode=Gzip_BEST_COMPRESSION",
            "losslessCompressor=GZIP_COMPRESSOR;withLinearRegression=NO;gzipMode=Gzip_NO_COMPRESSION", "zstdMode=Zstd_BEST_COMPRESSION;max_quant_intervals=1024"]
    for t in shapes:
        n = 1
        for v in t:
            n *= v
        for ty in (0, 1):
            for cfg in (cfgs if thorough else rng.sample(cfgs, 5)):
                mode = rng.choice((0, 1, 2, 3))
                scale = rng.choice((1.0, 1e3, 1e-4, 1e8))
                off = rng.choice((0.0, 0.0, 3.0 * scale, -1e3 * scale))
                absb = scale * rng.choice((0.3, 1e-2, 1e-4, 1e-7, 1e-11))
                rel = rng.choice((1e-1, 1e-3, 1e-5, 1e-8))
                kind = rng.choice((0, 1, 2, 3, 4, 5))
                data = "g:%d:%x:%x:%s:%s" % (kind, rng.getrandbits(24), n, dbits(scale), dbits(off))
                orc.append("rt %x %s %s %x %s %s 0 %s %s" % (ty, tup5(t), tup5(t), mode, dbits(absb), dbits(rel), cfg, data))
    # bounds below one ulp of the data on data that still compresses (plateaus away from zero): the exact-value codec needs all
    # mantissa bits (required length beyond the type's width), a branch of its own in every kernel
    for t in ((300,), (48, 64), (8, 16, 16), (3, 4, 5, 6)):
        n = 1
        for v in t:
            n *= v
        for ty in (0, 1):
            for cfg in ("szMode=SZ_BEST_SPEED;withLinearRegression=NO", "szMode=SZ_BEST_SPEED", "withLinearRegression=NO"):
                for mode, absb, rel in ((0, 1e-6 if ty == 0 else 1e-15, 1e-3), (1, 1.0, 1e-8 if ty == 0 else 1e-17)):
                    orc.append("rt %x %s %s %x %s %s 0 %s g:3:%x:%x:%s:%s" % (ty, tup5(t), tup5(t), mode, dbits(absb), dbits(rel), cfg, rng.getrandbits(24), n, dbits(100.0), dbits(100.0)))
    # a dominant background value with isolated dips and spikes of 1..70 bounds (data kind 8, bound = one unit): the dense-value (mean) mode
    # of the regression kernels and the quantisation codes next to the edges of the code range
    for t in ((24, 24, 24), (36, 48), (4, 6, 12, 12), (5000,)):
        n = 1
        for v in t:
            n *= v
        for ty in (0, 1):
            for cfg in ("-", "szMode=SZ_BEST_SPEED", "szMode=SZ_BEST_SPEED;withLinearRegression=NO"):
                for scale in (1.0, 1e-3):
                    for dens in ((1500, 300) if not thorough else (3000, 1500, 600, 300, 50)):
                        stride = n // t[0] if len(t) > 1 else 0
                        orc.append("rt %x %s %s 0 %s %s 0 %s g:8:%x:%x:%s:%s" % (ty, tup5(t), tup5(t), dbits(scale), dbits(1e-3), cfg, rng.getrandbits(24), n, dbits(scale),
                                                                                 dbits(float(dens * 1048576 + stride))))
    # bounds and ranges beyond what a float can carry (double data, the combined modes use min/max of two doubles)
    for t in ((500,), (24, 40)):
        n = 1
        for v in t:
            n *= v
        for mode in (0, 1, 2, 3):
            orc.append("rt 1 %s %s %x %s %s 0 szMode=SZ_BEST_SPEED g:%d:%x:%x:%s:0" % (tup5(t), tup5(t), mode, dbits(1e42), dbits(1e-3), rng.choice((0, 1, 2)), rng.getrandbits(24), n, dbits(1e45)))
            orc.append("rt 1 %s %s %x %s %s 0 szMode=SZ_BEST_SPEED g:%d:%x:%x:%s:0" % (tup5(t), tup5(t), mode, dbits(1e-42), dbits(1e-3), rng.choice((0, 1, 2)), rng.getrandbits(24), n, dbits(1e-39)))
    return k1, orc


def stream_fields(stream_hex, ty):
    b = bytes(int(x, 16) for x in stream_hex.split(",")) if stream_hex not in ("_", "") else b""
    md = 28 if ty == 0 else 36
    if len(b) < 4 + md + 8 + 4 + 4 + 8 + 1 + 8:
        return None
    flag = b[3]
    info = {"const": flag & 1, "lossless": (flag >> 4) & 1, "regression": (flag >> 7) & 1, "pwr": (flag >> 3) & 1}
    o = 4 + md + 8 + 4
    info["intervals"] = int.from_bytes(b[o:o + 4], "big")
    w = 4 if ty == 0 else 8
    info["median"] = int.from_bytes(b[o + 4:o + 4 + w], "big")
    info["req"] = b[o + 4 + w]
    info["prec"] = int.from_bytes(b[o + 5 + w:o + 13 + w], "big")
    return info


def run(chk):
    exe = lib.build_impl("asan")
    plain = lib.build_impl("plain")
    chk.prove(PROP_FILE)
    model = lib.build_model()
    k1, orc = gen_cases(chk)
    cp = os.path.join(lib.VERIF, "corpus", "C01.cases")
    if os.path.exists(cp):
        extra = [l.strip() for l in open(cp) if l.strip() and not l.startswith("#")]
        k1 = [c for c in extra if c.startswith("rtr")] + k1
        orc = [c for c in extra if c.startswith("rt ")] + orc
    # the 1-D comparison runs on the plain -O2 build (the arithmetic the users get); ASan for the rest
    io = lib.run_cases(plain, k1, timeout=3000)
    mcases, midx = [], []
    for i, (c, r) in enumerate(zip(k1, io)):
        a = c.split(" ")
        ty = int(a[1], 16)
        d = kv(r)
        if r.startswith("DIED") or d.get("st") != "ok":
            continue
        info = stream_fields(d.get("stream", "_"), ty)
        if not info or info["const"] or info["lossless"] or info["regression"]:
            continue
        cd = [int(x, 16) for x in a[3].split(",")]
        if sum(1 for x in cd if x > 1) == 3:
            mcases.append("fk3 %x %x %x %x %s" % (info["prec"], info["intervals"], cd[3], cd[4], a[9][2:]))
        elif sum(1 for x in cd if x > 1) == 2:
            mcases.append("fk2 %x %x %x %s" % (info["prec"], info["intervals"], cd[4], a[9][2:]))
        else:
            mcases.append("%s %x %x %s" % ("fk1" if ty == 0 else "dk1", info["prec"], info["intervals"], a[9][2:]))
        midx.append((i, info))
    mo = lib.run_cases(model, mcases, timeout=3000)
    chk.cov["model_runs_2d_float"] = sum(1 for m in mcases if m.startswith("fk2"))
    chk.cov["model_runs_3d_float"] = sum(1 for m in mcases if m.startswith("fk3"))
    chk.cov["model_runs_1d"] = sum(1 for m in mcases if not m.startswith(("fk2", "fk3")))
    mres = {i: (kv(m), info) for (i, info), m in zip(midx, mo)}
    nfail = nbad = ncmp = 0

    def judge(c, r, md):
        nonlocal nfail
        a = c.split(" ")
        fake = "rt " + " ".join(a[1:])
        d = kv(r.split(" | ", 1)[1] if r.startswith("DIED") and " | " in r else r)
        why = None
        if r.startswith("DIED") or d.get("st") != "ok":
            why = "round trip failed: " + r[:160]
        elif int(d["viol"], 16):
            why = "%d elements outside the bound (first %d, max error %g, e %g)" % (int(d["viol"], 16), int(d["first"], 16), dbl(d["maxerr"]), dbl(d["e"]))
        elif d.get("inmod") == "1":
            why = "the caller's input array was modified"
        if not why:
            return
        cls = classes.classify(fake, r)
        if cls is None:
            cls = classes.classify_extreme(fake, r)
        if cls and cls in chk.known_classes:
            chk.known(cls, chk.known_classes[cls]["text"])
            return
        nfail += 1
        if nfail <= 8:
            chk.violation("%s on `%s`" % (why, c[:160]), {"case": c, "impl": r[:400], "variant": "asan"})

    for i, (c, r) in enumerate(zip(k1, io)):
        chk.cov["evaluations"] += 1
        md = None
        if i in mres:
            md, info = mres[i]
            d = kv(r)
            ncmp += 1
            chk.distinct.add(c)
            same = d.get("recon") == md.get("recon") and int(md.get("req", "0"), 16) == info["req"] and int(md.get("median", "0"), 16) == info["median"]
            extreme = classes.outside_model_domain("rt " + " ".join(c.split(" ")[1:]), r)
            if extreme:
                ncmp -= 1          # outside the model's domain: (int) of an infinite / out-of-range value is undefined in C
                chk.distinct.discard(c)
            if not same and not extreme:
                nbad += 1
                if nbad <= 3:
                    chk.broken.append("correspondence C01 (1-D kernel, bit-exact) on `%s`: model req=%s median=%s impl req=%x median=%x; recon equal: %s" % (
                        c[:110], md.get("req"), md.get("median"), info["req"], info["median"], d.get("recon") == md.get("recon")))
            if md.get("ctxok") == "0" and not extreme:
                chk.broken.append("a compared 2-D/3-D run has a context outside the hypothesis of the unconditional lock-step theorems (intervals, 1/e) on `%s`" % c[:110])
            if (md.get("okexact") == "0" or md.get("mirror") == "0") and not extreme:
                # the model itself found an element whose exact storage leaves the bound, or a decoder/encoder mismatch:
                # a counterexample to the checked theorems' premises; listed extreme-input classes excepted
                fake = "rt " + " ".join(c.split(" ")[1:])
                cls = classes.classify_extreme(fake, r)
                if cls and cls in chk.known_classes:
                    chk.known(cls, chk.known_classes[cls]["text"])
                else:
                    chk.broken.append("model check failed on `%s`: okexact=%s mirror=%s (an exactly stored value outside the bound, or decoder expression != encoder reconstruction)" % (
                        c[:110], md.get("okexact"), md.get("mirror")))
        judge(c, r, md)
    oo = lib.run_cases(exe, orc, timeout=3000)
    for c, r in zip(orc, oo):
        chk.cov["evaluations"] += 1
        chk.distinct.add(c)
        judge(c, r, None)
    chk.cov["traces_validated_against_impl"] = ncmp - nbad
    chk.cov["rule"] = ("(A) 1-D float/double arrays (smooth, noisy, walk, constant blocks, spiky, huge dynamic range, large offset, denormal) with ABS/REL/AND/OR "
                       "bounds from far below an ulp to above the range, fixed (2..65536) and auto interval counts: the model is given the bound and interval "
                       "count read from the stream and must reproduce the reconstruction bit for bit and the median / required length of the header "
                       "(distinct_nontrivial = these); its per-element checks (code != 0, decoder expression = encoder reconstruction, bound) are "
                       "evaluated on each. (B) ranks 1..4, SZ-1.4 and regression kernels, 12 configurations x 4 modes, both back ends: bound oracle under ASan")
    chk.cov["input_distribution"] = {"k1": len(k1), "k1_model_compared": ncmp, "oracle": len(orc)}
    for c in k1[:1] + orc[:2]:
        chk.sample(c[:200])
    chk.assumptions += ["C float arithmetic on this build = Flocq binary32/binary64 with the explicit conversions of Base/FloatOps.v (validated bit for bit here)",
                        "2-D..4-D SZ-1.4 and the regression kernels are covered by the generic theorems only through the oracle (their transcription is not yet in the model)",
                        "interval count is an input of the model"]


def replay(chk, path):
    r = json.load(open(path))
    if "case" not in r:
        print("replay names a broken obligation, not an input:", r.get("broken"))
        return 1
    exe = lib.build_impl(r.get("variant", "asan"))
    out = lib.run_cases(exe, [r["case"]])[0]
    d = kv(out)
    bad = out.startswith("DIED") or d.get("st") != "ok" or int(d.get("viol", "0"), 16) != 0
    print("case:", r["case"][:300]); print("impl:", out[:300]); print("result:", "violation reproduced" if bad else "property holds on this case")
    return 1 if bad else 0
