"""C19 — binary file writers and readers round-trip every element type."""
import json, os
import lib

LEVEL = "proof"
PROP_FILE = "Properties_C19"
ES = {0: 4, 1: 8, 2: 1, 3: 1, 4: 2, 5: 2, 6: 4, 7: 4, 8: 8, 9: 8}


def hexl(l):
    return ",".join("%x" % v for v in l) if l else "_"


def kv(line):
    d = {}
    for tok in line.split(" "):
        if "=" in tok:
            k, v = tok.split("=", 1)
            d[k] = v
    return d


def patterns(ty, rng, n):
    w = ES[ty] * 8
    special = [0, 1, (1 << w) - 1, 1 << (w - 1), (1 << (w - 1)) - 1, 0x0102030405060708 & ((1 << w) - 1)]
    if ty == 0:
        special += [0x7FC00001, 0xFFC12345, 0x7F800000, 0xFF800000, 0x00000001, 0x807FFFFF]   # NaN payloads, inf, denormals
    if ty == 1:
        special += [0x7FF8000000000001, 0xFFF0123456789ABC, 0x7FF0000000000000, 0x0000000000000001]
    return [rng.choice(special) if rng.random() < 0.3 else rng.getrandbits(w) for _ in range(n)]


def gen_cases(chk):
    rng = chk.rng
    thorough = chk.tier == "thorough"
    cases = []
    lens = list(range(0, 18)) + [63, 64, 65, 255, 256, 1000] + ([4096, 100000, 1000000] if thorough else [4096])
    for ty in range(10):
        for de in (0, 1):
            for n in lens:
                if n > 5000 and (ty not in (0, 7) or de == 1):
                    continue
                l = patterns(ty, rng, n)
                # mode 0: float/double writers store native bytes, so the round trip is claimed for declared = machine's only
                if not (ty < 2 and de == 1):
                    cases.append("rw %x %x 0 %s" % (ty, de, hexl(l)))
                if ES[ty] > 1 and de == 0:
                    cases.append("rw %x %x 1 %s" % (ty, de, hexl(l)))
            cases.append("rw %x %x 2 _" % (ty, de))
            if ty in (0, 1, 2) and de == 0:
                # the Fortran-callable readers (float, double, bytes): on a file written by the binary writer, and on a missing file
                for n in (1, 8, 41, 1000):
                    cases.append("rw %x %x 4 %s" % (ty, de, hexl(patterns(ty, rng, n))))
                cases.append("rw %x %x 5 %s" % (ty, de, hexl(patterns(ty, rng, 8))))
            # the same file read 120 times by a process that may open only two dozen more files
            cases.append("rw %x %x 3 %s" % (ty, de, hexl(patterns(ty, rng, 41))))
    return cases


def oracle(case, out):
    if out.startswith("DIED") or out.startswith("ERR"):
        return "implementation died: " + out[:200]
    a = case.split(" ")
    d = kv(out)
    mode = int(a[3], 16)
    if d.get("fds", "0") not in ("0", "-1"):
        return "the call left %s file descriptor(s) open" % d.get("fds")
    if mode == 3:
        if d.get("iter") != "0":
            return "read number %s of the same well-formed file failed (status %s, %s elements) in a process allowed 24 more descriptors" % (d.get("iter"), d.get("st_r"), d.get("n"))
        return None
    if mode == 5:
        if d.get("n") != "0":
            return "a Fortran-callable reader reports %s elements for a missing file" % d.get("n")
        return None
    if mode == 2:
        if d.get("st_r") != "-2" or d.get("null") != "1":
            return "missing file: status %s, null=%s" % (d.get("st_r"), d.get("null"))
        return None
    n = 0 if a[4] == "_" else a[4].count(",") + 1
    if d.get("st_w") != "0" or d.get("st_r") != "0":
        return "status: write %s read %s" % (d.get("st_w"), d.get("st_r"))
    if int(d["n"], 16) != n:
        return "element count %s, expected %x" % (d["n"], n)
    if d["vals"] != a[4]:
        return "values read back differ from those written"
    return None


def run(chk):
    exe = lib.build_impl("asan")
    chk.prove(PROP_FILE)
    model = lib.build_model()
    cases = gen_cases(chk)
    tmp = lib.scratch("szv-rw-")
    io = lib.run_cases(exe, cases, env={"SZV_TMP": tmp}, timeout=1800)
    # the model has no notion of descriptors: the fds= field and the repeated-read cases (mode 3) are the oracle's alone
    mcases = [c for c in cases if c.split(" ")[3] not in ("3", "4", "5")]
    mio = [" ".join(t for t in r.split(" ") if not t.startswith("fds=")) for c, r in zip(cases, io) if c.split(" ")[3] not in ("3", "4", "5")]
    mo = lib.run_cases(model, mcases, timeout=1800)
    bad = chk.compare(mcases, mo, mio, lambda c, m, r: not c.endswith("_"))
    nfail = 0
    for c, r in zip(cases, io):
        why = oracle(c, r)
        if why:
            nfail += 1
            if nfail <= 5:
                chk.violation("%s on `%s`" % (why, c[:120]), {"case": c, "impl": r[:2000], "variant": "asan"})
    if bad and not nfail:
        i = bad[0]
        chk.broken.append("correspondence C19 on %d cases, first `%s`: model `%s` impl `%s`" % (len(bad), mcases[i][:80], mo[i][:120], mio[i][:120]))
    chk.cov["traces_validated_against_impl"] = len(mcases) - len(bad)
    chk.cov["rule"] = ("10 element types x {declared little, declared big} x lengths 0..17, 63..65, 255, 256, 1000, 4096 (thorough: 1e5, 1e6), bit patterns "
                       "incl. NaN payloads/inf/denormals/extremes; mode 0 library writer + reader, mode 1 byte-swapped file read with the swap declared, "
                       "mode 2 missing file, mode 3 the same file read 120 times under a lowered descriptor limit; open descriptors counted around every call; file bytes, values, counts and statuses compared with the model; real files in a scratch directory")
    chk.cov["input_distribution"] = {"cases": len(cases)}
    for c in cases[20:22] + cases[-1:]:
        chk.sample(c[:160])
    chk.assumptions += ["the OS file layer (fopen/fread/fwrite) is trusted", "little-endian host; sysEndianType as probed by the library"]


def replay(chk, path):
    r = json.load(open(path))
    if "case" not in r:
        print("replay names a broken obligation, not an input:", r.get("broken"))
        return 1
    exe = lib.build_impl(r.get("variant", "asan"))
    out = lib.run_cases(exe, [r["case"]], env={"SZV_TMP": lib.scratch("szv-rw-")})[0]
    why = oracle(r["case"], out)
    print("case:", r["case"][:200]); print("impl:", out[:200]); print("result:", why or "property holds on this case")
    return 1 if why else 0
