"""C14 — all public entry points agree with the canonical compress/decompress pair."""
import json, os, struct
import lib, classes

LEVEL = "proof"
PROP_FILE = "Properties_C14"

# variant -> (name, same algorithm as the canonical pair?, element types, needs)
VARIANTS = {
    1: ("SZ_compress (defaults from configuration)", True, "all"),
    2: ("SZ_compress_args2 + SZ_decompress_args (caller buffers)", True, "all"),
    4: ("customize SZ", True, "all"), 5: ("customize SZ2.0", True, "all"), 6: ("customize SZ2.1", True, "all"),
    7: ("customize SZ1.4", True, "all"),            # canonical is run with withLinearRegression=NO
    8: ("customize SZ_Transpose", False, "tr"),
    9: ("threadsafe SZ", True, "fd"), 10: ("threadsafe SZ2.0", True, "fd"), 11: ("threadsafe SZ2.1", True, "fd"),
    12: ("threadsafe SZ1.4", True, "fd"), 13: ("threadsafe SZ_Transpose", False, "tr"),
    0x14: ("Fortran sz_compress_dN_T_ / sz_decompress_dN_T_", True, "fd"),
    0x15: ("Fortran sz_compress_dN_T_args_ / sz_decompress_dN_T_", True, "fd"),
}


def dbits(x):
    return "%x" % struct.unpack("<Q", struct.pack("<d", x))[0]


def dbl(h):
    return struct.unpack("<d", struct.pack("<Q", int(h, 16)))[0]


def kv(line):
    d = {}
    for tok in line.split(" "):
        if "=" in tok:
            k, v = tok.split("=", 1)
            d[k] = v
    return d


def tup5(t):
    t = list(t)
    return ",".join("%x" % v for v in [0] * (5 - len(t)) + t)


def gen_cases(chk):
    rng = chk.rng
    thorough = chk.tier == "thorough"
    tr, ep = [], []
    shapes = [(7,), (2, 3), (3, 2), (4, 30), (30, 4), (5, 5), (1, 7), (7, 1), (2, 3, 4), (4, 3, 2), (3, 3, 3), (2, 5, 7), (2, 3, 4, 5), (5, 4, 3, 2), (2, 2, 2, 2), (3, 1, 4, 2)]
    for _ in range(200 if thorough else 30):
        k = rng.randrange(1, 5)
        shapes.append(tuple(rng.randrange(1, 9) for _ in range(k)))
    for t in shapes:
        n = 1
        for v in t:
            n *= v
        for ty, w in ((0, 32), (1, 64), (4, 16), (5, 16)):
            vals = [rng.getrandbits(w) for _ in range(n)]
            tr.append("tr %x %s %s" % (ty, tup5(t), ",".join("%x" % v for v in vals)))
    eshapes = [(64,), (500,), (21,), (10, 30), (4, 30), (30, 4), (33, 17), (8, 9, 10), (5, 17, 6), (3, 4, 5, 6), (2, 7, 3, 11), (1, 40), (40, 1, 3), (1, 3, 13), (3, 13, 1), (2, 1, 8, 13)]
    if thorough:
        for _ in range(60):
            k = rng.randrange(1, 5)
            eshapes.append(tuple(rng.choice((1, 2, 3, 5, 8, 13, 30)) for _ in range(k)))
    for t in eshapes:
        n = 1
        for v in t:
            n *= v
        for v, (name, same, kinds) in VARIANTS.items():
            if kinds == "fd":
                types = [0, 1]
            elif kinds == "tr":
                types = [0, 1, 4, 5]
            else:
                types = [0, 1] + rng.sample(range(2, 10), 2)
            for ty in types:
                mode = rng.choice((0, 1)) if ty < 2 else 0
                if ty < 2:
                    scale, off = rng.choice((1.0, 50.0)), 0.0
                    absb = rng.choice((1e-1, 1e-2, 1e-3)) * scale
                else:
                    a_ = 3.0 if ty in (2, 3) else 200.0
                    scale, off = a_, (a_ * 20 if ty in (2, 4, 6, 8) else 0.0)
                    absb = rng.choice((1.0, 2.0))
                rel = rng.choice((1e-2, 1e-3))
                cfg = rng.choice(("-", "szMode=SZ_BEST_SPEED", "losslessCompressor=GZIP_COMPRESSOR"))
                if v in (7, 12):
                    cfg = "withLinearRegression=NO" if cfg == "-" else cfg + ";withLinearRegression=NO"
                data = "g:%d:%x:%x:%s:%s" % (rng.choice((0, 0, 2, 3)), rng.getrandbits(24), n, dbits(scale), dbits(off))
                ep.append("ep %x %x %s %x %s %s %s %s" % (v, ty, tup5(t), mode, dbits(absb), dbits(rel), cfg, data))
    return tr, ep


def ep_class(case, out):
    """class of a failing entry-point case (the kernels' own listed classes)"""
    a = case.split(" ")
    # reuse the round-trip classifier: same fields, shifted by one
    dims = a[3]
    if int(a[1], 16) in (8, 13):
        # the transposed array is compressed as a 1-D array
        n = 1
        for x in a[3].split(","):
            if int(x, 16):
                n *= int(x, 16)
        dims = "0,0,0,0,%x" % n
    fake = "rt %s %s %s %s %s %s 0 %s %s" % (a[2], dims, dims, a[4], a[5], a[6], a[7], a[8])
    return classes.classify(fake, out)


def ep_oracle(case, out):
    if out.startswith("DIED") or out.startswith("ERR"):
        return "implementation died: " + out[:200]
    a = case.split(" ")
    v = int(a[1], 16)
    name, same, _ = VARIANTS[v]
    d = kv(out)
    if d.get("st") != "ok":
        return "%s: %s" % (name, out[:100])
    if d.get("st1") != "0" or d.get("st2") != "0":
        return "%s: status compress=%s decompress=%s" % (name, d.get("st1"), d.get("st2"))
    if d["cnt"] != d["n"]:
        return "%s: returned element count %s for %s elements" % (name, d["cnt"], d["n"])
    if same and d["same"] != "1":
        return "%s: reconstruction differs from the canonical pair's" % name
    if int(d["viol"], 16):
        return "%s: %d elements outside the bound (max error %g, e %g)" % (name, int(d["viol"], 16), dbl(d["maxerr"]), dbl(d["e"]))
    return None


def run(chk):
    exe = lib.build_impl("asan")
    chk.prove(PROP_FILE)
    model = lib.build_model()
    tr, ep = gen_cases(chk)
    io = lib.run_cases(exe, tr, timeout=1800)
    mo = lib.run_cases(model, tr, timeout=1800)
    bad = chk.compare(tr, mo, io, lambda c, m, r: True)
    nfail = 0
    for c, r in zip(tr, io):
        d = kv(r)
        if r.startswith("DIED") or d.get("back") != c.split(" ")[3]:
            nfail += 1
            if nfail <= 3:
                chk.violation("detransposeData(transposeData(a)) differs from a on `%s`" % c[:100], {"case": c, "impl": r[:400], "variant": "asan"})
    if bad and not nfail:
        i = bad[0]
        chk.broken.append("correspondence C14 (transpose) on %d cases, first `%s`: model `%s` impl `%s`" % (len(bad), tr[i][:80], mo[i][:120], io[i][:120]))
    eo = lib.run_cases(exe, ep, timeout=3000)
    for c, r in zip(ep, eo):
        chk.cov["evaluations"] += 1
        chk.distinct.add(c)
        why = ep_oracle(c, r)
        if why:
            cls = ep_class(c, r)
            if cls and cls in chk.known_classes and "differs from the canonical" not in why and "status" not in why and "count" not in why:
                chk.known(cls, chk.known_classes[cls]["text"])
                continue
            nfail += 1
            if nfail <= 8:
                chk.violation("%s on `%s`" % (why, c[:150]), {"case": c, "impl": r[:400], "variant": "asan"})
    chk.cov["traces_validated_against_impl"] = len(tr) - len(bad)
    chk.cov["rule"] = ("tr: transposeData/detransposeData on shapes of rank 1..4 (square, non-square, with 1s) x float/double/uint16/int16 against the model; "
                       "ep: 14 public entry points (defaults call, caller-buffer variants, customize SZ/SZ2.0/SZ2.1/SZ1.4/SZ_Transpose, their threadsafe twins, "
                       "Fortran-callable dN wrappers) each run next to the canonical pair on the same array/configuration: statuses, element count, "
                       "bit-identity of the reconstructions where the names denote one algorithm, bound for all")
    chk.cov["input_distribution"] = {"tr": len(tr), "ep": len(ep), "variants": {str(k): v[0] for k, v in VARIANTS.items()}}
    for c in tr[4:5] + ep[:3]:
        chk.sample(c[:170])
    chk.assumptions += ["wrapper agreement is explored on the implementation (differential between entry points), not proved",
                        "kernel correctness is C01-C03; their listed finding classes are subtracted by class predicate"]


def replay(chk, path):
    r = json.load(open(path))
    if "case" not in r:
        print("replay names a broken obligation, not an input:", r.get("broken"))
        return 1
    exe = lib.build_impl(r.get("variant", "asan"))
    out = lib.run_cases(exe, [r["case"]])[0]
    why = ep_oracle(r["case"], out) if r["case"].startswith("ep") else None
    print("case:", r["case"][:200]); print("impl:", out[:300]); print("result:", why or "property holds on this case")
    return 1 if why else 0
