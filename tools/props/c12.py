"""C12 — the lossless wrapper is transparent and its format sniffing is always right."""
import json, os, struct
import lib, gen, classes

LEVEL = "proof"
PROP_FILE = "Properties_C12"


def dbits(x):
    return "%x" % struct.unpack("<Q", struct.pack("<d", x))[0]


def kv(line):
    d = {}
    for tok in line.split(" "):
        if "=" in tok:
            k, v = tok.split("=", 1)
            d[k] = v
    return d


def gen_cases(chk):
    rng = chk.rng
    thorough = chk.tier == "thorough"
    lz, sn, rt = [], [], []
    B = 65536
    lens = [0, 1, 2, 3, 17, 100, 4095, B - 1, B, B + 1, 2 * B - 1, 2 * B, 2 * B + 1, 3 * B, 200000]
    if thorough:
        lens += [k * B + d for k in (4, 5, 16) for d in (-1, 0, 1)] + [5000000]
    for be, levels in ((0, (-1, 0, 1, 2, 5, 6, 7, 9)), (1, (1, 3, 19, 22))):
        for level in (levels if thorough else levels[:6]):
            for n in lens:
                for kind in ("z", "r", "p", "s"):
                    if n > 300000 and kind != "p":
                        continue
                    if not thorough and n > B + 1 and kind in ("z", "s") and level not in (1, 3, -1):
                        continue
                    spec = "z:%x" % n if kind == "z" else "%s:%x:%x" % (kind, rng.getrandbits(20), n)
                    lz.append("lz %x %s %s" % (be, ("-%x" % -level) if level < 0 else "%x" % level, spec))
    # sniffer on prefixes that are not wrapped streams: SZ streams (version bytes) and arbitrary non-magic bytes
    for _ in range(2000 if thorough else 300):
        n = rng.randrange(2, 40)
        b = [rng.getrandbits(8) for _ in range(n)]
        if rng.random() < 0.3:
            b[0:3] = [2, 1, 12]
        if rng.random() < 0.15:
            b[0] = rng.choice((104, 120))
        if b[0] == 40 or 80 <= b[0] <= 95:
            b[0] = 41          # stay away from zstd / skippable-frame magics: ZSTD_getFrameContentSize is an assumption there
        sn.append("sniff " + ",".join("%x" % v for v in b))
    # end to end: the reconstruction must not depend on mode / back end / level
    configs = ["szMode=SZ_BEST_SPEED", "-", "szMode=SZ_DEFAULT_COMPRESSION", "zstdMode=Zstd_BEST_SPEED", "zstdMode=Zstd_HIGH_COMPRESSION",
               "losslessCompressor=GZIP_COMPRESSOR;gzipMode=Gzip_BEST_SPEED;zstdMode=Zstd_BEST_SPEED",
               "losslessCompressor=GZIP_COMPRESSOR;gzipMode=Gzip_NO_COMPRESSION;zstdMode=Zstd_HIGH_SPEED",
               "losslessCompressor=GZIP_COMPRESSOR;szMode=SZ_DEFAULT_COMPRESSION;zstdMode=Zstd_HIGH_COMPRESSION"]
    shapes = [(21,), (22,), (64,), (1000,), (30, 40), (8, 9, 10), (3, 4, 5, 6), (70000,)]
    if thorough:
        shapes += [(n,) for n in range(21, 80)] + [(300, 300), (40, 40, 40)]
    groups = []
    for t in shapes:
        n = 1
        for v in t:
            n *= v
        for ty in (0, 1, 7, 3, 5):
            if ty >= 2:
                a_ = 3.0 if ty == 3 else 200.0
                scale, off, absb = a_, 0.0, 1.0
            else:
                scale, off = 1.0, 0.0
                absb = rng.choice((1e-1, 1e-3))
            kind = rng.choice((0, 2, 5, 3))
            data = "g:%d:%x:%x:%s:%s" % (kind, rng.getrandbits(20), n, dbits(scale), dbits(off))
            dims = ",".join("%x" % v for v in [0] * (5 - len(t)) + list(t))
            grp = ["rt %x %s %s 0 %s %s 0 %s %s" % (ty, dims, dims, dbits(absb), dbits(1e-3), cfg, data) for cfg in configs]
            groups.append(grp)
    # short two-plateau arrays of every type: their wrapped streams are a few dozen bytes long, among them lengths equal to a constant
    # stream's (where every decoder entry has to sniff before it believes the length)
    ES_ = [4, 8, 1, 1, 2, 2, 4, 4, 8, 8]
    for ty in range(10):
        for n in range(21, 49 if not thorough else 120):
            vals = [0] * (n // 2) + [100] * (n - n // 2)
            if ty == 0:
                bits = [struct.unpack("<I", struct.pack("<f", float(v)))[0] for v in vals]
            elif ty == 1:
                bits = [struct.unpack("<Q", struct.pack("<d", float(v)))[0] for v in vals]
            else:
                bits = vals
            dims = "0,0,0,0,%x" % n
            data = "x:" + ",".join("%x" % b for b in bits)
            groups.append(["rt %x %s %s 0 %s %s 0 %s %s" % (ty, dims, dims, dbits(1.0), dbits(1e-3), cfg, data)
                           for cfg in ("szMode=SZ_BEST_SPEED", "losslessCompressor=GZIP_COMPRESSOR;gzipMode=Gzip_BEST_SPEED", "-", "losslessCompressor=GZIP_COMPRESSOR")])
    # large incompressible arrays of every element width: the verbatim stream of 4+md+8+1+w*N bytes is what the unwrap buffers of the
    # decoder entries are sized for (a 1 000 000-byte minimum hides anything below ~125000 8-byte / 250000 4-byte elements)
    big = [(1, 130000), (9, 130000), (8, 130000), (0, 260000), (7, 260000), (5, 520000), (2, 1040000)] if not thorough else \
          [(ty, nn) for ty in range(10) for nn in (130000, 260000, 520000, 1040000)]
    for ty, nn in big:
        dims = "0,0,0,0,%x" % nn
        if ty < 2:
            scale, off, absb = 1.0, 0.0, (1e-300 if ty == 1 else 1e-30)
        else:
            w = {2: 1, 3: 1, 4: 2, 5: 2, 6: 4, 7: 4, 8: 8, 9: 8}[ty]
            # wide enough to be incompressible, narrow enough that no difference of two values leaves the C type of the kernels' intermediates
            scale = {1: 30.0, 2: 8e3, 4: 1e8, 8: 1e18}[w]
            off, absb = (2 * scale if ty in (2, 4, 6, 8) else 0.0), 1.0
        data = "g:%d:%x:%x:%s:%s" % (7 if ty < 2 else 1, rng.getrandbits(20), nn, dbits(scale), dbits(off))
        groups.append(["rt %x %s %s 0 %s %s 0 %s %s" % (ty, dims, dims, dbits(absb), dbits(1e-3), cfg, data) for cfg in (configs[0], configs[1], configs[5])])
    return lz, sn, groups


def run(chk):
    gchanged, gnotes = gen.gen_funs()
    cchanged, cnotes = gen.gen_consts()
    chk.cov["t1"] = {k: str(v) for k, v in gnotes.items()}
    chk.cov["t2"] = {k: str(v) for k, v in cnotes.items()}
    exe = lib.build_impl("plain")
    chk.prove(PROP_FILE)
    model = lib.build_model()
    lz, sn, groups = gen_cases(chk)
    cases = lz + sn
    io = lib.run_cases(exe, cases, timeout=3000)
    mo = lib.run_cases(model, cases, timeout=3000)
    nfail = 0
    nbad = 0
    for c, r, m in zip(cases, io, mo):
        chk.cov["evaluations"] += 1
        chk.distinct.add(c)
        d, md = kv(r), kv(m)
        if c.startswith("lz"):
            if r.startswith("DIED") or d.get("rt") != "1" or d.get("dsize_ok") != "1":
                nfail += 1
                if nfail <= 5:
                    chk.violation("unwrap(wrap(bytes)) differs from bytes (or died) on `%s`: %s" % (c, r[:160]), {"case": c, "impl": r[:300], "variant": "plain"})
                continue
            be = c.split(" ")[1]
            if d.get("sniff") != be:
                nfail += 1
                if nfail <= 5:
                    chk.violation("wrapped stream of back end %s classified %s on `%s`" % (be, d.get("sniff"), c), {"case": c, "impl": r[:300], "variant": "plain"})
                continue
            head = d.get("head", "")
            if not head.startswith(md.get("head", "?")) or d.get("n") != md.get("n"):
                nbad += 1
                if nbad <= 3:
                    chk.broken.append("correspondence C12 (stream header) on `%s`: model head %s impl head %s" % (c, md.get("head"), head))
        else:
            if r != m:
                # an unwrapped / arbitrary prefix: the implementation's verdict must be the model's
                nbad += 1
                if nbad <= 3:
                    chk.broken.append("correspondence C12 (sniffer) on `%s`: model %s impl %s" % (c, m, r))
                a = c.split(" ")[1].split(",")
                if a[:3] == ["2", "1", "c"] and d.get("sniff") != "-1":
                    nfail += 1
                    chk.violation("an unwrapped SZ stream prefix is classified %s on `%s`" % (d.get("sniff"), c), {"case": c, "impl": r, "variant": "plain"})
    # mode independence
    flat = [c for g in groups for c in g]
    ro = lib.run_cases(exe, flat, timeout=3000)
    k = 0
    for g in groups:
        outs = ro[k:k + len(g)]
        k += len(g)
        digs = []
        for c, r in zip(g, outs):
            chk.cov["evaluations"] += 1
            chk.distinct.add(c)
            d = kv(r.split(" | ", 1)[1] if r.startswith("DIED") and " | " in r else r)
            if r.startswith("DIED") or d.get("st") != "ok":
                cls = classes.classify(c, r)
                if cls and cls in chk.known_classes:
                    chk.known(cls, chk.known_classes[cls]["text"])
                    digs.append(None)
                    continue
                nfail += 1
                if nfail <= 8:
                    chk.violation("round trip failed under `%s`: %s" % (c.split(" ")[8], r[:120]), {"case": c, "impl": r[:300], "variant": "plain"})
                digs.append(None)
                continue
            digs.append(d.get("dig"))
        ref = [x for x in digs if x is not None]
        if ref and any(x != ref[0] for x in ref):
            nfail += 1
            if nfail <= 8:
                i = [j for j, x in enumerate(digs) if x is not None and x != ref[0]][0]
                chk.violation("reconstruction depends on the mode/back end: `%s` vs `%s`" % (g[0].split(" ")[8], g[i].split(" ")[8]),
                              {"case": g[i], "reference_case": g[0], "impl": outs[i][:300], "variant": "plain"})
    chk.cov["traces_validated_against_impl"] = len(cases) - nbad
    chk.cov["rule"] = ("lz: byte strings of lengths 0..200000 (thorough: to 5 MB) dense around multiples of 64 KiB, zero/random/periodic/SZ-like, "
                       "both back ends, zlib levels -1..9 / zstd levels 1..22: round trip, header bytes vs the model's zlib_header, sniffer verdict; "
                       "sniff: SZ-like and arbitrary non-magic prefixes vs the model; rt groups: the same array under 8 mode/back-end/level "
                       "settings must reconstruct bit-identically")
    chk.cov["input_distribution"] = {"lz": len(lz), "sniff": len(sn), "rt": len(flat)}
    for c in lz[:2] + sn[:1] + flat[:1]:
        chk.sample(c[:170])
    chk.assumptions += ["zlib 1.2.13 and zstd 1.5.4 (trusted): round trip, stream headers and ZSTD_getFrameContentSize are assumptions of the theorems, sampled here",
                        "c2gallina translation of isZlibFormat; constants from the source text (bypass sizes, SZ_ZLIB_BUFFER_SIZE, version bytes)"]


def replay(chk, path):
    r = json.load(open(path))
    if "case" not in r:
        print("replay names a broken obligation, not an input:", r.get("broken"))
        return 1
    exe = lib.build_impl(r.get("variant", "plain"))
    cases = [r["case"]] + ([r["reference_case"]] if "reference_case" in r else [])
    outs = lib.run_cases(exe, cases)
    for c, o in zip(cases, outs):
        print("case:", c[:200]); print("impl:", o[:300])
    bad = any(o.startswith("DIED") for o in outs) or (len(outs) == 2 and kv(outs[0]).get("dig") != kv(outs[1]).get("dig")) or \
        (cases[0].startswith("lz") and (kv(outs[0]).get("rt") != "1" or kv(outs[0]).get("sniff") != cases[0].split(" ")[1]))
    print("result:", "violation reproduced" if bad else "property holds on this case")
    return 1 if bad else 0
