"""C03 — integer arrays (8 element types) reconstruct within the requested bound."""
import json, os, struct
import lib, classes

LEVEL = "proof"
PROP_FILE = "Properties_C03"
W = {2: 8, 3: 8, 4: 16, 5: 16, 6: 32, 7: 32, 8: 64, 9: 64}
SIGNED = {3, 5, 7, 9}


def dbits(x):
    return "%x" % struct.unpack("<Q", struct.pack("<d", x))[0]


def dbl(h):
    return struct.unpack("<d", struct.pack("<Q", int(h, 16)))[0]


def kv(line):
    d = {}
    for tok in line.split(" "):
        if "=" in tok:
            k, v = tok.split("=", 1)
            d[k] = v
    return d


def tmin(ty):
    return -(1 << (W[ty] - 1)) if ty in SIGNED else 0


def tmax(ty):
    return (1 << (W[ty] - 1)) - 1 if ty in SIGNED else (1 << W[ty]) - 1


def enc(ty, v):
    return v & ((1 << W[ty]) - 1)


def gen_values(ty, n, rng):
    lo, hi = tmin(ty), tmax(ty)
    kind = rng.choice((0, 0, 1, 1, 2, 2, 7, 8, 0, 1, 3, 4, 5, 6))
    span = hi - lo
    if kind == 0:      # smooth, mid range, small amplitude
        c = lo + span // 2
        a = min(span // 16, rng.choice((5, 50, 1000)))
        import math
        return [int(c + a * math.sin(i * 0.21) + rng.randrange(-1, 2)) for i in range(n)]
    if kind == 1:      # random walk, mid range
        v = lo + span // 2
        out = []
        for _ in range(n):
            v += rng.randrange(-7, 8)
            out.append(max(lo, min(hi, v)))
        return out
    if kind == 2:      # noisy, narrow range crossing a byte-size boundary of the offset coding
        r = rng.choice((200, 256, 257, 65535, 65536, 65537, 70000))
        r = min(r, span)
        base = lo + (span - r) // 2
        return [base + rng.randrange(r + 1) for _ in range(n)]
    if kind == 3:      # near the type's maximum
        return [hi - rng.randrange(0, 12) for _ in range(n)]
    if kind == 4:      # near the type's minimum
        return [lo + rng.randrange(0, 12) for _ in range(n)]
    if kind == 5:      # alternating extremes (wrap-prone differences)
        return [rng.choice((lo, hi, lo + 1, hi - 1)) for _ in range(n)]
    if kind == 6:      # full-range random
        return [rng.randrange(lo, hi + 1) for _ in range(n)]
    if kind == 7:      # constant blocks with jumps
        out = []
        v = lo + span // 3
        for i in range(n):
            if i % 17 == 0:
                v = lo + span // 3 + rng.randrange(0, min(span // 3, 5000) + 1)
            out.append(v)
        return out
    c = lo + span // 2     # ramp
    return [max(lo, min(hi, c + 3 * i)) for i in range(n)]


PBITS = {2: 64, 3: 64, 4: 64, 5: 64, 6: 32, 7: 32, 8: 64, 9: 64}
DBITS = {2: 32, 3: 32, 4: 32, 5: 32, 6: 64, 7: 32, 8: 64, 9: 64}


def dec(ty, u):
    return u - (1 << W[ty]) if ty in SIGNED and u >> (W[ty] - 1) else u


def safe_zone(ty, vals, e):
    """sufficient condition for a run without narrowing events (coarser than the model's `events` flag, but defined for every bound)"""
    lo, hi = min(vals), max(vals)
    m = max(abs(lo), abs(hi)) + e
    return (lo - e >= tmin(ty) and hi + e <= tmax(ty) and 8 * m < 2 ** (PBITS[ty] - 1) and 9 * m < 2 ** (DBITS[ty] - 1)
            and 9 * m + e < 2 ** 52 and (ty != 8 or hi < 2 ** 62))


def tup5(t):
    t = list(t)
    return ",".join("%x" % v for v in [0] * (5 - len(t)) + t)


def gen_cases(chk):
    rng = chk.rng
    thorough = chk.tier == "thorough"
    cases = []
    shapes = [(1,), (2,), (3,), (4,), (5,), (7,), (20,), (21,), (64,), (300,), (2, 2), (2, 3), (5, 7), (17, 16), (30, 31), (2, 2, 2), (3, 4, 5), (6, 7, 8), (10, 10, 10),
              (2, 2, 2, 2), (2, 3, 4, 5), (3, 4, 3, 5), (100,), (400,), (24, 25), (40, 9), (8, 9, 10), (4, 20, 5), (3, 5, 6, 7), (2, 6, 6, 6)]
    if thorough:
        shapes += [(1000,), (4000,), (64, 64), (16, 17, 18), (4, 5, 6, 7)] + [(n,) for n in range(6, 40, 3)]
    for t in shapes:
        n = 1
        for v in t:
            n *= v
        for ty in range(2, 10):
            for _ in range(8 if thorough else 3):
                vals = gen_values(ty, n, rng)
                e = rng.choice((1, 1, 2, 3, 5, 10, 100))
                if rng.random() < 0.2:
                    e = rng.choice((0.5, 0.7, 1.5, 2.25))         # fractional bounds: the listed class
                q = rng.choice((0, 0, 32, 256, 4, 65536))
                cfg = "szMode=SZ_BEST_SPEED" + (";quantization_intervals=%d" % q if q else "")
                cases.append("rtr %x %s %s 0 %s %s 0 %s x:%s" % (ty, tup5(t), tup5(t), dbits(float(e)), dbits(1e-3), cfg,
                                                               ",".join("%x" % enc(ty, v) for v in vals)))
    # the quantiser's case split: a prediction error of exactly (intervals-1)*e, one below and one above, in both directions
    # (a plateau, one jump of that size, a second plateau: every predictor of every rank predicts the plateau value)
    for ty in range(2, 10):
        lo, hi = tmin(ty), tmax(ty)
        for t in ((96,), (8, 12), (4, 4, 6)):
            n = 1
            for v in t:
                n *= v
            for q, e in ((32, 1), (32, 2), (256, 1)) if W[ty] > 8 else ((32, 1), (32, 2), (4, 3)):
                r = (q - 1) * e
                for d in (r, -r, r - 1, -(r - 1), r + 1, -(r + 1)):
                    c = lo + (hi - lo) // 2
                    if not (lo <= c + d <= hi):
                        continue
                    k = n // 2 + 1
                    vals = [c] * k + [c + d] * (n - k)
                    cases.append("rtr %x %s %s 0 %s %s 0 szMode=SZ_BEST_SPEED;quantization_intervals=%d x:%s" % (ty, tup5(t), tup5(t), dbits(float(e)), dbits(1e-3), q,
                                                                                                           ",".join("%x" % enc(ty, v) for v in vals)))
    # the width of an exact value (computeByteSizePerIntValue: offsets 0..range must fit): value ranges exactly on, one below and one above each
    # width boundary, the extremes alternating so that with four intervals every value - the maximum included - is stored exactly
    for ty in range(2, 10):
        lo, hi = tmin(ty), tmax(ty)
        for R in (255, 256, 257, 65535, 65536, 65537, (1 << 32) - 1, 1 << 32, (1 << 32) + 1):
            if R > hi - lo or (W[ty] == 32 and R >= (1 << 32) - 1):
                continue
            base = (lo + (hi - lo - R) // 2) if W[ty] < 64 else (-(R // 2) if ty in SIGNED else 1000)
            for t in ((24,), (4, 6), (2, 3, 4), (2, 2, 2, 3)):
                n = 1
                for v in t:
                    n *= v
                vals = [base + R if i % 2 == 0 else base for i in range(n)]
                vals[n // 2] = base + R // 2
                if len(t) == 1:
                    # the same range as plateaus of eight in a longer array: only the jumps are stored exactly, so the kernel's stream stays below the
                    # raw size (for the 8..32-bit types the short alternating arrays above come back as verbatim copies, which bypass the width)
                    pv = [base + R if (i // 8) % 2 == 0 else base for i in range(240)]
                    cases.append("rtr %x %s %s 0 %s %s 0 szMode=SZ_BEST_SPEED;quantization_intervals=4 x:%s" % (ty, tup5((240,)), tup5((240,)), dbits(1.0), dbits(1e-3),
                                                                                                            ",".join("%x" % enc(ty, v) for v in pv)))
                cases.append("rtr %x %s %s 0 %s %s 0 szMode=SZ_BEST_SPEED;quantization_intervals=4 x:%s" % (ty, tup5(t), tup5(t), dbits(1.0), dbits(1e-3),
                                                                                                        ",".join("%x" % enc(ty, v) for v in vals)))
    # the 8- and 16-bit kernels clamp reconstructions to the type's range (every predictor position has its own clamp):
    # noisy data hugging the minimum / the maximum, every rank
    for ty in (2, 3, 4, 5):
        lo, hi = tmin(ty), tmax(ty)
        for t in ((200,), (12, 16), (8, 16, 16), (5, 6, 7), (3, 4, 5, 6)):
            n = 1
            for v in t:
                n *= v
            for side in (0, 1):
                for e in (1, 3, 5) if not thorough else (1, 2, 3, 5, 7):
                    amp = 4 * e + 3
                    # a third of the values exactly on the extreme, so that reconstructions overshoot it at every kind of position
                    vals = [((lo if rng.random() < 0.33 else lo + rng.randrange(0, amp)) if side == 0 else (hi if rng.random() < 0.33 else hi - rng.randrange(0, amp))) for _ in range(n)]
                    # reconstructions live on the lattice first value + 2ke: anchor it so that the lattice point nearest to the
                    # extreme lies beyond it (offset e+1), otherwise no reconstruction ever needs clamping
                    vals[0] = lo + e + 1 if side == 0 else hi - (e + 1)
                    # few intervals: many values are stored exactly and re-anchor the lattice all over the array (with many intervals the first
                    # clamped value re-anchors it on the extreme for good)
                    q = rng.choice((4, 8, 0))
                    cases.append("rtr %x %s %s 0 %s %s 0 szMode=SZ_BEST_SPEED%s x:%s" % (ty, tup5(t), tup5(t), dbits(float(e)), dbits(1e-3), ";quantization_intervals=%d" % q if q else "",
                                                                                        ",".join("%x" % enc(ty, v) for v in vals)))
    # range-relative bounds and the wrapped modes on generated data in the safe zone (oracle only)
    for t in [(500,), (40, 30), (9, 10, 11), (3, 4, 5, 6)] + ([(20000,), (150, 150), (30, 30, 30)] if thorough else []):
        n = 1
        for v in t:
            n *= v
        for ty in range(2, 10):
            a_ = 3.0 if ty in (2, 3) else 200.0
            off = a_ * 20 if ty in (2, 4, 6, 8) else 0.0
            for mode, absb, rel in ((1, 1.0, 0.01), (1, 1.0, 0.3), (0, 2.0, 0.01), (2, 2.0, 0.5), (3, 1.0, 0.001)):
                cfg = rng.choice(("-", "szMode=SZ_DEFAULT_COMPRESSION", "losslessCompressor=GZIP_COMPRESSOR"))
                data = "g:%d:%x:%x:%s:%s" % (rng.choice((0, 1, 2, 3)), rng.getrandbits(20), n, dbits(a_), dbits(off))
                cases.append("rt %x %s %s %x %s %s 0 %s %s" % (ty, tup5(t), tup5(t), mode, dbits(absb), dbits(rel), cfg, data))
            if ty in (2, 4):
                # the same around the middle of an unsigned type's range (128, 32768), where a signed reading of the values would wrap:
                # the value range, hence the range-relative bound, must be the unsigned one
                mid = 128.0 if ty == 2 else 32768.0
                for mode, absb, rel in ((1, 1.0, 0.05), (2, 50.0, 0.05), (3, 1.0, 0.02)):
                    data = "g:%d:%x:%x:%s:%s" % (rng.choice((0, 1, 3)), rng.getrandbits(20), n, dbits(a_), dbits(mid))
                    cases.append("rt %x %s %s %x %s %s 0 %s %s" % (ty, tup5(t), tup5(t), mode, dbits(absb), dbits(rel), rng.choice(("-", "szMode=SZ_BEST_SPEED")), data))
    return cases


def stream_info(stream_hex):
    b = [int(x, 16) for x in stream_hex.split(",")] if stream_hex not in ("_", "") else []
    if len(b) < 49:
        return None
    flag = b[3]
    info = {"const": flag & 1, "lossless": (flag >> 4) & 1}
    if not info["const"] and not info["lossless"]:
        off = 4 + 28 + 1 + 8 + 4
        info["intervals"] = int.from_bytes(bytes(b[off:off + 4]), "big")
    return info


def run(chk):
    exe = lib.build_impl("asan")
    chk.prove(PROP_FILE)
    model = lib.build_model()
    cases = gen_cases(chk)
    cp = os.path.join(lib.VERIF, "corpus", "C03.cases")
    if os.path.exists(cp):
        cases = [l.strip() for l in open(cp) if l.strip() and not l.startswith("#")] + cases
    io = lib.run_cases(exe, cases, timeout=3000)
    # model runs for the explicit-data cases with an integral bound
    mcases, midx = [], []
    for i, (c, r) in enumerate(zip(cases, io)):
        a = c.split(" ")
        if a[0] != "rtr" or r.startswith("DIED"):
            continue
        d = kv(r)
        e = dbl(a[5])
        if e != int(e) or e < 1 or d.get("st") != "ok":
            continue
        info = stream_info(d.get("stream", "_"))
        if not info or info["const"] or info["lossless"]:
            continue
        dims = [int(x, 16) for x in a[2].split(",") if int(x, 16) > 1] or [1]
        mcases.append("intk %s %s %x %x %s" % (a[1], ",".join("%x" % v for v in dims), int(e), info["intervals"], a[9][2:]))
        midx.append(i)
    mo = lib.run_cases(model, mcases, timeout=3000)
    mres = {i: kv(m) for i, m in zip(midx, mo)}
    nfail = nbad = ncompared = nevent = 0
    for i, (c, r) in enumerate(zip(cases, io)):
        chk.cov["evaluations"] += 1
        a = c.split(" ")
        fake = "rt " + " ".join(a[1:])
        d = kv(r.split(" | ", 1)[1] if r.startswith("DIED") and " | " in r else r)
        md = mres.get(i)
        why = None
        if r.startswith("DIED") or d.get("st") != "ok":
            why = "round trip failed: " + r[:140]
        elif int(d["viol"], 16):
            why = "%d elements outside the bound (first %d, max error %g, e %g)" % (int(d["viol"], 16), int(d["first"], 16), dbl(d["maxerr"]), dbl(d["e"]))
        elif dbl(d["e"]) < 1 and dbl(d["maxerr"]) != 0:
            why = "bound below 1 but the reconstruction is not exact"
        if md is not None and md.get("ev") == "0":
            chk.distinct.add(c)
            ncompared += 1
            if not r.startswith("DIED") and d.get("recon") != md.get("recon"):
                nbad += 1
                if nbad <= 3:
                    chk.broken.append("correspondence C03 (reconstruction, event-free run) on `%s`: model `%s` impl `%s`" % (c[:120], md.get("recon", "")[:120], d.get("recon", "")[:120]))
                if why is None:
                    continue
        if why:
            cls = classes.classify(fake, r)
            if cls in (None, "int_fractional_bound") and md is not None and md.get("ev") == "1":
                cls = "int_narrowing"
            if cls is None and md is None and a[0] == "rtr":
                vals = [dec(int(a[1], 16), int(x, 16)) for x in a[9][2:].split(",")]
                if not safe_zone(int(a[1], 16), vals, dbl(a[5])):
                    cls = "int_narrowing"
            if cls and cls in chk.known_classes:
                chk.known(cls, chk.known_classes[cls]["text"])
                if cls == "int_narrowing":
                    nevent += 1
                continue
            nfail += 1
            if nfail <= 8:
                chk.violation("%s on `%s`" % (why, c[:150]), {"case": c, "impl": r[:400], "model": (mo[midx.index(i)][:200] if i in mres else None), "variant": "asan"})
    chk.cov["traces_validated_against_impl"] = ncompared - nbad
    chk.cov["rule"] = ("explicit arrays of all eight integer types, ranks 1..4 (lengths from 1), nine value patterns (mid-range smooth/walk/noisy, narrow ranges "
                       "crossing the 256/65536 offset-width boundaries, type minimum/maximum neighbourhoods, alternating extremes, full-range random, blocks, "
                       "ramp), integral and fractional ABS bounds, auto and fixed interval counts: reconstruction compared bit for bit with the model on "
                       "event-free runs (distinct_nontrivial counts exactly those), bound oracle on all; plus REL / AND / OR bounds under the wrapped modes "
                       "on generated safe-zone data (oracle only)")
    chk.cov["input_distribution"] = {"cases": len(cases), "model_compared_event_free": ncompared, "model_event_runs": sum(1 for m in mres.values() if m.get("ev") == "1"),
                                     "narrowing_failures_observed": nevent}
    for c in cases[:2]:
        chk.sample(c[:200])
    chk.assumptions += ["binary64 computes floor((d+e)/(2e)) exactly for integral e and magnitudes < 2^52 (tied by the bit-for-bit comparison, not proved)",
                        "the per-file C types of pred/diff are a table in Model/QuantInt.v (ity_of)", "ASan build"]


def replay(chk, path):
    r = json.load(open(path))
    if "case" not in r:
        print("replay names a broken obligation, not an input:", r.get("broken"))
        return 1
    exe = lib.build_impl(r.get("variant", "asan"))
    out = lib.run_cases(exe, [r["case"]])[0]
    d = kv(out)
    bad = out.startswith("DIED") or d.get("st") != "ok" or int(d.get("viol", "0"), 16) != 0
    print("case:", r["case"][:300]); print("impl:", out[:300]); print("result:", "violation reproduced" if bad else "property holds on this case")
    return 1 if bad else 0
