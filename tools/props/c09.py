"""C09 — any shape round-trips: size-1 dimensions, tiny arrays, 5-D refused cleanly."""
import itertools, json, os, struct
import lib, gen, classes

LEVEL = "proof"
PROP_FILE = "Properties_C09"
TYPES = {0: "float", 1: "double", 2: "uint8", 3: "int8", 4: "uint16", 5: "int16", 6: "uint32", 7: "int32", 8: "uint64", 9: "int64"}


def dbits(x):
    return "%x" % struct.unpack("<Q", struct.pack("<d", x))[0]


def tup5(t):
    """t = sizes slowest first (e.g. (r3,r2,r1)) -> 'r5,r4,r3,r2,r1' with leading zeros"""
    t = list(t)
    return ",".join("%x" % v for v in [0] * (5 - len(t)) + t)


def squeeze(t):
    s = [v for v in t if v != 1]
    return s if s else [1]


def kv(line):
    d = {}
    for tok in line.split(" "):
        if "=" in tok:
            k, v = tok.split("=", 1)
            d[k] = v
    return d


def gen_cases(chk):
    rng = chk.rng
    thorough = chk.tier == "thorough"
    fd, rt = [], []
    vals = [1, 2, 3, 5, 21]
    tuples = []
    for k in range(1, 6):
        for t in itertools.product(vals, repeat=k):
            tuples.append(t)
    for t in tuples:
        fd.append("fdim " + tup5(t))
    for _ in range(3000 if thorough else 400):
        k = rng.randrange(1, 6)
        t = tuple(rng.choice((1, 1, 2, 4095, 4094, rng.randrange(1, 4096), rng.randrange(1, 40))) for _ in range(k))
        fd.append("fdim " + tup5(t))
    # end-to-end round trips: same tuple, squeezed on the decompression side, squeezed on the compression side
    def prod(t):
        p = 1
        for v in t:
            p *= v
        return p
    limit = 200000 if thorough else 20000
    cand = [t for t in tuples if prod(t) <= limit]
    rng.shuffle(cand)
    # make sure the interesting families are present: all-ones, ones in every position, tiny, 5-D genuine
    forced = [(1,), (1, 1), (1, 1, 1), (1, 1, 1, 1), (1, 1, 1, 1, 1), (2,), (3,), (5,), (21,), (1, 21), (21, 1), (1, 5, 1), (2, 1, 2),
              (1, 3, 4, 5, 6), (3, 1, 5, 1, 2), (1, 1, 1, 1, 30), (30, 1, 1, 1, 1), (2, 2, 2, 2, 2), (2, 3, 2, 3, 2), (3, 2, 2, 2, 5),
              (2, 2, 3, 21), (21, 3, 2, 2), (5, 5, 5, 5), (1, 22), (22, 1, 1), (2, 11), (7, 3), (3, 7),
              # extents the regression kernels cut into blocks with different remainders per dimension (r % (r/16 blocks)), unit dimensions anywhere
              (50, 40), (40, 50), (1, 50, 40), (50, 1, 40), (33, 17), (33, 1, 17, 1), (1, 100, 36), (20, 33, 18), (20, 1, 33, 18), (18, 20, 35), (1, 18, 1, 20, 35), (2, 18, 20, 35)]
    nsel = 2500 if thorough else 330
    sel = forced + cand[:nsel]
    for t in sel:
        n = prod(t)
        for ty in ([0, 1] + rng.sample(range(2, 10), 8 if thorough else 2)):
            mode = rng.choice((0, 1))
            if ty < 2:
                scale, off = rng.choice((1.0, 100.0, 1e-3)), 0.0
                absb = rng.choice((1e-1, 1e-2, 1e-3)) * scale
            else:
                # integers: keep every Lorenzo extrapolation inside the type's range (the extremes are C03's
                # classes, not a matter of shape): amplitude a around a centre >= 16 a (unsigned) or 0 (signed)
                a_ = rng.choice((3.0, 5.0)) if ty in (2, 3) else rng.choice((50.0, 1000.0))
                scale, off = a_, (a_ * 20 if ty in (2, 4, 6, 8) else 0.0)
                absb = rng.choice((1.0, 2.0)) if ty in (2, 3) else rng.choice((1.0, 2.0, 5.0))
            rel = rng.choice((1e-2, 1e-3))
            cfg = rng.choice(("-", "szMode=SZ_BEST_SPEED", "-", "withLinearRegression=NO"))
            # (the random walk, kind 2, wanders ~0.03*sqrt(n) amplitudes away from the centre: for integers it is used only while that stays inside a_)
            kinds = (0, 0, 1, 2, 3) if (ty < 2 or n <= 400) else (0, 0, 1, 3)
            data = "g:%d:%x:%x:%s:%s" % (rng.choice(kinds), rng.getrandbits(24), n, dbits(scale), dbits(off))
            sq = squeeze(t)
            variants = [(t, t)]
            if list(sq) != list(t):
                variants += [(t, sq), (sq, t)]
            for ct, dt in variants:
                rt.append("rt %x %s %s %x %s %s 0 %s %s" % (ty, tup5(ct), tup5(dt), mode, dbits(absb), dbits(rel), cfg, data))
    return fd, rt


def rt_oracle(case, out, pred):
    """property oracle on the implementation's output of one round trip; pred = model prediction (c09rt)"""
    a = case.split(" ")
    cd = [int(x, 16) for x in a[2].split(",")]
    genuine5 = all(v >= 2 for v in cd)
    n = 1
    for v in cd:
        if v:
            n *= v
    if out.startswith("DIED") or out.startswith("ERR"):
        return "implementation died: " + out
    d = kv(out)
    if genuine5:
        # either refused (NULL from the compressor, or NULL from the decompressor), or served correctly
        if d.get("st") in ("null", "dec-null"):
            return None
    if d.get("st") != "ok":
        return "round trip failed: " + out[:120]
    if int(d["n"], 16) != n or int(d["dn"], 16) != n:
        return "element count: n=%s dn=%s expected %x" % (d["n"], d["dn"], n)
    if int(d["viol"], 16) != 0:
        return "%d elements outside the bound (first index %d, max error bits %s, e bits %s)" % (
            int(d["viol"], 16), int(d["first"], 16), d["maxerr"], d["e"])
    if d.get("inmod") == "1":
        return "the caller's input array was modified"
    return None




def run(chk):
    gchanged, gnotes = gen.gen_funs()
    chk.cov["t1"] = {k: (v if not isinstance(v, list) else [str(x) for x in v]) for k, v in gnotes.items()}
    exe = lib.build_impl("asan")
    chk.prove(PROP_FILE)
    model = lib.build_model()
    fd, rt = gen_cases(chk)
    corpus = os.path.join(lib.VERIF, "corpus", "C09.cases")
    if os.path.exists(corpus):
        extra = [l.strip() for l in open(corpus) if l.strip() and not l.startswith("#")]
        fd = [c for c in extra if c.startswith("fdim")] + fd
        rt = [c for c in extra if c.startswith("rt")] + rt
    # (1) generated Gallina vs compiled C on filterDimension / computeDimension / computeDataLength
    mo = lib.run_cases(model, fd)
    io = lib.run_cases(exe, fd)
    bad = chk.compare(fd, mo, io, lambda c, m, r: "c=" in r)
    # the same tuples against the statement itself: the normalised shape is the caller's without its size-1 dimensions (all ones: one element)
    nf0 = 0
    for c, r in zip(fd, io):
        t = [int(x, 16) for x in c.split(" ")[1].split(",")]
        sq = [v for v in t if v > 1] or ([1] if any(t) else [])
        want = list(reversed(sq)) + [0] * (5 - len(sq))
        d = kv(r)
        if "c" in d and ([int(x, 16) for x in d["c"].split(",")] != want or int(d.get("fdim", "0"), 16) != len(sq)):
            nf0 += 1
            if nf0 <= 3:
                chk.violation("filterDimension turns the shape %s into %s (rank %s); without its size-1 dimensions it is %s" % (
                    [v for v in t if v], d["c"], d.get("fdim"), sq), {"case": c, "impl": r, "variant": "asan"})
    if bad:
        i = bad[0]
        chk.broken.append("correspondence T1/T3 filterDimension on %d tuples, first `%s`: model `%s` impl `%s`" % (len(bad), fd[i], mo[i], io[i]))
    # (2) end-to-end round trips on the implementation; the model predicts counts and dispatch
    pred = lib.run_cases(model, ["c09rt %s %s" % (c.split(" ")[2], c.split(" ")[3]) for c in rt])
    ro = lib.run_cases(exe, rt, timeout=1800)
    nfail = 0
    for c, r, p in zip(rt, ro, pred):
        chk.cov["evaluations"] += 1
        chk.distinct.add(c)
        pd = kv(p)
        if pd.get("wf") != "1" or pd.get("same") != "1":
            chk.broken.append("model: generated case outside the theorem's hypotheses: %s -> %s" % (c[:80], p))
            continue
        why = rt_oracle(c, r, pd)
        if why:
            cls = classes.classify(c, r)
            if cls and cls in chk.known_classes:
                chk.known(cls, chk.known_classes[cls]["text"])
                continue
            nfail += 1
            if nfail <= 6:
                chk.violation("%s on `%s`" % (why, c[:160]), {"case": c, "impl": r, "model": p, "variant": "asan"})
    # (3) the same shapes in point-wise relative mode (own decoder dispatch per rank; exact per-element oracle of the `pw` op)
    pshapes = [(30,), (1, 30), (30, 1), (6, 7), (7, 1, 6), (1, 6, 1, 7), (3, 4, 5), (3, 1, 4, 5), (5, 4, 3, 1), (6, 5, 4, 3), (3, 4, 5, 6), (2, 3, 5, 7), (3, 4, 4, 3), (1, 2, 3, 5, 7), (2, 3, 1, 5, 7), (22,), (21,), (5, 5)]
    pw = []
    for t in pshapes:
        for ty in (0, 1):
            for r, cfgp in ((1e-2, "szMode=SZ_BEST_SPEED"), (1e-3, "-"), (1e-6, "szMode=SZ_BEST_SPEED")):
                for g in (0, 1, 2):     # smooth positive and mixed-sign fields compress (the rank's own decoder runs); random magnitudes are stored verbatim
                    pw.append("pw %x %s %s %s %d %x 3" % (ty, tup5(t), dbits(r), cfgp, g, chk.rng.getrandbits(16)))
    po = lib.run_cases(exe, pw, timeout=1800)
    for c, r in zip(pw, po):
        chk.cov["evaluations"] += 1
        chk.distinct.add(c)
        d = kv(r.split(" | ", 1)[1] if r.startswith("DIED") and " | " in r else r)
        if r.startswith("DIED") or d.get("st") != "ok" or int(d.get("viol", "1"), 16):
            nfail += 1
            if nfail <= 6:
                chk.violation("point-wise relative round trip with this shape: %s on `%s`" % (r[:160], c[:120]), {"case": c, "impl": r[:400], "variant": "asan"})
    chk.cov["rule"] = ("fdim: every tuple of 1..5 sizes over {1,2,3,5,21} plus random tuples up to 4095, generated Gallina vs compiled C; "
                       "rt: compress/decompress through SZ_compress_args/SZ_decompress (ASan) with the same tuple and with the size-1 "
                       "dimensions squeezed on either side, 10 element types, ABS/REL; pw: float/double PW_REL round trips over ranks 1..4 with size-1 dimensions and non-palindromic 4-D shapes; non-trivial = all; distinct = distinct case line")
    chk.cov["input_distribution"] = {"fdim": len(fd), "rt": len(rt)}
    chk.cov["traces_validated_against_impl"] = len(fd) - len(bad)
    for c in fd[100:102] + rt[:3]:
        chk.sample(c)
    chk.assumptions += [
        "tools/c2gallina.py (C subset -> Gallina over Z, unsigned wrap mod 2^64) for computeDimension/computeDataLength/filterDimension",
        "tuple sizes < 2^12 in the theorems (no size_t wrap); kernels' own correctness is C01-C03",
        "ASan/UBSan build of /repo's working tree for the end-to-end oracle",
    ]


def replay(chk, path):
    r = json.load(open(path))
    if "case" not in r:
        print("replay names a broken obligation, not an input:", r.get("broken"))
        return 1
    exe = lib.build_impl(r.get("variant", "asan"))
    out = lib.run_cases(exe, [r["case"]])[0]
    why = rt_oracle(r["case"], out, {}) if r["case"].startswith("rt") else None
    if r["case"].startswith("pw"):
        d = kv(out)
        why = None if (d.get("st") == "ok" and int(d.get("viol", "1"), 16) == 0) else "point-wise relative round trip fails: " + out[:200]
    print("case:", r["case"][:300])
    print("impl:", out[:300])
    print("result:", why or "property holds on this case")
    return 1 if why else 0
