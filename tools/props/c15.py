"""C15 — concurrent thread-safe compressions reconstruct exactly as when run alone."""
import json, os, struct
import lib, gen, classes

LEVEL = "proof"
PROP_FILE = "Properties_C15"
THR = dict(harness=("szimpl.c", "ops_more.c", "ops_thr.c"), exe="szimpl_thr", extra_cflags=("-DWITH_THR",))
PW_REL = 10


def dbits(x):
    return "%x" % struct.unpack("<Q", struct.pack("<d", x))[0]


SHAPES = [(1000,), (300,), (64,), (30, 40), (10, 10), (8, 9, 10), (6, 6, 6), (15,)]
CFGS = ["szMode=SZ_BEST_SPEED", "-", "szMode=SZ_BEST_SPEED;quantization_intervals=256", "szMode=SZ_BEST_SPEED;protectValueRange=YES",
        "quantization_intervals=64;protectValueRange=YES", "szMode=SZ_BEST_SPEED;withLinearRegression=NO", "szMode=SZ_DEFAULT_COMPRESSION",
        "szMode=SZ_DEFAULT_COMPRESSION;losslessCompressor=GZIP_COMPRESSOR"]


def gen_spec(rng, same=None):
    """one thread; `same` = a spec to agree with on everything but the data seed"""
    if same is not None:
        f = same.split(":")
        f[8] = "%x" % rng.getrandbits(16)
        f[7] = "%d" % rng.choice((0, 1, 2, 3))     # another kind of data: another auto-tuned interval count
        return ":".join(f)
    name = rng.choice(("SZ", "SZ2.1", "SZ1.4"))
    ty = rng.choice((0, 0, 1))
    t = rng.choice(SHAPES)
    dims = ",".join("%x" % v for v in [0] * (5 - len(t)) + list(t))
    mode = rng.choice((0, 0, 0, 1, 3, PW_REL))
    scale = rng.choice((1.0, 100.0))
    absb = rng.choice((0.1, 1e-2, 1e-4)) * scale
    rel = rng.choice((1e-2, 1e-3))
    pwr = rng.choice((1e-2, 1e-3, 1e-6)) if mode == PW_REL else 0.0
    return "%s:%x:%s:%x:%s:%s:%s:%d:%x:%s" % (name, ty, dims, mode, dbits(absb), dbits(rel), dbits(pwr), rng.choice((0, 1, 2, 3)), rng.getrandbits(16), dbits(scale))


def gen_cases(chk):
    rng = chk.rng
    thorough = chk.tier == "thorough"
    one = dbits(1.0)
    s0 = "SZ:0:0,0,0,0,3e8:0:%s:%s:0:0:5:%s" % (dbits(0.1), dbits(1e-3), one)
    s1 = "SZ:0:0,0,0,0,3e8:0:%s:%s:0:2:7:%s" % (dbits(0.001), dbits(1e-3), dbits(10.0))
    cases = ["thr szMode=SZ_BEST_SPEED;protectValueRange=YES 0,1,0,1,0,1 %s/%s" % (s0, s1),     # listed finding: range protection clamps to the other thread's range
             "thr szMode=SZ_BEST_SPEED 0,1,0,1,0,1 %s/%s" % (s0, s1)]
    n = 300 if thorough else 60
    for i in range(n):
        nt = rng.choice((2, 2, 3, 4)) if not thorough else rng.choice((2, 3, 4, 8, 16))
        cfg = rng.choice(CFGS)
        style = i % 3
        if style == 0:       # threads that differ in everything
            specs = [gen_spec(rng) for _ in range(nt)]
        elif style == 1:     # threads with equal settings on different data
            first = gen_spec(rng)
            specs = [first] + [gen_spec(rng, same=first) for _ in range(nt - 1)]
        else:                # float/double ABS threads with different bounds (the README's use case)
            specs = []
            for _ in range(nt):
                f = gen_spec(rng).split(":")
                f[3] = "0"
                specs.append(":".join(f))
        ntok = rng.randint(0, 6 * nt)
        sched = ",".join("%x" % rng.randrange(nt) for _ in range(ntok)) or "_"
        if i % 10 == 9:
            sched = "free"
        if style == 1 and i % 2 == 1:
            # calls the model says cannot disturb each other: equal settings, no range protection (min/max then do not matter), mostly the
            # multi-dimensional kernels -- any difference here is a read the model does not know about
            cfg = rng.choice([c_ for c_ in CFGS if "protectValueRange" not in c_])
            f = specs[0].split(":")
            f[2] = ",".join("%x" % v for v in [0] * 2 + list(rng.choice(((8, 9, 10), (6, 6, 6), (1, 30, 40), (1, 10, 10)))))
            if int(f[3], 16) == PW_REL:
                f[3] = "0"; f[6] = "0"
            specs = [":".join(f)] + [gen_spec(rng, same=":".join(f)) for _ in range(nt - 1)]
        cases.append("thr %s %s %s" % (cfg, sched, "/".join(specs)))
    # windows: call A runs k blocks, call B (another element type, bound mode or bound) runs its entry, A runs one more block, call C -- a
    # copy of A -- runs its entry and so puts every entry-written global back to A's values; A then finishes.  A read of a global in A's
    # block k+1 that the model does not list shows up here as an unexplained difference instead of drowning in the listed race
    combos = [(ty, shp, what, nm) for ty in (0, 1) for shp in ((30, 40), (8, 9, 10), (300,)) for what in (0, 1, 2) for nm in (("SZ2.1",) if not thorough else ("SZ2.1", "SZ1.4", "SZ"))]
    for i, (ty, shp, what, nm) in enumerate(combos):
        a = gen_spec(rng).split(":")
        a[0], a[1] = nm, "%x" % ty
        a[2] = ",".join("%x" % v for v in [0] * (5 - len(shp)) + list(shp))
        if int(a[3], 16) == PW_REL:
            a[3] = "0"; a[6] = "0"
        b = list(a)
        if what == 0:
            b[1] = "%x" % (1 - int(a[1], 16))
        elif what == 1:
            b[3] = "%x" % PW_REL; b[6] = dbits(1e-2)
        else:
            b[4] = dbits(struct.unpack("<d", struct.pack("<Q", int(a[4], 16)))[0] * 7.0)
        b[8] = "%x" % rng.getrandbits(16)
        A, B = ":".join(a), ":".join(b)
        for k in (1, 2, 3):
            cfg = rng.choice([c_ for c_ in CFGS if "protectValueRange" not in c_])
            cases.append("thr %s %s %s" % (cfg, ",".join(["0"] * k + ["1", "0", "2"]), "/".join((A, B, A))))
    return cases


def parse(out):
    """{'a0': (hdr, sdig, dig, size, viol, trace), 'c0': ...}"""
    d = {}
    for tok in out.split(" "):
        if "=" not in tok:
            continue
        k, v = tok.split("=", 1)
        f = v.split(",")
        if len(f) == 6:
            d[k] = dict(hdr=f[0], sdig=f[1], dig=f[2], size=int(f[3], 16), viol=int(f[4], 16), trace=[] if f[5] == "_" else [int(x) for x in f[5].split(".")])
        else:
            d[k] = dict(hdr=None, raw=v)
    return d


def own_values(spec, rec):
    """the values a call writes into the globals, read off its alone-run stream"""
    f = spec.split(":")
    ty, mode = int(f[1], 16), int(f[3], 16)
    v = dict(T=ty, M=mode, B=0, MN=0, MX=0, CAP=0, pwr_small=0, tiny=rec["hdr"] in (None, "-"))
    # SZ_compress_args_{float,double} clear the accelerate flag whenever the pw_rel argument is below 1e-5 -- also for calls in other modes (argument 0)
    v["pwr_small"] = 1 if struct.unpack("<d", struct.pack("<Q", int(f[6], 16)))[0] < 0.000009999 else 0
    if not v["tiny"]:
        b = bytes.fromhex(rec["hdr"])
        p = b[4:]
        v["T"], v["M"] = p[5] & 0xf, p[5] >> 4
        v["B"] = int.from_bytes(p[6:14], "big")
        if ty == 0:
            v["MN"], v["MX"] = int.from_bytes(p[20:24], "big"), int.from_bytes(p[24:28], "big")
        else:
            v["MN"], v["MX"] = int.from_bytes(p[20:28], "big"), int.from_bytes(p[28:36], "big")
        md = 28 if ty == 0 else 36
        flag = b[3]
        if not (flag & 1) and not (flag >> 4) & 1 and not (flag >> 7) & 1 and mode != PW_REL:
            o = 4 + md + 8 + 4
            v["CAP"] = int.from_bytes(b[o:o + 4], "big")
    return v


def programs(spec, v, trace, protect, accel_cfg, t=0):
    """(header program, reconstruction-relevant program) of one call, as thrm thread strings, from the yield points it hit"""
    f = spec.split(":")
    name, mode = f[0], int(f[3], 16)
    dims = [int(x, 16) for x in f[2].split(",")]
    rank = sum(1 for x in dims if x > 1)
    regression = False      # the regression kernels in use keep the auto-tuned interval count in a local (they write exe_params but do not read it back)
    mclass = 1 if v["M"] >= PW_REL else 0

    def w(g, val):
        return "0.%x.%x" % (g, val)

    def r(g):
        return "1.%x.0" % g

    def cp(a, b):
        return "2.%x.%x" % (a, b)
    if not trace or (v["tiny"] and trace == [3]):       # at most 20 elements: the entry returns after writing type and mode (before the accelerate flag is touched)
        lead = "-;" if trace else ""          # a fixed interval count: the state derivation (ending in yield point 3) comes first
        return lead + "%s,%s" % (w(0, v["T"]), w(1, int(f[3], 16))), (("%s;" % w(7, 0)) if trace else "") + "%s,%s" % (w(0, v["T"]), w(1, 1 if mode >= PW_REL else 0))
    hb, rb = [[w(0, v["T"]), w(1, v["M"]), w(2, v["B"]), w(3, v["MN"]), w(4, v["MX"])]], [[w(0, v["T"]), w(1, mclass)]]
    # global 6 = "accelerate flag cleared" (0 = as configured): every call saves the current value in a local (slot 100+t) at entry and
    # copies it back on return -- what it saved may already be another call's cleared value; cleared by every call whose pw_rel argument
    # is below 1e-5, read by a PW_REL call right after (path selection) and by its serialiser
    rb[0].append(cp(6, 0x100 + t))
    if v["pwr_small"]:
        rb[0].append(w(6, 1))
    if mode == PW_REL:
        rb[0].append(r(6))
    if protect:
        rb[0] += [w(3, v["MN"]), w(4, v["MX"])]
    if trace[0] == 3:
        # a fixed interval count in the configuration: the entry derives the quantisation state first (updateQuantizationInfo, which ends in
        # yield point 3) and makes its own writes after that
        hb.insert(0, []); rb.insert(0, [w(7, v["CAP"])])
        trace = trace[1:]
    in_tdps = False
    for p in trace:
        if p == 3:
            rb[-1].append(w(7, v["CAP"]))
        hb.append([]); rb.append([])
        if p == 4:
            in_tdps = True
        if p == 2 and in_tdps:
            # convertTDPStoBytes_{float,double} go on reading the bound mode (and, for PW_REL, the accelerate flag) after the parameter block
            rb[-1].append(r(1))
            if mode == PW_REL:
                rb[-1].append(r(6))
        if p == 3 and regression:
            rb[-1].append(r(7))
        elif p == 1:
            # the entry re-reads the bound mode from the global right after its own writes to choose the path (PW_REL or not):
            # a call of the other class scheduled in between sends this one down the other path
            rb[-1].append(r(1))
        elif p == 2:
            hb[-1] += [r(0), r(1), r(2), r(3), r(4)]
            if protect:
                # the serialiser picks fmin/fmax or dmin/dmax by the element type it reads from the global: with range protection the
                # decompressor clamps to what was written (without it the block's content does not reach the reconstruction)
                rb[-1].append(r(0))
                rb[-1] += [r(3), r(4)]
        elif p == 4:
            rb[-1].append(r(1))
            if mode == PW_REL:
                rb[-1].append(r(6))
    rb[-1].append(cp(0x100 + t, 6))     # the saved value is put back on return
    enc = lambda bl: ";".join(",".join(b) if b else "-" for b in bl)
    return enc(hb), enc(rb)


def run(chk):
    exe = lib.build_impl("plain", **THR)
    chk.prove(PROP_FILE)
    model = lib.build_model()
    cases = gen_cases(chk)
    outs = lib.run_cases(exe, cases, timeout=3000)
    mcases, meta = [], []
    nfail = nbad = 0
    dist = {"threads": {}, "free": 0, "tokens": 0}
    for c, o in zip(cases, outs):
        chk.cov["evaluations"] += 1
        chk.distinct.add(c)
        a = c.split(" ")
        cfg, sched, specs = a[1], a[2], a[3].split("/")
        nt = len(specs)
        dist["threads"][str(nt)] = dist["threads"].get(str(nt), 0) + 1
        d = parse(o)
        if o.startswith("DIED") or any(("a%d" % t) not in d or ("c%d" % t) not in d or d["c%d" % t].get("hdr") is None or d["a%d" % t].get("hdr") is None for t in range(nt)):
            # a crash under concurrency: the listed race classes can corrupt a stream layout (mode read from another call)
            # (bound-mode class or element type read from another call: the serialiser then lays out a different block than was allocated)
            modes = set((int(s.split(":")[3], 16) >= PW_REL, int(s.split(":")[1], 16)) for s in specs)
            # or the accelerate flag: a PW_REL call next to any call that clears it (pw_rel argument below 1e-5) and puts its saved value back
            def small(sp):
                return struct.unpack("<d", struct.pack("<Q", int(sp.split(":")[6], 16)))[0] < 0.000009999
            accel = any(int(sp.split(":")[3], 16) >= PW_REL for sp in specs) and sum(1 for sp in specs if small(sp)) >= 1 and len(specs) > 1
            cls = "thr_settings_race" if len(modes) > 1 or accel else None
            if cls and sched != "free":
                # sharper: every call made alone gives its values and yield trace; if under this schedule the model lets no call read another
                # call's value, the listed race does not explain the death
                al_o = lib.run_cases(exe, ["thr %s _ %s" % (cfg, sp) for sp in specs], timeout=600)
                al_d = [parse(x).get("a0") for x in al_o]
                if all(x is not None and x.get("hdr") is not None for x in al_d):
                    pv = "protectValueRange=YES" in cfg
                    vv = [own_values(specs[t], al_d[t]) for t in range(nt)]
                    pp = [programs(specs[t], vv[t], al_d[t]["trace"], pv, 1, t) for t in range(nt)]
                    mm = lib.run_cases(model, ["thrm %s %s" % ("/".join(x[1] for x in pp), sched)] + ["thrm %s _" % x[1] for x in pp], timeout=600)
                    if all(x.startswith("obs=") for x in mm):
                        conc = mm[0][4:].split("/")
                        if all(conc[t] == mm[1 + t][4:].split("/")[0] for t in range(nt)):
                            cls = None
            if cls and cls in chk.known_classes:
                chk.known(cls, chk.known_classes[cls]["text"])
                continue
            nfail += 1
            if nfail <= 8:
                chk.violation("concurrent run died or returned no stream on `%s`: %s" % (c[:170], o[:200]), {"case": c, "impl": o[:500], "variant": "plain"})
            continue
        protect = "protectValueRange=YES" in cfg
        vals = [own_values(specs[t], d["a%d" % t]) for t in range(nt)]
        if sched == "free":
            dist["free"] += 1
            hp = rp = None
        else:
            dist["tokens"] += 0 if sched == "_" else len(sched.split(","))
            pr = [programs(specs[t], vals[t], d["c%d" % t]["trace"], protect, 1, t) for t in range(nt)]
            al = [programs(specs[t], vals[t], d["a%d" % t]["trace"], protect, 1, t) for t in range(nt)]
            mcases.append("thrm %s %s" % ("/".join(p[0] for p in pr), sched)); meta.append((c, "hdr", d, vals))
            mcases.append("thrm %s %s" % ("/".join(p[1] for p in pr), sched)); meta.append((c, "rec", d, vals))
            for t in range(nt):
                mcases.append("thrm %s _" % al[t][1]); meta.append((c, "alone%d" % t, d, vals))
    mo = lib.run_cases(model, mcases, timeout=3000)
    res = {}
    for (c, kind, d, vals), m in zip(meta, mo):
        res.setdefault(c, {"d": d, "vals": vals})[kind] = [[] if x == "_" else [int(y, 16) for y in x.split(",")] for x in m[4:].split("/")] if m.startswith("obs=") else None
    ncmp = 0
    for c, o in zip(cases, outs):
        a = c.split(" ")
        cfg, sched, specs = a[1], a[2], a[3].split("/")
        nt = len(specs)
        d = parse(o)
        if o.startswith("DIED") or any(("c%d" % t) not in d or d["c%d" % t].get("hdr") is None or d["a%d" % t].get("hdr") is None for t in range(nt)):
            continue
        vals = [own_values(specs[t], d["a%d" % t]) for t in range(nt)]
        protect = "protectValueRange=YES" in cfg
        r = res.get(c)
        for t in range(nt):
            at, ct = d["a%d" % t], d["c%d" % t]
            affected = None
            if r is not None and r.get("rec") is not None:
                alone = r.get("alone%d" % t)
                affected = (alone is None) or r["rec"][t] != alone[0]
                # (1) correspondence: the parameter block of the concurrent stream is what the model's schedule predicts
                if r.get("hdr") is not None and not vals[t]["tiny"] and all(int(s.split(":")[3], 16) == 0 and int(s.split(":")[1], 16) == 0 for s in specs):
                    ob = r["hdr"][t]
                    if len(ob) >= 5:
                        T, M, B, MN, MX = ob[-5:]
                        cv = own_values(specs[t], ct)
                        ncmp += 1
                        if (cv["T"], cv["M"], cv["B"], cv["MN"], cv["MX"]) != (T, M, B, MN, MX):
                            nbad += 1
                            if nbad <= 3:
                                chk.broken.append("correspondence C15 (parameter block of thread %d under schedule %s) on `%s`: model %s impl %s" % (t, sched[:40], c[:120], [hex(x) for x in (T, M, B, MN, MX)], [hex(cv[k]) for k in ("T", "M", "B", "MN", "MX")]))
            else:
                # free-running threads: affected unless every thread agrees with this one on what the reconstruction depends on
                def key(v, spec):
                    f = spec.split(":")
                    dims = [int(x, 16) for x in f[2].split(",")]
                    reg = f[0] != "SZ1.4" and sum(1 for x in dims if x > 1) >= 2
                    return (1 if v["M"] >= PW_REL else 0, v["pwr_small"], (v["MN"], v["MX"]) if protect else 0)
                affected = any(key(vals[u], specs[u]) != key(vals[t], specs[t]) for u in range(nt))
            # (2) the property: reconstruction identical to the call made alone
            if ct["dig"] != at["dig"] or ct["viol"] != at["viol"]:
                if affected:
                    cls = "thr_settings_race"
                    if cls in chk.known_classes:
                        chk.known(cls, chk.known_classes[cls]["text"])
                        continue
                nfail += 1
                if nfail <= 8:
                    chk.violation("thread %d: reconstruction under schedule `%s` differs from the call made alone (digest %s vs %s) though the calls agree on every global the reconstruction depends on, on `%s`"
                                  % (t, sched[:60], ct["dig"], at["dig"], c[:170]), {"case": c, "impl": o[:700], "variant": "plain", "thread": t})
    chk.cov["traces_validated_against_impl"] = ncmp
    chk.cov["rule"] = ("2..4 (thorough: ..16) threads calling SZ_compress_customize_threadsafe (SZ / SZ2.1 / SZ1.4; float and double; 1-D..3-D; ABS / REL / OR / PW_REL; equal "
                       "and different settings) under explicit schedules of the blocks between the library's yield points (tokens drawn at random) and under real concurrency; "
                       "every call is also made alone; the parameter block of every concurrent stream is compared with what the model predicts for that schedule (float ABS "
                       "groups), every reconstruction with the call made alone; differences are subtracted only where the model says the call read another call's value")
    chk.cov["input_distribution"] = {"cases": len(cases), **dist}
    for c in cases[:2] + cases[5:6]:
        chk.sample(c[:200])
    chk.assumptions += ["atomicity of the blocks between yield points is the model's granularity: races inside a block are explored only by the free-running cases",
                        "that the reconstruction depends only on the modelled reads (mode class, accelerate flag, interval count in the regression kernels, min/max under range protection) is checked by the differential, not proved from the C source"]


def replay(chk, path):
    r = json.load(open(path))
    if "case" not in r:
        print("replay names a broken obligation, not an input:", r.get("broken"))
        return 1
    exe = lib.build_impl("plain", **THR)
    out = lib.run_cases(exe, [r["case"]])[0]
    d = parse(out)
    t = r.get("thread", 0)
    print("case:", r["case"][:300]); print("alone     :", d.get("a%d" % t)); print("concurrent:", d.get("c%d" % t))
    bad = ("c%d" % t) not in d or d["c%d" % t].get("dig") != d["a%d" % t].get("dig")
    print("result:", "reconstruction differs from the call made alone" if bad else "property holds on this case")
    return 1 if bad else 0
