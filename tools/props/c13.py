"""C13 — byte-order and bit-packing codecs are exact inverses for all values and lengths."""
import json, os
import lib

LEVEL = "proof"
PROP_FILE = "Properties_C13"


def hexl(l):
    return ",".join("%x" % v for v in l) if l else "_"


def fp_classes(w, rng, n):
    """bit patterns of floats/doubles by class"""
    eb, mb = (8, 23) if w == 4 else (11, 52)
    out = []
    emax = (1 << eb) - 1
    for s in (0, 1):
        for e in (0, 1, emax // 2, emax - 1, emax):
            for m in (0, 1, (1 << mb) - 1, 1 << (mb - 1), (1 << (mb - 1)) | 1):
                out.append((s << (eb + mb)) | (e << mb) | m)
    for _ in range(n):
        out.append(rng.getrandbits(8 * w))
    return out


def gen_cases(chk):
    rng = chk.rng
    thorough = chk.tier == "thorough"
    cases = []
    # --- the decompressors' inline unpacker: every offset and width, every byte in each of the two positions (the two contributions are
    # independent bit for bit), plus random pairs
    for k in range(8):
        for w in range(1, 8):
            for b in range(256):
                cases.append("iu %x %x %x 0" % (k, w, b))
                cases.append("iu %x %x 0 %x" % (k, w, b))
            for _ in range(8):
                cases.append("iu %x %x %x %x" % (k, w, rng.getrandbits(8), rng.getrandbits(8)))
    # --- big-endian integer codecs
    for v in range(0, 65536, 1 if thorough else 1):
        cases.append("be 2 %x" % v)
    bnd32 = set()
    for k in range(33):
        for d in (-1, 0, 1):
            bnd32.add(((1 << k) + d) & 0xFFFFFFFF)
    for _ in range(200000 if thorough else 4000):
        bnd32.add(rng.getrandbits(32))
    for b in range(256):
        for sh in (0, 8, 16, 24):
            bnd32.add(b << sh)
            bnd32.add(0xFFFFFFFF ^ (b << sh))
    for v in sorted(bnd32):
        cases.append("be 4 %x" % v)
    bnd64 = set()
    for k in range(65):
        for d in (-1, 0, 1):
            bnd64.add(((1 << k) + d) & 0xFFFFFFFFFFFFFFFF)
    for b in range(256):
        for sh in range(0, 64, 8):
            bnd64.add(b << sh)
            bnd64.add(0xFFFFFFFFFFFFFFFF ^ (b << sh))
    for _ in range(100000 if thorough else 3000):
        bnd64.add(rng.getrandbits(64))
    for v in sorted(bnd64):
        cases.append("be 8 %x" % v)
    for w in (2, 4, 8):
        for _ in range(2000 if thorough else 200):
            cases.append("rd " + hexl([rng.choice((0, 0xff, 0x80, 0x7f, rng.getrandbits(8))) for _ in range(w)]))
    # --- float / double under both sysEndianType values
    for w in (4, 8):
        for se in (0, 1):
            for bits in fp_classes(w, rng, 20000 if thorough else 500):
                cases.append("fp %x %x %x" % (w, se, bits))
    # --- size fields, both SZ_SIZE_TYPE values, whole range
    for t, lim in ((8, 64), (4, 32)):
        vals = set()
        for k in range(lim + 1):
            for d in (-1, 0, 1):
                v = (1 << k) + d
                if 0 <= v < (1 << lim):
                    vals.add(v)
        for _ in range(20000 if thorough else 500):
            vals.add(rng.getrandbits(lim))
        for v in sorted(vals):
            cases.append("size %x %x" % (t, v))
    # --- element arrays under (sysEndianType, dataEndianType)
    for w in (2, 4, 8):
        for se in (0, 1):
            for de in (0, 1):
                for n in list(range(0, 10)) + [rng.randrange(10, 300) for _ in range(40 if thorough else 6)]:
                    l = [rng.choice((0, (1 << (8 * w)) - 1, 1 << (8 * w - 1), rng.getrandbits(8 * w))) for _ in range(n)]
                    cases.append("arr %x %x %x %s" % (w, se, de, hexl(l)))
    # --- fixed-width packers: every length (all residues mod 8), random and extremal content
    lens = list(range(0, 4097)) if thorough else (list(range(0, 130)) + list(range(4088, 4097)) + [rng.randrange(130, 4088) for _ in range(60)])
    for k in (1, 2, 3):
        top = (1 << k) - 1
        for n in lens:
            mode = rng.randrange(4)
            if mode == 0:
                l = [top] * n
            elif mode == 1:
                l = [0] * n
            else:
                l = [rng.randrange(top + 1) for _ in range(n)]
            cases.append("pack %x %s" % (k, hexl(l)))
    # --- variable-width packer, widths 0..8
    dl = list(range(0, 70)) + [rng.randrange(70, 3000) for _ in range(200 if thorough else 20)]
    for k in range(0, 9):
        top = (1 << k) - 1
        for n in dl:
            l = [rng.choice((0, top, rng.randrange(top + 1))) for _ in range(n)]
            cases.append("dyn %x %s" % (k, hexl(l)))
    return cases


def kv(line):
    d = {}
    for tok in line.split(" "):
        if "=" in tok:
            k, v = tok.split("=", 1)
            d[k] = v
    return d


def oracle(case, out):
    """The property itself, evaluated on the implementation's output only.  Returns None if it
    holds on this case, else a description."""
    if out.startswith("DIED") or out.startswith("ERR"):
        return "implementation died: " + out
    a = case.split(" ")
    d = kv(out)
    op = a[0]
    if "VARIANTS-DISAGREE" in out:
        return "sibling writers disagree"
    if op == "be":
        w, v = int(a[1], 16), int(a[2], 16)
        if int(d["u"], 16) != v:
            return "reader(writer(v)) = %s" % d["u"]
        s = v - (1 << (8 * w)) if v >> (8 * w - 1) else v
        if int(d["s"], 16) != s:
            return "signed reader gives %s, two's complement is %x" % (d["s"], s)
    elif op == "rd":
        if d["bytes"] != a[1]:
            return "writer(reader(bytes)) = %s" % d["bytes"]
    elif op == "fp":
        if int(d["back"], 16) != int(a[3], 16):
            return "bit pattern comes back as %s" % d["back"]
    elif op == "size":
        if int(d["back"], 16) != int(a[2], 16):
            return "size comes back as %s" % d["back"]
    elif op == "arr":
        if d["back"] != a[4]:
            return "array comes back different"
    elif op == "iu":
        k, w, b0, b1 = (int(x, 16) for x in a[1:5])
        want = ((b0 << 8 | b1) >> (16 - k - w)) & ((1 << w) - 1)
        if int(d["v"], 16) != want or int(d["adv"]) != (0 if k + w < 8 else 1):
            return "the decompressors' inline unpacker reads %s (cursor +%s) for the %d bits at bit %d of bytes %02x %02x, which are %x (cursor +%d)" % (d["v"], d["adv"], w, k, b0, b1, want, 0 if k + w < 8 else 1)
    elif op == "dyn":
        # the unpacker of this packer is inline in the decompressors (szd_float.c: k bits per value, most significant first,
        # continuing across bytes): decode the implementation's bytes that way
        k = int(a[1], 16)
        l = [] if a[2] == "_" else [int(x, 16) for x in a[2].split(",")]
        b = [] if d.get("bytes", "_") in ("_", "") else [int(x, 16) for x in d["bytes"].split(",")]
        if len(b) * 8 < k * len(l):
            return "the packer returned %d bytes for %d values of %d bits (%d bits needed): the last value cannot be decoded" % (len(b), len(l), k, k * len(l))
        bits = "".join("{:08b}".format(x) for x in b)
        back = [int(bits[i * k:(i + 1) * k], 2) if k else 0 for i in range(len(l))]
        if back != l:
            j = [i for i in range(len(l)) if back[i] != l[i]][0]
            return "value %d of %d (width %d) decodes to %x, was %x" % (j, len(l), k, back[j], l[j])
    elif op == "pack":
        if d["back"] != a[2]:
            return "unpack(pack(l)) differs from l"
        n = 0 if a[2] == "_" else a[2].count(",") + 1
        k = int(a[1], 16)
        if int(d["len"], 16) != (k * n + 7) // 8:
            return "packed length %s" % d["len"]
    return None


def nontrivial(case, m, r):
    a = case.split(" ")
    if a[0] in ("pack", "dyn", "arr"):
        return a[-1] != "_"
    return True


def run(chk, cases=None):
    exe = lib.build_impl("asan")
    proof_ok = chk.prove(PROP_FILE)
    model = lib.build_model()
    corpus = []
    cp = os.path.join(lib.VERIF, "corpus", "C13.cases")
    if os.path.exists(cp):
        corpus = [l.strip() for l in open(cp) if l.strip() and not l.startswith("#")]
    if cases is None:
        cases = corpus + gen_cases(chk)
    mo = lib.run_cases(model, cases)
    io = lib.run_cases(exe, cases)
    bad = chk.compare(cases, mo, io, nontrivial)
    chk.cov["rule"] = ("cases: every 16-bit value, boundary+random 32/64-bit values, float/double bit patterns by class under both "
                       "sysEndianType values, size fields, element arrays under the four (sys,data) endianness pairs, 1/2/3-bit packers at "
                       "every length in the tier's range, dynamic packer widths 0..8; non-trivial = non-empty payload; distinct = distinct case line")
    dist = {}
    for c in cases:
        dist[c.split(" ")[0]] = dist.get(c.split(" ")[0], 0) + 1
    chk.cov["input_distribution"] = dist
    for c in (cases[70000:70002] + [c for c in cases if c.startswith("pack 3")][9:11] + [c for c in cases if c.startswith("fp 8")][:2]):
        chk.sample(c[:200])
    chk.cov["traces_validated_against_impl"] = len(cases) - len(bad)
    # property oracle on the implementation, on every case (independent of the model)
    nfail = 0
    for i, (c, r) in enumerate(zip(cases, io)):
        why = oracle(c, r)
        if why:
            nfail += 1
            if nfail <= 5:
                chk.violation("%s on case `%s`" % (why, c[:120]), {"case": c, "impl": r, "model": mo[i], "variant": "asan"})
    if bad and not nfail:
        i = bad[0]
        chk.broken.append("correspondence C13 (model vs implementation) on %d cases, first: `%s` model=`%s` impl=`%s`" % (
            len(bad), cases[i][:100], mo[i][:100], io[i][:100]))
    chk.assumptions += [
        "host is little-endian LP64 (native_bytes in Base/Bytes.v); the big-endian sysEndianType branch is exercised by overwriting the global",
        "extraction (ExtrOcamlBasic) and ocaml/zio.ml text glue; harness/szimpl.c calls the exported C functions directly",
        "ASan/UBSan build of /repo's working tree: out-of-bounds accesses of the codecs abort the case",
    ]


def replay(chk, path):
    r = json.load(open(path))
    if "case" not in r:
        print("replay names a broken obligation, not an input:", r.get("broken"))
        return 1
    exe = lib.build_impl(r.get("variant", "asan"))
    out = lib.run_cases(exe, [r["case"]])[0]
    why = oracle(r["case"], out)
    print("case:", r["case"][:200])
    print("impl:", out[:300])
    print("result:", why or "property holds on this case")
    return 1 if why else 0
