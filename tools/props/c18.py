"""C18 — HDF5 filter round-trips datasets; the parameter array is recovered exactly."""
import itertools, json, os, struct
import lib, gen

LEVEL = "proof"
PROP_FILE = "Properties_C18"


def dbits(x):
    return "%x" % struct.unpack("<Q", struct.pack("<d", x))[0]


def dbl(h):
    return struct.unpack("<d", struct.pack("<Q", int(h, 16)))[0]


def kv(line):
    d = {}
    for tok in line.split(" "):
        if "=" in tok:
            k, v = tok.split("=", 1)
            d[k] = v
    return d


def build():
    return lib.build_impl("asan", harness=("szimpl.c", "ops_more.c", "ops_h5.c"), exe="szimpl_h5",
                          extra_cflags=("-DWITH_H5", "-I/usr/include/hdf5/serial"),
                          extra_libs=("-L/usr/lib/x86_64-linux-gnu/hdf5/serial", "-lhdf5"),
                          extra_repo_srcs=("hdf5-filter/H5Z-SZ/src/H5Z_SZ.c",))


def gen_cases(chk):
    rng = chk.rng
    thorough = chk.tier == "thorough"
    cd, h5 = [], []
    dbl_classes = [0, 1 << 63, 0x3f847ae147ae147b, 0x7ff0000000000000, 0x7ff8000000000001, 0x0000000000000001, 0xffffffffffffffff, 0x00000000ffffffff, 0xffffffff00000000]
    vals = [1, 2, 3, 21, 4095]
    shapes = []
    for k in range(1, 6):
        for t in itertools.product(vals, repeat=k):
            shapes.append(t)
    rng.shuffle(shapes)
    forced = [(1,), (9,), (1, 9), (9, 1), (1, 9, 1), (1, 1), (1, 1, 1, 1, 1), (2, 3, 4, 5), (2, 3, 4, 5, 6), (30, 40), (3, 1, 5, 1, 2), (1, 1, 1, 1, 30)]
    for t in forced + shapes[: (3000 if thorough else 500)]:
        for ty in rng.sample(range(10), 2):
            if rng.random() < 0.5:
                cd.append("cdset %x - 0 0 0 0 %s" % (ty, ",".join("%x" % v for v in t)))
            else:
                mode = rng.choice((0, 1, 2, 3, 4, 10, -1, 0x7fffffff, -0x80000000))
                ds = [rng.choice(dbl_classes + [rng.getrandbits(64)]) for _ in range(4)]
                cd.append("cdset %x %s %x %x %x %x %s" % (ty, ("-%x" % -mode) if mode < 0 else "%x" % mode, ds[0], ds[1], ds[2], ds[3],
                                                       ",".join("%x" % v for v in t)))
    # 1-D lengths around and beyond 32 bits (helper level only: no data is allocated)
    for n in (1, 2, (1 << 31) - 1, 1 << 31, (1 << 32) - 1, 1 << 32, (1 << 32) + 1, (1 << 40) + 12345, (1 << 63) + 5, (1 << 64) - 1):
        cd.append("cdset 0 1 %x %x %x %x %x" % (rng.getrandbits(64), rng.getrandbits(64), rng.getrandbits(64), rng.getrandbits(64), n))
        cd.append("cdset 1 - 0 0 0 0 %x" % n)
    # legacy helper (differential only)
    for t in shapes[:60]:
        cd.append("cdcopy %x %s" % (rng.randrange(10), ",".join("%x" % v for v in [0] * (5 - len(t)) + list(t))))
    # end-to-end datasets through filter 32017
    dsets = [((50,), (50,)), ((1000,), (256,)), ((30, 40), (30, 40)), ((64, 50), (33, 17)), ((1, 90), (1, 45)), ((90, 1), (30, 1)),
             ((8, 9, 10), (8, 9, 10)), ((12, 10, 14), (5, 10, 7)), ((3, 1, 40), (3, 1, 20)), ((4, 5, 6, 7), (4, 5, 6, 7)), ((6, 6, 6, 6), (3, 6, 4, 6)),
             ((2, 3, 4, 5, 6), (1, 3, 4, 5, 6)), ((3, 1, 5, 1, 8), (3, 1, 5, 1, 8)), ((25,), (25,)), ((7, 3), (7, 3))]
    if thorough:
        for _ in range(150):
            k = rng.randrange(1, 6)
            dims = tuple(rng.choice((1, 2, 3, 5, 8, 13, 21)) for _ in range(k))
            chunk = tuple(max(1, rng.choice((d, (d + 1) // 2, d))) for d in dims)
            dsets.append((dims, chunk))
    for dims, chunk in dsets:
        for ty in ([0, 1] + rng.sample(range(2, 10), 8 if thorough else 2)):
            mode = rng.choice((0, 1))
            absb = rng.choice((0.5, 0.05, 0.001)) if ty < 2 else rng.choice((1.0, 2.0, 3.0))
            rel = rng.choice((1e-2, 1e-3))
            if ty >= 2:
                mode = 0   # integral ABS bounds: the integer kernels' fractional-bound class is C03's
            if any(d % c for d, c in zip(dims, chunk)):
                mode = 0   # partial edge chunks are padded by HDF5 with fill values, which changes the chunk's value range: REL is
                           # then relative to a range the caller never sees, so only ABS is a meaningful oracle there
            h5.append("h5rt %x %s %s %x %s %s %x" % (ty, ",".join("%x" % v for v in dims), ",".join("%x" % v for v in chunk), mode,
                                                     dbits(absb), dbits(rel), rng.getrandbits(20)))
    # every integer type with a range-relative bound that comes out integral (value range exactly 2A in every chunk), signed types on both
    # sides of zero: the filter must derive the element type (and with it the range) as the dataset declares it
    for dims, chunk in (((64, 96), (32, 96)), ((640,), (320,)), ((8, 8, 16), (4, 8, 16))):
        for ty in range(2, 10):
            h5.append("h5rt %x %s %s 1 %s %s %x" % (ty, ",".join("%x" % v for v in dims), ",".join("%x" % v for v in chunk), dbits(1.0), dbits(1e-2), rng.getrandbits(16) | 0x40000))
    # datasets with a masked region: whole chunks of one value (their SZ streams are a few dozen bytes)
    for dims, chunk in (((64, 64), (32, 32)), ((1000,), (250,)), ((16, 16, 16), (8, 16, 16)), ((40, 30), (20, 30))):
        for ty in (0, 1, rng.choice((4, 6, 9))):
            absb = 0.001 if ty < 2 else 1.0
            h5.append("h5rt %x %s %s 0 %s %s %x" % (ty, ",".join("%x" % v for v in dims), ",".join("%x" % v for v in chunk), dbits(absb), dbits(1e-3), rng.getrandbits(16) | 0x10000))
    return cd, h5


def cd_oracle(case, out):
    """exact recovery, judged on the implementation's output alone"""
    if out.startswith("DIED") or out.startswith("ERR"):
        return "implementation died: " + out[:200]
    a = case.split(" ")
    d = kv(out)
    if a[0] == "cdcopy":
        return None
    ty = int(a[1], 16)
    dims = [int(x, 16) for x in a[7].split(",")]
    sq = [v for v in dims if v != 1] or [1]
    want = list(reversed(sq))           # r1 = last HDF5 dimension
    r = [int(x, 16) for x in d["r"].split(",")]   # r5..r1
    got = [v for v in reversed(r) if v != 0]      # r1, r2, ...
    if got != want:
        return "chunk shape %s recorded, decoded as r1.. = %s (expected %s)" % (dims, got, want)
    if int(d["dim"], 16) != len(want) or int(d["ty"], 16) != ty:
        return "rank/type decoded as %s/%s" % (d["dim"], d["ty"])
    if a[2] != "-":
        mode = -int(a[2][1:], 16) if a[2].startswith("-") else int(a[2], 16)
        if d.get("we") != "1":
            return "error words not detected"
        gm = -int(d["mode"][1:], 16) if d["mode"].startswith("-") else int(d["mode"], 16)
        if gm != mode or [int(x, 16) for x in d["dbl"].split(",")] != [int(x, 16) for x in a[3:7]]:
            return "bound settings decoded as mode=%s dbl=%s" % (d["mode"], d["dbl"])
    elif d.get("we") != "0":
        return "error words reported although none were packed"
    return None


def h5_oracle(case, out):
    if out.startswith("DIED") or out.startswith("ERR"):
        return "implementation died: " + out[:200]
    d = kv(out)
    chunk = [int(x, 16) for x in case.split(" ")[3].split(",")]
    if sum(1 for v in chunk if v > 1) == 5:
        # a chunk with five dimensions above 1 is beyond what the compressor supports (C09: refused cleanly): the filter returns 0 and HDF5 reports
        # the failure when the chunk leaves its cache (H5Dclose / H5Fclose); what must not happen is a write that reports success throughout
        if d.get("st", "").split(",")[1:2] in (["-1"], ["-2"]):
            return None
        return "a genuinely five-dimensional chunk was neither stored within the bound nor refused (HDF5 status %s)" % d.get("st") if (d.get("st") != "0,0,0" or int(d["viol"], 16)) else None
    if d.get("st") != "0,0,0":
        return "HDF5 status " + str(d.get("st"))
    if int(d["viol"], 16):
        return "%d elements outside the bound (first %d, max error %g, e %g)" % (int(d["viol"], 16), int(d["first"], 16), dbl(d["maxerr"]), dbl(d["e"]))
    if "rtype" in d and int(d["rtype"]) != int(case.split(" ")[1], 16):
        return "the filter recorded element type %s for a dataset of type %d" % (d["rtype"], int(case.split(" ")[1], 16))
    return None


def run(chk):
    gen.gen_funs()
    exe = build()
    chk.prove(PROP_FILE)
    model = lib.build_model()
    cd, h5 = gen_cases(chk)
    tmp = lib.scratch("szv-h5-")
    io = lib.run_cases(exe, cd, env={"SZV_TMP": tmp}, timeout=1800)
    mo = lib.run_cases(model, cd, timeout=1800)
    bad = chk.compare(cd, mo, io, lambda c, m, r: True)
    nfail = 0
    for c, r in zip(cd, io):
        why = cd_oracle(c, r)
        if why:
            nfail += 1
            if nfail <= 5:
                chk.violation("%s on `%s`" % (why, c[:140]), {"case": c, "impl": r[:600], "variant": "asan-h5"})
    if bad and not nfail:
        i = bad[0]
        chk.broken.append("correspondence C18 (cd_values) on %d cases, first `%s`: model `%s` impl `%s`" % (len(bad), cd[i][:100], mo[i][:160], io[i][:160]))
    ho = lib.run_cases(exe, h5, env={"SZV_TMP": tmp, "HDF5_PLUGIN_PATH": tmp}, timeout=1800)
    import classes
    for c, r in zip(h5, ho):
        chk.cov["evaluations"] += 1
        chk.distinct.add(c)
        why = h5_oracle(c, r)
        if why:
            a = c.split(" ")
            d = kv(r)
            # classes of the kernels (C01): the double SZ-1.4 kernels have no re-check
            ty = int(a[1], 16)
            if ty == 1 and "maxerr" in d and dbl(d["maxerr"]) - dbl(d["e"]) <= 64 * classes.ulp(700.0, 1) and "fd_no_recheck" in chk.known_classes:
                chk.known("fd_no_recheck", chk.known_classes["fd_no_recheck"]["text"])
                continue
            nfail += 1
            if nfail <= 8:
                chk.violation("%s on `%s`" % (why, c[:140]), {"case": c, "impl": r[:600], "variant": "asan-h5"})
    chk.cov["traces_validated_against_impl"] = len(cd) - len(bad)
    chk.cov["rule"] = ("cdset: chunk shapes of rank 1..5 over {1,2,3,21,4095} (+ forced shapes with 1s, 1-D lengths up to 2^64-1), element types 0..9, with and "
                       "without the 9 error words (modes incl. extremes, doubles by bit-pattern class): SZ_errConfigToCdArray -> SZ_refreshDimForCdArray -> "
                       "SZ_cdArrayToMetaData(Err) compared word for word with the model and judged for exact recovery; h5rt: datasets of ranks 1..5 with "
                       "full, partial-edge and size-1 chunks written and read through filter 32017 (HDF5 1.10 serial), ABS/REL bound checked")
    chk.cov["input_distribution"] = {"cdset+cdcopy": len(cd), "h5rt": len(h5)}
    for c in cd[:2] + h5[:2]:
        chk.sample(c[:160])
    chk.assumptions += ["HDF5 1.10.8 (trusted) for the dataset round trip, which is explored, not proved", "kernels' bound is C01-C03",
                        "sizes < 2^12 in the composition theorem with filterDimension; < 2^32 (1-D: < 2^64) in the packing theorems"]


def replay(chk, path):
    r = json.load(open(path))
    if "case" not in r:
        print("replay names a broken obligation, not an input:", r.get("broken"))
        return 1
    exe = build()
    out = lib.run_cases(exe, [r["case"]], env={"SZV_TMP": lib.scratch("szv-h5-")})[0]
    why = (h5_oracle if r["case"].startswith("h5rt") else cd_oracle)(r["case"], out)
    print("case:", r["case"][:200]); print("impl:", out[:300]); print("result:", why or "property holds on this case")
    return 1 if why else 0
