"""C11 — the Huffman stage is lossless for every symbol sequence and alphabet size."""
import itertools, json, os
import lib, gen

LEVEL = "proof"
PROP_FILE = "Properties_C11"


def hexl(l):
    return ",".join("%x" % v for v in l) if l else "_"


def kv(line):
    d = {}
    for tok in line.split(" "):
        if "=" in tok:
            k, v = tok.split("=", 1)
            d[k] = v
    return d


def fib_profile(depth, base, rng):
    """frequencies 1,1,2,3,5,...: the deepest Huffman tree for its length"""
    f = [1, 1]
    while len(f) < depth + 1:
        f.append(f[-1] + f[-2])
    seq = []
    for i, k in enumerate(f):
        seq += [base + i] * k
    rng.shuffle(seq)
    return seq


def gen_cases(chk):
    rng = chk.rng
    thorough = chk.tier == "thorough"
    cases = []
    # exhaustive: alphabets <= 4, lengths 1..L
    L = 7 if thorough else 6
    syms = [3, 4, 5, 7]
    for n in range(1, L + 1):
        for t in itertools.product(range(4), repeat=n):
            cases.append("huff 8 " + hexl([syms[i] for i in t]))
    # single-symbol sequences
    for n in [1, 2, 3, 4, 5, 8, 9, 63, 64, 65, 1000, 4097]:
        for c in (0, 1, 32768, 65535):
            cases.append("huff 10000 " + hexl([c] * n))
    # two symbols, extreme skew; runs
    for n in (2, 3, 4, 17, 256, 5000):
        cases.append("huff 10000 " + hexl([32768] * (n - 1) + [0]))
        cases.append("huff 10000 " + hexl([1] + [32767] * (n - 1)))
    for _ in range(60 if thorough else 12):
        seq = []
        while len(seq) < rng.randrange(10, 3000):
            seq += [rng.randrange(32768 - 20, 32768 + 20)] * rng.randrange(1, 60)
        cases.append("huff 10000 " + hexl(seq))
    # Fibonacci profiles (longest codes)
    for depth in (range(2, 28) if thorough else list(range(2, 19)) + [21]):
        cases.append("huff 10000 " + hexl(fib_profile(depth, 32768 - depth // 2, rng)))
    # node counts around the table-layout thresholds: 127/128/129 distinct symbols -> 253/255/257 nodes
    for k in (126, 127, 128, 129, 130, 255, 256, 257):
        base = rng.randrange(0, 60000)
        seq = [base + i for i in range(k)] + [base + rng.randrange(k) for _ in range(rng.randrange(0, 300))]
        rng.shuffle(seq)
        cases.append("huff 10000 " + hexl(seq))
        cases.append("huff 10000 " + hexl([base + i for i in range(k)]))
    # the same coder with big-endian *input files* declared (dataEndianType = BIG_ENDIAN_DATA): the tree's byte-order marker is the machine's
    for k in (1, 2, 3, 40, 127, 128, 129, 300):
        base = rng.randrange(1, 60000)
        seq = [base + i for i in range(k)] + [base + rng.randrange(k) for _ in range(rng.randrange(0, 200))]
        rng.shuffle(seq)
        cases.append("huff 10000 %s 1" % hexl(seq))
    big = (32767, 32768, 32769, 65535, 65536, 100000, 131072) if thorough else (32768, 32769)
    for k in big:
        st = 0x40000 if k > 60000 else 0x20000
        seq = list(range(k)) + [rng.randrange(k) for _ in range(rng.randrange(0, 2000))]
        rng.shuffle(seq)
        cases.append("huff %x %s" % (st, hexl(seq)))
    # random sequences: geometric-ish distributions around the centre, as quantisation codes are
    for _ in range(150 if thorough else 40):
        n = rng.choice((5, 50, 500, 5000, 20000)) if not thorough else rng.choice((50, 5000, 50000, 200000))
        spread = rng.choice((1, 3, 30, 300, 3000))
        seq = [max(0, min(65535, int(32768 + rng.gauss(0, spread)))) for _ in range(n)]
        if rng.random() < 0.5:
            for _ in range(n // 10 + 1):
                seq[rng.randrange(n)] = 0   # "unpredictable" code
        cases.append("huff 10000 " + hexl(seq))
    if thorough:
        n = 1000000
        seq = [max(0, min(65535, int(32768 + rng.gauss(0, 40)))) for _ in range(n)]
        cases.append("huff 10000 " + hexl(seq))
    return cases


def oracle(case, out):
    if out.startswith("DIED") or out.startswith("ERR"):
        return "implementation died: " + out[:200]
    d = kv(out)
    if d.get("dec_ok") != "1":
        return "decode_withTree(encode_withTree(s)) differs from s"
    if d.get("dec2_ok") != "1":
        return "decode_withTree_MSST19(encode_withTree_MSST19(s)) differs from s"
    return None


def run(chk):
    cchanged, cnotes = gen.gen_consts()
    chk.cov["t2"] = {k: str(v) for k, v in cnotes.items()}
    exe = lib.build_impl("asan")
    chk.prove(PROP_FILE)
    model = lib.build_model()
    cases = gen_cases(chk)
    cp = os.path.join(lib.VERIF, "corpus", "C11.cases")
    if os.path.exists(cp):
        cases = [l.strip() for l in open(cp) if l.strip() and not l.startswith("#")] + cases
    io = lib.run_cases(exe, cases, timeout=3000)
    mcases = []
    for c, r in zip(cases, io):
        a = c.split(" ")
        b = kv(r).get("bytes", "_") if not r.startswith("DIED") else "_"
        mcases.append("huffm %s %s %s" % (a[1], a[2], b))
    mo = lib.run_cases(model, mcases, timeout=3000)
    nfail = 0
    nbad = 0
    for c, r, m in zip(cases, io, mo):
        chk.cov["evaluations"] += 1
        chk.distinct.add(c)
        why = oracle(c, r)
        if why:
            nfail += 1
            if nfail <= 5:
                chk.violation("%s on `%s`" % (why, c[:120]), {"case": c, "impl": r[:2000], "variant": "asan"})
            continue
        d, md = kv(r), kv(m)
        want = {"tree_ok": "1", "rows_ok": "1", "half_ok": "1", "payload_ok": "1", "size_ok": "1", "dec_ok": "1", "dec2_ok": "1"}
        agree = all(md.get(k) == v for k, v in want.items()) and md.get("maxbits") == d.get("maxbits") and d.get("same2") == "1"
        if not agree:
            nbad += 1
            if nbad <= 3:
                chk.broken.append("correspondence C11 on `%s`: model verdict `%s` impl `%s`" % (c[:100], m[:200], r[:120]))
    chk.cov["traces_validated_against_impl"] = len(cases) - nbad - nfail
    chk.cov["rule"] = ("every sequence over a 4-symbol alphabet up to length 6 (7 in the thorough tier), single-symbol sequences, extreme skew, runs, "
                       "Fibonacci profiles, 126..130 and 255..257 distinct symbols (node counts 251..259, 509..513), alphabets of 32768/32769 "
                       "(thorough: up to 131072 states, lengths to 1e6), Gaussian code distributions; for each: the implementation's tree is parsed "
                       "by the model, payload bytes/size/maxBits compared, both decoders on both sides; distinct = distinct sequence")
    chk.cov["input_distribution"] = {"cases": len(cases), "max_len": max(len(c) for c in cases)}
    for c in cases[300:302] + cases[-3:-2]:
        chk.sample(c[:160])
    chk.assumptions += [
        "tree shape is an input of the model (theorems hold for all trees); that the heap builds an optimal tree is not modelled",
        "code words <= 64 bits (lengths needing more would take > 1e13 symbols); ASan build checks that encode() stays inside its buffer",
        "ocaml glue: hash-table lookup of the model's code table",
    ]


def replay(chk, path):
    r = json.load(open(path))
    if "case" not in r:
        print("replay names a broken obligation, not an input:", r.get("broken"))
        return 1
    exe = lib.build_impl(r.get("variant", "asan"))
    out = lib.run_cases(exe, [r["case"]])[0]
    why = oracle(r["case"], out)
    print("case:", r["case"][:200])
    print("impl:", out[:200])
    print("result:", why or "property holds on this case")
    return 1 if why else 0
