"""C07 — size never exceeds raw size + small constant; constant arrays compress to O(1)."""
import json, os, struct
import lib, gen, classes

LEVEL = "proof"
PROP_FILE = "Properties_C07"
ES = {0: 4, 1: 8, 2: 1, 3: 1, 4: 2, 5: 2, 6: 4, 7: 4, 8: 8, 9: 8}


def dbits(x):
    return "%x" % struct.unpack("<Q", struct.pack("<d", x))[0]


def kv(line):
    d = {}
    for tok in line.split(" "):
        if "=" in tok:
            k, v = tok.split("=", 1)
            d[k] = v
    return d


def tup5(t):
    t = list(t)
    return ",".join("%x" % v for v in [0] * (5 - len(t)) + t)


def gen_cases(chk):
    rng = chk.rng
    thorough = chk.tier == "thorough"
    rt, lz = [], []
    cfgs = ["-", "szMode=SZ_BEST_SPEED", "szMode=SZ_DEFAULT_COMPRESSION", "losslessCompressor=GZIP_COMPRESSOR", "losslessCompressor=GZIP_COMPRESSOR;gzipMode=Gzip_NO_COMPRESSION",
            "zstdMode=Zstd_BEST_COMPRESSION", "withLinearRegression=NO", "withLinearRegression=NO;szMode=SZ_BEST_SPEED", "quantization_intervals=2", "max_quant_intervals=128"]
    shapes = [(21,), (64,), (5000,), (70, 70), (17, 19, 23), (7, 8, 9, 10)] + ([(300000,), (600, 500), (60, 70, 80), (20, 20, 20, 20), (1,), (5,), (20,)] if thorough else [(3,), (20,)])
    for t in shapes:
        n = 1
        for v in t:
            n *= v
        for ty in range(10):
            for cfg in (cfgs if thorough else rng.sample(cfgs, 4)):
                # incompressible: uniform noise over a huge range with a bound far below the noise
                if ty < 2:
                    scale, off = rng.choice((1.0, 1e30, 1e-30)), 0.0
                    absb, mode = scale * rng.choice((1e-30, 1e-12, 1e-7)), rng.choice((0, 1, 2, 3, 10))
                    pwr = 1e-8 if mode == 10 else 0.0
                    if mode == 10:
                        off = 2 * scale
                else:
                    a_ = 100.0 if ES[ty] == 1 else 1e4 if ES[ty] == 2 else 1e9
                    scale, off = a_, (a_ * 1.01 if ty in (2, 4, 6, 8) else 0.0)
                    absb, mode, pwr = 1.0, 0, 0.0
                rel = 1e-12
                data = "g:1:%x:%x:%s:%s" % (rng.getrandbits(24), n, dbits(scale), dbits(off))
                rt.append("rt %x %s %s %x %s %s %s %s %s" % (ty, tup5(t), tup5(t), mode, dbits(absb), dbits(rel), dbits(pwr), cfg, data))
    # every kernel-level raw-copy guard observed directly (best speed: no wrapper between the kernel and the caller), independent of the
    # random stream: ten element types x ranks 1..4 x both kernel families, incompressible data, absolute bound far below the noise
    for t in ((1500,), (37, 41), (11, 12, 13), (5, 6, 7, 8)):
        n = 1
        for v in t:
            n *= v
        for ty in range(10):
            for cfg in (("szMode=SZ_BEST_SPEED", "withLinearRegression=NO;szMode=SZ_BEST_SPEED") if ty < 2 else ("szMode=SZ_BEST_SPEED",)):
                if ty < 2:
                    scale, off, absb = 1.0, 0.0, 1e-30
                else:
                    scale = 100.0 if ES[ty] == 1 else 1e4 if ES[ty] == 2 else 1e9
                    off, absb = (scale * 1.01 if ty in (2, 4, 6, 8) else 0.0), 1.0
                for kind in ((1, 7) if ty < 2 else (1,)):      # 7: random sign, mantissa and 40 binades (nothing for the exact-value coder to share)
                    data = "g:%d:%x:%x:%s:%s" % (kind, 0x5a5a00 + ty * 16 + len(t), n, dbits(scale), dbits(off))
                    rt.append("rt %x %s %s 0 %s %s 0 %s %s" % (ty, tup5(t), tup5(t), dbits(absb), dbits(1e-12), cfg, data))
    # constant arrays of any length: O(1)
    for n in [21, 22, 100, 10000] + ([1000000] if thorough else []) + [1, 8, 9, 16, 17, 20]:
        for ty in range(10):
            scale = 3.0 if ES[ty] == 1 else 1000.0
            data = "g:6:1:%x:%s:%s" % (n, dbits(scale), dbits(0.0))
            for cfg in ("-", "szMode=SZ_BEST_SPEED"):
                rt.append("rt %x %s %s 0 %s %s 0 %s %s" % (ty, tup5((n,)), tup5((n,)), dbits(1.0), dbits(1e-3), cfg, data))
    # constant arrays in every bound mode and rank (the constant test is made on the bound each mode derives; PW_REL has its own entry path)
    for t in ((100,), (10000,), (30, 40), (8, 9, 10), (3, 4, 5, 6)):
        for ty in range(10):
            scale = 3.0 if ES[ty] == 1 else 1000.0
            n = 1
            for v in t:
                n *= v
            data = "g:6:1:%x:%s:%s" % (n, dbits(scale), dbits(0.0))
            for mode, pwr in (((1, 0.0), (2, 0.0), (3, 0.0), (10, 1e-3), (10, 1e-7)) if ty < 2 else ((1, 0.0),)):
                rt.append("rt %x %s %s %x %s %s %s %s %s" % (ty, tup5(t), tup5(t), mode, dbits(1.0), dbits(1e-3), dbits(pwr) if pwr else "0", rng.choice(("-", "szMode=SZ_BEST_SPEED")), data))
    # arrays whose value range is within the bound without being constant (two adjacent values), around zero and around the point where the
    # signed reading of an unsigned type wraps: they are constant streams too
    for ty in range(10):
        offs = {0: (0.0, -1.0, 1e6), 1: (0.0, -1.0, 1e12)}.get(ty)
        if offs is None:
            w = 8 * ES[ty]
            offs = (float(2 ** (w - 1) - 1), 5.0) if ty in (2, 4, 6, 8) else (-1.0, 5.0, float(-2 ** (w - 1) + 3) if w < 64 else -1000.0)
        for off in offs:
            if ty in (8, 9) and abs(off) > 2 ** 52:
                continue        # beyond what the harness's double-valued generator can place exactly
            for n in (100, 100000):
                rt.append("rt %x %s %s 0 %s %s 0 %s g:5:1:%x:%s:%s" % (ty, tup5((n,)), tup5((n,)), dbits(4.0), dbits(1e-3), rng.choice(("-", "szMode=SZ_BEST_SPEED")), n, dbits(1.0), dbits(off)))
    # the back-end hypothesis of the theorem, sampled: wrap(s) <= s + s/3277 + 40 on incompressible strings
    for be, levels in ((0, (-1, 0, 1, 9)), (1, (1, 3, 19))):
        for level in levels:
            for n in (0, 1, 50, 99, 100, 101, 4000, 65535, 65536, 200000) + ((3000000,) if thorough else ()) + ((9000000,) if (be == 1 and level == 3) or thorough else ()):
                lz.append("lz %x %s r:%x:%x" % (be, ("-%x" % -level) if level < 0 else "%x" % level, rng.getrandbits(20), n))
    return rt, lz


def run(chk):
    cchanged, fnotes = gen.gen_facts()
    gen.gen_consts()
    chk.cov["t2_facts"] = {k: str(v)[:300] for k, v in fnotes.items()}
    exe = lib.build_impl("asan")
    chk.prove(PROP_FILE)
    rt, lz = gen_cases(chk)
    # the integer kernels grow their exact-value array by one element per realloc; ASan's realloc always copies, which makes large
    # all-unpredictable integer arrays quadratic under it (minutes each): those cases run on the uninstrumented build
    def nelem(c):
        n = 1
        for v in c.split(" ")[2].split(","):
            n *= max(int(v, 16), 1)
        return n
    bigi = [i for i, c in enumerate(rt) if nelem(c) > 50000]
    io = lib.run_cases(exe, [c for i, c in enumerate(rt) if i not in set(bigi)], timeout=3000, jobs=lib.NCPU)
    if bigi:
        bo = lib.run_cases(lib.build_impl("plain"), [rt[i] for i in bigi], timeout=3000, jobs=lib.NCPU)
        for i, o in zip(bigi, bo):
            io.insert(i, o)
    nfail = 0
    for c, r in zip(rt, io):
        chk.cov["evaluations"] += 1
        chk.distinct.add(c)
        a = c.split(" ")
        ty = int(a[1], 16)
        d = kv(r.split(" | ", 1)[1] if r.startswith("DIED") and " | " in r else r)
        why = None
        if r.startswith("DIED") or d.get("st") != "ok":
            why = "round trip failed: " + r[:160]
        else:
            n, out = int(d["n"], 16), int(d["out"], 16)
            raw = n * ES[ty]
            const = a[9].startswith("g:6:") or (a[9].startswith("g:5:1:") and a[4] == "0" and a[5] == dbits(4.0))     # exactly constant, or two adjacent values under a bound of 4
            if out > raw + 128 + raw // 1000:
                why = "compressed size %d exceeds raw %d + 128 + 0.1%%" % (out, raw)
            elif const and out >= 64:
                if ty < 2 and n <= 20:
                    cls = "const_tiny_bypass"
                    if cls in chk.known_classes:
                        chk.known(cls, chk.known_classes[cls]["text"])
                        continue
                why = "constant array of %d elements compresses to %d bytes (not below 64)" % (n, out)
        if why:
            cls = classes.classify(c, r) or classes.classify_extreme(c, r)
            if cls and cls in chk.known_classes and "exceeds raw" not in why and "constant array" not in why:
                chk.known(cls, chk.known_classes[cls]["text"])
                continue
            nfail += 1
            if nfail <= 8:
                chk.violation("%s on `%s`" % (why, c[:160]), {"case": c, "impl": r[:300], "variant": "asan"})
    lo = lib.run_cases(exe, lz, timeout=3000, jobs=lib.NCPU)
    for c, r in zip(lz, lo):
        chk.cov["evaluations"] += 1
        d = kv(r)
        if r.startswith("DIED"):
            chk.violation("lossless wrapper died on `%s`: %s" % (c, r[:120]), {"case": c, "impl": r[:300], "variant": "asan"})
            continue
        n, cs = int(d["n"], 16), int(d["csize"], 16)
        be = int(c.split(" ")[1], 16)
        # hypothesis of C07_size_bound_backends (Size.v: zstd_worst / deflate_bound), per back end
        doc_bound = (n + 13 + 3 * (n // 131072 + 1)) if be == 1 else (n + n // 4096 + n // 16384 + n // 33554432 + 13)
        if cs > doc_bound:
            chk.violation("the %s back end returned %d bytes for %d input bytes, above its documented worst case %d (the hypothesis of C07_size_bound_backends) on `%s`"
                          % ("zstd" if be == 1 else "zlib", cs, n, doc_bound, c), {"case": c, "impl": r[:300], "variant": "asan"})
        if cs > n + n // 3277 + 40:
            chk.violation("the lossless wrapper reports %d bytes for %d input bytes (more than input + input/3277 + 40: the worst-case framing the size bound rests on)%s on `%s`"
                          % (cs, n, "; the wrapped bytes do not unwrap to the input" if d.get("rt") == "0" else "", c), {"case": c, "impl": r[:300], "variant": "asan"})
    chk.cov["traces_validated_against_impl"] = len(rt) + len(lz)
    chk.cov["rule"] = ("incompressible arrays (uniform noise, bounds down to 1e-30, ranges 1e-30..1e30) of all ten element types, ranks 1..4, five bound modes incl. "
                       "PW_REL, ten configurations (both back ends, all levels, fixed/auto intervals, both kernel families, best-speed): size <= raw + 128 + 0.1%; "
                       "constant arrays of 1..1e4 (1e6) elements: < 64 bytes; the theorems' back-end hypotheses (wrap(s) <= s + s/3277 + 40, and per back end "
                       "wrap(s) <= zstd_worst(s) / deflate_bound(s) of C07_size_bound_backends) sampled on random strings for both back ends and their levels")
    chk.cov["input_distribution"] = {"rt": len(rt), "lz": len(lz)}
    for c in rt[:2] + lz[:1]:
        chk.sample(c[:200])
    chk.assumptions += ["worst-case framing of zlib / zstd is a hypothesis of the theorem (sampled here); the kernels' stream size k is universally quantified",
                        "the raw-copy guards are facts read from the source text"]


def replay(chk, path):
    r = json.load(open(path))
    if "case" not in r:
        print("replay names a broken obligation, not an input:", r.get("broken"))
        return 1
    exe = lib.build_impl(r.get("variant", "asan"))
    out = lib.run_cases(exe, [r["case"]])[0]
    d = kv(out)
    a = r["case"].split(" ")
    bad = out.startswith("DIED") or (a[0] == "rt" and d.get("st") != "ok")
    if not bad and a[0] == "lz":
        n, cs = int(d["n"], 16), int(d["csize"], 16)
        bad = cs > n + n // 3277 + 40
    if not bad and a[0] == "rt":
        n, o = int(d["n"], 16), int(d["out"], 16)
        raw = n * ES[int(a[1], 16)]
        bad = o > raw + 128 + raw // 1000 or (a[9].startswith("g:6:") and o >= 64)
    print("case:", r["case"][:300]); print("impl:", out[:300]); print("result:", "violation reproduced" if bad else "property holds on this case")
    return 1 if bad else 0
