"""C02 — point-wise relative bound: every element within r*|x|, zeros and signs kept."""
import json, os, struct
import lib, gen, classes

LEVEL = "proof"
PROP_FILE = "Properties_C02"


def dbits(x):
    return "%x" % struct.unpack("<Q", struct.pack("<d", x))[0]


def dbl(h):
    return struct.unpack("<d", struct.pack("<Q", int(h, 16)))[0]


def kv(line):
    d = {}
    for tok in line.split(" "):
        if "=" in tok:
            k, v = tok.split("=", 1)
            d[k] = v
    return d


SHAPES = [(1000,), (64,), (30, 40), (8, 9, 10), (3, 4, 5, 6), (25,), (300,), (10, 10), (21,), (6, 6, 6)]
CFGS = ["szMode=SZ_BEST_SPEED", "-", "szMode=SZ_BEST_SPEED;accelerate_pw_rel_compression=0", "losslessCompressor=GZIP_COMPRESSOR", "szMode=SZ_BEST_SPEED;quantization_intervals=256",
        "szMode=SZ_BEST_SPEED;max_quant_intervals=1024", "accelerate_pw_rel_compression=0;losslessCompressor=GZIP_COMPRESSOR", "losslessCompressor=GZIP_COMPRESSOR;gzipMode=Gzip_BEST_COMPRESSION",
        "szMode=SZ_BEST_SPEED;withLinearRegression=NO", "szMode=SZ_BEST_SPEED;protectValueRange=YES",
        "szMode=SZ_BEST_SPEED;max_quant_intervals=131072", "max_quant_intervals=262144", "szMode=SZ_BEST_SPEED;max_quant_intervals=65536"]      # above 65536 intervals the accelerated kernels cannot be used
RATIOS = (0.5, 0.1, 1e-2, 1e-3, 1e-4, 2e-5, 1.0001e-5, 1e-5, 9.99e-6, 9e-6, 1e-6, 1e-8)      # crossing the 1e-5 path switch


def gen_cases(chk):
    rng = chk.rng
    thorough = chk.tier == "thorough"
    cases = [
        # corpus: inputs that failed before the repairs
        "pw 1 0,0,0,a,a %s losslessCompressor=GZIP_COMPRESSOR 3 8e90 3" % dbits(0.1),                                   # sign plane wrapped with zlib, unwrapped with zstd
        "pw 0 0,0,0,0,12c %s szMode=SZ_BEST_SPEED;quantization_intervals=256 3 fb69 3" % dbits(0.01),                  # zeros overwritten in the caller's array, raw copy of the modified data
        "pw 0 0,0,0,0,3e8 %s - 5 63a5 100" % dbits(1e-4),                                                               # lone zero
        "pw 0 0,0,0,1e,28 %s szMode=SZ_BEST_SPEED;accelerate_pw_rel_compression=0 1 7ed4 30" % dbits(1e-8),           # ratio below float resolution
        "pw 1 0,0,0,a,a %s accelerate_pw_rel_compression=0;losslessCompressor=GZIP_COMPRESSOR 8 5c32 100" % dbits(0.5),  # zero on the threshold
        "pw 0 0,0,0,0,40 %s szMode=SZ_BEST_SPEED 4 1 3" % dbits(0.01),                                                   # all negative (first element's sign)
        "pw 1 0,0,0,0,3e8 %s szMode=SZ_BEST_SPEED;max_quant_intervals=131072 1 77 3" % dbits(1e-3),                    # >65536 intervals: log kernel, stream flagged accelerated
        "pw 1 0,0,0,0,3e8 %s max_quant_intervals=262144 10 77 30" % dbits(1e-3),
    ]
    # smooth, compressible, mixed-sign fields with a few magnitudes ~2^-100 and zeros, on the log-transform path of every rank
    for t in ((4096,), (64, 64), (8, 16, 32), (4, 8, 8, 16)):
        dims = ",".join("%x" % v for v in [0] * (5 - len(t)) + list(t))
        for ty in (0, 1):
            for r in (8e-6, 3e-6, 1e-3):
                cfg = "szMode=SZ_BEST_SPEED" if r < 1e-5 else "szMode=SZ_BEST_SPEED;accelerate_pw_rel_compression=0"
                cases.append("pw %x %s %s %s 10 %x %d" % (ty, dims, dbits(r), cfg, rng.getrandbits(16), rng.choice((100, 60))))
    # the same fields on the accelerated (MSST19) path, with magnitudes far outside the single-precision range for double data
    for t in ((4096,), (64, 64), (8, 16, 32), (4, 8, 8, 16)):
        dims = ",".join("%x" % v for v in [0] * (5 - len(t)) + list(t))
        for ty, spans in ((0, (100,)), (1, (100, 300, 900))):
            for span in spans:
                for r in (1e-3, 1e-2):
                    cases.append("pw %x %s %s %s 10 %x %d" % (ty, dims, dbits(r), rng.choice(("szMode=SZ_BEST_SPEED", "-")), rng.getrandbits(16), span))
    # every rank and both types on the accelerated path with (a) incompressible data containing exact zeros (the verbatim fall-back must store
    # the caller's data, not the kernel's private copy) and (b) smooth mixed-sign, all-negative and lone-zero fields (signs come from the sign plane
    # and, for exactly stored elements, from the stored value: the predictors must work on magnitudes)
    for t in ((300,), (30, 40), (10, 16, 24), (4, 6, 10, 12)):
        dims = ",".join("%x" % v for v in [0] * (5 - len(t)) + list(t))
        for ty in (0, 1):
            for g, span in ((3, 30), (3, 3), (1, 3), (4, 3), (5, 3), (8, 3), (11, 3)):
                for r in (1e-3, 1e-2):
                    for _k in range(4 if g == 11 else 1):       # sign changes between slices and rows: both parities, with and without zeros at slice origins
                        cases.append("pw %x %s %s %s %d %x %d" % (ty, dims, dbits(r), rng.choice(("szMode=SZ_BEST_SPEED", "-")), g, rng.getrandbits(16), span))
    # log path, large ratios: the placeholder of the zeros lies 3e below the smallest log-magnitude, so it leaves the binade of the data's own
    # range when e is large; zeros among the first (exactly stored) elements of a 1-D array then depend on the range/median handed to the kernel
    cases += ["pw 1 0,0,0,0,3e8 %s szMode=SZ_BEST_SPEED;accelerate_pw_rel_compression=0 11 f16f 100" % dbits(0.5),
              "pw 1 0,0,0,0,3e8 %s szMode=SZ_BEST_SPEED;accelerate_pw_rel_compression=0 11 3ff 3" % dbits(0.48)]
    for ty in (0, 1):
        for r in (0.48, 0.5, 0.52, 0.9):
            for _k in range(8 if ty == 1 and r < 0.6 else 2):
                cases.append("pw %x 0,0,0,0,%x %s %s 11 %x %d" % (ty, rng.choice((1000, 333)), dbits(r), rng.choice(("szMode=SZ_BEST_SPEED;accelerate_pw_rel_compression=0", "accelerate_pw_rel_compression=0")),
                                                              rng.getrandbits(16), rng.choice((3, 100))))
    # accelerated path, library-chosen interval count: arrays too small for the interval optimiser to take a sample ((rows-1)*cols <= 99 and the
    # like) and a prediction threshold of 1 both run its histogram loop to the end, i.e. to the largest interval count the 16-bit tables hold
    for ty in (0, 1):
        for t in ((5, 5), (8, 8), (10, 10), (3, 40), (2, 90), (4, 5, 5), (2, 3, 4, 5), (90,), (64, 64), (4096,), (8, 16, 16)):
            dims = ",".join("%x" % v for v in [0] * (5 - len(t)) + list(t))
            big = len(t) * max(t) >= 128 or t == (8, 16, 16)
            for r in (1e-3, 2e-3):
                cases.append("pw %x %s %s %s %d %x 3" % (ty, dims, dbits(r), rng.choice(("szMode=SZ_BEST_SPEED;predThreshold=1.0", "predThreshold=1.0")) if big else rng.choice(("szMode=SZ_BEST_SPEED", "-")),
                                                       rng.choice((0, 1, 5)), rng.getrandbits(16)))
    n = 1500 if thorough else 260
    for _ in range(n):
        t = rng.choice(SHAPES)
        dims = ",".join("%x" % v for v in [0] * (5 - len(t)) + list(t))
        cases.append("pw %x %s %s %s %d %x %d" % (rng.choice((0, 1)), dims, dbits(rng.choice(RATIOS)), rng.choice(CFGS), rng.choice((0, 1, 2, 3, 4, 5, 6, 7, 8, 9, 10, 11)),
                                                    rng.getrandbits(16), rng.choice((3, 30, 100))))
    return cases


def classify(case, out):
    a = case.split(" ")
    if a[5] == "7":
        return "pwr_denormal"         # magnitudes below the smallest normal number of the element type
    return None


def run(chk):
    notes = gen.gen_facts()[1]
    exe = lib.build_impl("asan")
    chk.prove(PROP_FILE)
    cases = gen_cases(chk)
    outs = lib.run_cases(exe, cases, timeout=3000)
    nfail = 0
    gens, paths = {}, {"accelerated": 0, "log": 0, "verbatim": 0, "constant": 0, "tiny": 0}
    for c, o in zip(cases, outs):
        chk.cov["evaluations"] += 1
        chk.distinct.add(c)
        a = c.split(" ")
        gens[a[5]] = gens.get(a[5], 0) + 1
        d = kv(o.split(" | ", 1)[1] if o.startswith("DIED") and " | " in o else o)
        why = None
        if o.startswith("DIED") or d.get("st") != "ok":
            why = "round trip failed: " + o[:200]
        else:
            flag = int(d["flag"], 16)
            n = int(d["n"], 16)
            paths["tiny" if n <= 20 else "constant" if flag & 1 else "verbatim" if flag & 0x10 else "accelerated" if flag & 0x08 else "log"] += 1
            if int(d["viol"], 16):
                why = "%d elements violate the point-wise relative bound (first %d: %s -> %s; %d zeros not exact, %d sign changes, %d NaN; max relative error %g)" % (
                    int(d["viol"], 16), int(d["first"], 16), d["x"], d["y"], int(d["zbad"], 16), int(d["sbad"], 16), int(d["nan"], 16), dbl(d["maxrel"]))
            elif d.get("inmod") == "1":
                why = "the caller's input array was modified"
        if not why:
            continue
        cls = classify(c, o)
        if cls and cls in chk.known_classes:
            chk.known(cls, chk.known_classes[cls]["text"])
            continue
        nfail += 1
        if nfail <= 8:
            chk.violation("%s on `%s`" % (why, c[:170]), {"case": c, "impl": o[:500], "variant": "asan"})
    chk.cov["traces_validated_against_impl"] = 0
    chk.cov["rule"] = ("float and double arrays (1-D..4-D; positive, mixed-sign, all-negative, exact zeros sprinkled / lone / in blocks, values spanning 2^-100..2^100, denormals, "
                       "values a few ulps apart) compressed in PW_REL mode with ratios 0.5 .. 1e-8 (both sides of the 1e-5 switch between the accelerated and the log-transform "
                       "path), both lossless back ends, fixed and auto-tuned intervals, under AddressSanitizer; every element judged exactly (long double): |x'-x| <= r|x|, "
                       "zeros exact, sign kept, caller's array untouched")
    chk.cov["input_distribution"] = {"cases": len(cases), "generators": gens, "paths": paths}
    for c in cases[:2] + cases[9:10]:
        chk.sample(c[:170])
    chk.assumptions += ["source facts (T2): %s" % {k: notes["facts"][k] for k in ("pwr_zero_consts", "pwr_guards", "msst19_copies", "msst19_from0")},
                        "the theorems are over the reals: the rounding of log2 / exp2 / pow in the element type (libm) is compensated in the code by the terms max|log| * 1.2e-7 / 2.23e-16; that this "
                        "suffices is checked by the oracle on the explored inputs, not proved (no libm model in this toolbox)",
                        "no executable model/implementation comparison for this property: the correspondence is the extracted source facts plus the oracle"]


def replay(chk, path):
    r = json.load(open(path))
    if "case" not in r:
        print("replay names a broken obligation, not an input:", r.get("broken"))
        return 1
    exe = lib.build_impl("asan")
    out = lib.run_cases(exe, [r["case"]])[0]
    d = kv(out)
    print("case:", r["case"][:200]); print("impl:", out[:400])
    bad = out.startswith("DIED") or d.get("st") != "ok" or int(d.get("viol", "0"), 16) > 0 or d.get("inmod") == "1"
    print("result:", "violation reproduced" if bad else "property holds on this case")
    return 1 if bad else 0
