"""C06 — stream metadata truthfully describes the stream and its bound."""
import json, os, struct
import lib, gen, classes

LEVEL = "proof"
PROP_FILE = "Properties_C06"
SZMODES = {"SZ_BEST_SPEED": 0, "SZ_BEST_COMPRESSION": 1, "SZ_DEFAULT_COMPRESSION": 2}


def dbits(x):
    return "%x" % struct.unpack("<Q", struct.pack("<d", x))[0]


def dbl(h):
    return struct.unpack("<d", struct.pack("<Q", int(h, 16)))[0]


def f32bits(x):
    return struct.unpack("<I", struct.pack("<f", x))[0]


def f32(bits):
    return struct.unpack("<f", struct.pack("<I", bits))[0]


def kv(line):
    d = {}
    for tok in line.split(" "):
        if "=" in tok:
            k, v = tok.split("=", 1)
            d[k] = v
    return d


def gen_cases(chk):
    rng = chk.rng
    thorough = chk.tier == "thorough"
    cases = []
    shapes = [(64,), (21,), (1000,), (30, 40), (8, 9, 10), (3, 4, 5, 6), (2, 40)]
    if thorough:
        shapes += [(n,) for n in (22, 100, 257, 4096, 70000)] + [(100, 100), (20, 20, 20)]
    for t in shapes:
        n = 1
        for v in t:
            n *= v
        dims = ",".join("%x" % v for v in [0] * (5 - len(t)) + list(t))
        for ty in range(10):
            reps = 6 if thorough else 3
            for _ in range(reps):
                mode = rng.choice((0, 0, 1, 2, 3, 4, 5)) if ty < 2 else rng.choice((0, 0, 1, 2, 3, 4))
                szm = rng.choice(list(SZMODES))
                kind = rng.choice((0, 1, 2, 3, 6))          # 6 = constant array
                if ty < 2:
                    scale, off = rng.choice((1.0, 100.0)), rng.choice((0.0, 5.0))
                    absb = rng.choice((0.7, 0.1, 1e-3, 1e-7, 1e-12)) * scale     # 1e-12: incompressible -> lossless copy
                else:
                    a_ = 3.0 if ty in (2, 3) else 200.0
                    scale, off = a_, (a_ * 20 if ty in (2, 4, 6, 8) else 0.0)
                    absb = rng.choice((1.0, 2.0, 5.0, 0.7))
                rel = rng.choice((1e-2, 1e-3, 0.3))
                cfg = "szMode=%s;psnr=%s;normErr=%s" % (szm, rng.choice(("60", "90", "35.5")), rng.choice(("0.05", "1.5")))
                data = "g:%d:%x:%x:%s:%s" % (kind, rng.getrandbits(20), n, dbits(scale), dbits(off))
                cases.append("meta %x %s %x %s %s %s %s" % (ty, dims, mode, dbits(absb), dbits(rel), cfg, data))
    # modes in which SZ derives the bound itself (REL, PSNR; NORM for float/double), every type and rank, with an absolute-bound *argument* far
    # above the derived bound: the argument must be ignored by the kernels as it is by the header
    for t in ((64,), (30, 40), (8, 9, 10), (3, 4, 5, 6)):
        n = 1
        for v in t:
            n *= v
        dims = ",".join("%x" % v for v in [0] * (5 - len(t)) + list(t))
        for ty in range(10):
            for mode in ((1, 4, 5, 2, 3) if ty < 2 else (1, 4, 2, 3)):
                if ty < 2:
                    scale, off = 100.0, 0.0
                else:
                    a_ = 3.0 if ty in (2, 3) else 200.0
                    scale, off = a_, (a_ * 20 if ty in (2, 4, 6, 8) else 0.0)
                cfg = "szMode=SZ_BEST_SPEED;psnr=%s;normErr=0.05" % rng.choice(("60", "35.5"))
                data = "g:%d:%x:%x:%s:%s" % (rng.choice((0, 2, 3)), rng.getrandbits(20), n, dbits(scale), dbits(off))
                # the combined modes take the smaller (AND, 2) or the larger (OR, 3) of the two bounds: the argument is put on the losing side
                absarg = 50.0 * scale if mode != 3 else (1e-5 * scale if ty < 2 else 1.0)
                cases.append("meta %x %s %x %s %s %s %s" % (ty, dims, mode, dbits(absarg), dbits(1e-2 if mode != 3 else 0.2), cfg, data))
    # streams produced after a compression of another element type, and through the thread-safe customize entry (no dispatcher)
    for t in ((1000,), (30, 40), (8, 9, 10)):
        n = 1
        for v in t:
            n *= v
        dims = ",".join("%x" % v for v in [0] * (5 - len(t)) + list(t))
        for ty in (0, 1):
            for flow in ("p%dt" % (1 - ty), "p7t", "p%d" % (1 - ty), "t"):
                absb = rng.choice((0.1, 1e-3))
                cases.append("meta %x %s 0 %s %s szMode=SZ_BEST_SPEED g:%d:%x:%x:%s:%s %s" % (ty, dims, dbits(absb), dbits(1e-3), rng.choice((0, 1, 2)), rng.getrandbits(20), n, dbits(1.0), dbits(0.0), flow))
    # the combined point-wise relative modes (ABS_AND_PW_REL 11, ABS_OR_PW_REL 12, REL_AND_PW_REL 13, REL_OR_PW_REL 14) on float/double data: the stream reports
    # the mode and an absolute bound; under the AND modes every element must be within it
    for t in ((2000,), (40, 50), (8, 9, 10)):
        n = 1
        for v in t:
            n *= v
        dims = ",".join("%x" % v for v in [0] * (5 - len(t)) + list(t))
        for ty in (0, 1):
            for mode in (11, 13, 12, 14):
                for cfgp in ("szMode=SZ_BEST_SPEED", "szMode=SZ_BEST_SPEED;accelerate_pw_rel_compression=0"):
                    cases.append("meta %x %s %x %s %s %s g:0:%x:%x:%s:%s w%s" % (ty, dims, mode, dbits(1e-2), dbits(1e-3), cfgp, rng.getrandbits(20), n, dbits(10.0), dbits(20.0), dbits(1e-2)))
    # the headerless bypass of tiny float/double arrays (listed finding)
    cases.append("meta 0 0,0,0,0,f 0 %s %s szMode=SZ_BEST_SPEED g:0:1:f:%s:0" % (dbits(0.01), dbits(0.01), dbits(1.0)))
    return cases


CFG_ABS, CFG_REL = 1e-4, 1e-4      # defaults the harness writes into every configuration file


def oracle(case, out):
    """list of (class or None, description) for every way this case fails the property"""
    a = case.split(" ")
    ty, mode = int(a[1], 16), int(a[3], 16)
    absb, rel = dbl(a[4]), dbl(a[5])
    szm = SZMODES[a[6].split(";")[0].split("=")[1]]
    dims = [int(x, 16) for x in a[2].split(",")]
    n = 1
    for v in dims:
        if v:
            n *= v
    fails = []
    if out.startswith("DIED") or out.startswith("ERR") or "st=null" in out or "dec=null" in out:
        return [(classes.classify("rt %s %s %s %s %s %s 0 %s %s" % (a[1], a[2], a[2], a[3], a[4], a[5], a[6], a[7]), out), "implementation died: " + out[:160])]
    d = kv(out)
    if mode >= 11:
        # combined point-wise relative modes: under AND every element is within the absolute bound (for 13: ratio x range) the call states and the stream reports
        me = dbl(d["maxerr"])
        lim = absb if mode in (11, 12) else rel * dbl(d["range"])
        bad = []
        if int(d["mode"], 16) != mode:
            bad.append("bound mode reported %s, requested %x" % (d["mode"], mode))
        if mode in (11, 13) and d["lossless"] == "0" and not me <= lim * (1 + 2.0 ** -20):
            bad.append("maximum error %g exceeds the absolute bound %g of the AND mode" % (me, lim))
        if mode in (12, 14) and d["lossless"] == "0" and not me <= max(lim, 1e-2 * dbl(d["amax"])) * (1 + 2.0 ** -20):
            bad.append("maximum error %g exceeds both the absolute bound %g and ratio x largest magnitude of the OR mode" % (me, lim))
        return [("combined_pwrel_modes", b) for b in bad]
    if ty < 2 and n <= 20:
        return [("meta_tiny_bypass_no_header", "arrays of at most 20 float/double elements are stored without any header: the metadata query reads data bytes")]
    # a wrapped stream of a bypass size is not unwrapped by the library itself (C12's class); the harness does unwrap it
    if int(d["len"], 16) != n:
        fails.append((None, "element count reported %s, true %x" % (d["len"], n)))
    if int(d["ty"], 16) != ty:
        fails.append((None, "element type reported %s, true %x" % (d["ty"], ty)))
    if d["st"] != "8":
        fails.append((None, "size type reported %s" % d["st"]))
    want_mode = 0 if mode in (4, 5) else mode
    if int(d["mode"], 16) != want_mode:
        fails.append((None, "bound mode reported %s, requested %x" % (d["mode"], mode)))
    if int(d["szmode"], 16) != szm:
        fails.append((None, "speed/compression mode reported %s, configured %d" % (d["szmode"], szm)))
    rng_ = dbl(d["range"])
    e = dbl(d["e"])
    if mode in (0, 1, 2, 3):
        const_expected = 1 if rng_ <= e else 0
        if ty >= 2 and mode == 1:
            const_expected = None
        if const_expected is not None and int(d["const"]) != const_expected:
            fails.append((None, "constant flag %s, value range %g vs bound %g" % (d["const"], rng_, e)))
    if d["lossless"] == "1" and dbl(d["maxerr"]) != 0.0:
        fails.append((None, "lossless flag set but the reconstruction differs from the data"))
    # the bound value the stream was produced with
    b6, b10 = int(d["b6"], 16), int(d["b10"], 16)
    if ty < 2 and mode == 0 and b6 != f32bits(absb):
        # float/double, constant streams included: the block carries the absolute bound the call was made with ((float) of it)
        fails.append((None, "absolute bound reported %g, requested %g (%s stream)" % (f32(b6), absb, "constant" if d["const"] == "1" else "regular")))
    if mode in (0, 2, 3) and d["const"] == "0":
        want = absb if mode == 0 else e          # integer streams record the bound the call works with: in the combined modes the smaller / larger of the two
        if ty >= 2 and b6 != f32bits(want):
            cls = None
            fails.append((cls, "integer stream reports absolute bound %g, the call's bound is %g" % (f32(b6), want)))
    if mode in (1, 2, 3) and d["const"] == "0" and b10 != f32bits(rel):
        cls = None
        fails.append((cls, "range-relative ratio reported %g, requested %g" % (f32(b10), rel)))
    # every element within the absolute bound the metadata reports
    if int(d["repmode"], 16) == 0 and d["lossless"] == "0":
        rep = dbl(d["repabs"])
        me = dbl(d["maxerr"])
        if me > rep:
            if ty >= 2 and rep != int(rep) and me < rep + 1:
                cls = "int_fractional_bound"          # C03's class: pred + 2ke truncated toward zero
            elif mode in (0, 4, 5) and ty < 2 and me <= max(e, rep) * (1 + 2.0 ** -22) + 64 * classes.ulp(dbl(d["amax"]), ty):
                cls = "meta_bound_float_narrowing"
            else:
                cls = None
            fails.append((cls, "maximum error %g exceeds the reported absolute bound %g" % (me, rep)))
    return fails


def run(chk):
    gen.gen_consts()
    exe = lib.build_impl("plain")
    chk.prove(PROP_FILE)
    model = lib.build_model()
    cases = gen_cases(chk)
    io = lib.run_cases(exe, cases, timeout=3000)
    mcases, midx = [], []
    for i, r in enumerate(io):
        d = kv(r)
        if "hdr" in d and not r.startswith("DIED"):
            mcases.append("meta " + d["hdr"])
            midx.append(i)
    mo = lib.run_cases(model, mcases, timeout=3000)
    nbad = nfail = 0
    for i, m in zip(midx, mo):
        a = cases[i].split(" ")
        dims = [int(x, 16) for x in a[2].split(",")]
        n = 1
        for v in dims:
            if v:
                n *= v
        if int(a[1], 16) < 2 and n <= 20:
            continue
        if int(a[3], 16) >= 11:
            continue            # the model's header walk covers the modes the properties' kernels implement
        d, md = kv(io[i]), kv(m)
        if any(d.get(k) != md.get(k) for k in ("const", "lossless", "st", "len", "ty", "mode", "b6", "b10", "szmode")) or md.get("reenc") != "1":
            nbad += 1
            if nbad <= 3:
                chk.broken.append("correspondence C06 (SZ_getMetadata vs model) on `%s`: model `%s` impl `%s`" % (cases[i][:90], m[:160], io[i][io[i].find("const="):][:160]))
    for c, r in zip(cases, io):
        chk.cov["evaluations"] += 1
        chk.distinct.add(c)
        for cls, why in oracle(c, r):
            if cls and cls in chk.known_classes:
                chk.known(cls, chk.known_classes[cls]["text"])
                continue
            nfail += 1
            if nfail <= 8:
                chk.violation("%s on `%s`" % (why, c[:150]), {"case": c, "impl": r[:500], "variant": "plain"})
    chk.cov["traces_validated_against_impl"] = len(mcases) - nbad
    chk.cov["rule"] = ("streams of all ten element types, ranks 1..4, modes ABS/REL/AND/OR/PSNR/NORM, three speed/compression modes, regular, constant and "
                       "lossless-copy streams (bounds from 0.7*scale down to 1e-12): after undoing the wrapper SZ_getMetadata is compared field by field "
                       "with the model's header walk and judged against the call's arguments and the reconstruction error")
    chk.cov["input_distribution"] = {"cases": len(cases)}
    for c in cases[:2] + cases[40:41]:
        chk.sample(c[:170])
    chk.assumptions += ["the header walk (offsets of the size field) is modelled and compared, its theorem is not proved; the parameter block codec is proved",
                        "PSNR / NORM derived bounds use libm (log10, sqrt): trusted"]


def replay(chk, path):
    r = json.load(open(path))
    if "case" not in r:
        print("replay names a broken obligation, not an input:", r.get("broken"))
        return 1
    exe = lib.build_impl("plain")
    out = lib.run_cases(exe, [r["case"]])[0]
    fails = oracle(r["case"], out)
    print("case:", r["case"][:200]); print("impl:", out[:400])
    print("result:", "; ".join("%s%s" % (w, " [class %s]" % c if c else "") for c, w in fails) or "property holds on this case")
    return 1 if any(c is None for c, w in fails) else 0
