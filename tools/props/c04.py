"""C04 — compressed bytes are a deterministic function of data and settings."""
import json, os, struct, subprocess
import lib, gen

LEVEL = "proof"
PROP_FILE = "Properties_C04"


def dbits(x):
    return "%x" % struct.unpack("<Q", struct.pack("<d", x))[0]


def kv(line):
    d = {}
    for tok in line.split(" "):
        if "=" in tok:
            k, v = tok.split("=", 1)
            d[k] = v
    return d


def gen_cases(chk):
    rng = chk.rng
    thorough = chk.tier == "thorough"
    cases = []
    shapes = [(64,), (21,), (2000,), (30, 40), (100, 70), (8, 9, 10), (20, 20, 20), (3, 4, 5, 6), (6, 6, 6, 6), (15,), (2, 40),
              (2, 3, 40), (2, 2, 30), (3, 2, 20), (2, 40, 3), (2, 30), (40, 2),      # shapes too small for the interval samplers to take a sample
              (102,), (1002,), (5002,), (302,)]      # lengths at which a sampling stride (100 by default, 3 and 50 in two configurations) lands exactly on the end of the array
    if thorough:
        shapes += [(70000,), (300, 300), (40, 40, 40), (8, 8, 8, 8)] + [(n,) for n in range(21, 60, 3)]
    cfgs = ["szMode=SZ_BEST_SPEED", "-", "szMode=SZ_BEST_SPEED;withLinearRegression=NO", "withLinearRegression=NO",
            "szMode=SZ_BEST_SPEED;quantization_intervals=256", "losslessCompressor=GZIP_COMPRESSOR", "szMode=SZ_BEST_SPEED;protectValueRange=YES",
            "szMode=SZ_DEFAULT_COMPRESSION;sampleDistance=3;predThreshold=0.5"]
    for t in shapes:
        n = 1
        for v in t:
            n *= v
        dims = ",".join("%x" % v for v in [0] * (5 - len(t)) + list(t))
        for ty in ([0, 1] + rng.sample(range(2, 10), 8 if thorough else 3)):
            for cfg in (cfgs if thorough else rng.sample(cfgs, 4)):
                mode = rng.choice((0, 1, 2, 3, 10)) if ty < 2 else rng.choice((0, 1))
                if ty < 2:
                    scale, off = rng.choice((1.0, 100.0)), 0.0
                    absb = rng.choice((0.1, 1e-3, 1e-9)) * scale
                else:
                    a_ = 3.0 if ty in (2, 3) else 200.0
                    scale, off = a_, (a_ * 20 if ty in (2, 4, 6, 8) else 0.0)
                    absb = rng.choice((1.0, 2.0))
                rel = rng.choice((1e-2, 1e-3))
                pwr = 1e-3 if mode == 10 else 0.0
                if mode == 10:
                    off = 2.0 * scale      # strictly positive data for the point-wise relative mode
                data = "g:%d:%x:%x:%s:%s" % (rng.choice((0, 1, 2, 3, 6)), rng.getrandbits(20), n, dbits(scale), dbits(off))
                cases.append("rt %x %s %s %x %s %s %s %s %s" % (ty, dims, dims, mode, dbits(absb), dbits(rel), dbits(pwr), cfg, data))
    return cases


ENVS = [("fill55", {"MALLOC_PERTURB_": "85"}, []), ("fillAA", {"MALLOC_PERTURB_": "170"}, []),
        ("fill01-noaslr", {"MALLOC_PERTURB_": "1"}, ["setarch", "x86_64", "-R"]), ("fillFF-arena", {"MALLOC_PERTURB_": "255", "MALLOC_ARENA_MAX": "1", "MALLOC_TOP_PAD_": "1048576"}, []),
        ("stale-1", {"SZV_HEAP_PRIME": "1"}, []), ("stale-4", {"SZV_HEAP_PRIME": "4"}, []), ("stale-8", {"SZV_HEAP_PRIME": "8"}, []),
        ("stack-55", {"SZV_STACK_PRIME": "55555555"}, []), ("stack-m1", {"SZV_STACK_PRIME": "bf800000"}, []), ("stack-big", {"SZV_STACK_PRIME": "7f7fffff", "SZV_HEAP_PRIME": "2"}, [])]


def run_env(exe, cases, env, prefix):
    if prefix:
        # run under setarch -R (no address-space randomisation) through a tiny wrapper script
        wrap = os.path.join(lib.scratch("szv-c04-"), "run.sh")
        with open(wrap, "w") as f:
            f.write("#!/bin/sh\nexec %s %s\n" % (" ".join(prefix), exe))
        os.chmod(wrap, 0o755)
        ok = subprocess.run(prefix + ["true"], capture_output=True).returncode == 0
        if ok:
            return lib.run_cases(wrap, cases, env=env, timeout=3000)
    return lib.run_cases(exe, cases, env=env, timeout=3000)


def run(chk):
    gen.gen_consts()
    exe = lib.build_impl("plain")
    chk.prove(PROP_FILE)
    cases = gen_cases(chk)
    outs = []
    for name, env, prefix in ENVS:
        outs.append(run_env(exe, cases, env, prefix))
    nfail = 0
    for i, c in enumerate(cases):
        chk.cov["evaluations"] += len(ENVS)
        chk.distinct.add(c)
        keys = []
        for o in outs:
            r = o[i]
            d = kv(r.split(" | ", 1)[1] if r.startswith("DIED") and " | " in r else r)
            keys.append((d.get("out"), d.get("sdig"), d.get("dig"), "DIED" if r.startswith("DIED") else d.get("st")))
        if any(k != keys[0] for k in keys):
            j = [n for n, k in enumerate(keys) if k != keys[0]][0]
            what = "stream bytes" if keys[j][:2] != keys[0][:2] else "reconstruction"
            nfail += 1
            if nfail <= 8:
                chk.violation("%s differ between runs `%s` and `%s` on `%s`" % (what, ENVS[0][0], ENVS[j][0], c[:150]),
                              {"case": c, "env_a": ENVS[0][1], "env_b": ENVS[j][1], "out_a": outs[0][i][:200], "out_b": outs[j][i][:200], "variant": "plain"})
    chk.cov["traces_validated_against_impl"] = len(cases)
    chk.cov["rule"] = ("each (array, arguments, configuration) triple is compressed and decompressed in four fresh processes with different heap fill "
                       "patterns (MALLOC_PERTURB_ 85/170/1/255) or freed blocks holding the stale words 1/4/8, or a stack pre-filled with 0x55555555 / -1.0f / FLT_MAX, with and without address-space randomisation, one and many arenas; stream size, stream "
                       "digest and reconstruction digest must be identical; all ten element types, ranks 1..4, SZ-1.4 and regression kernels, PW_REL, "
                       "fixed intervals, both back ends, constant / lossless / tiny-bypass streams")
    chk.cov["input_distribution"] = {"cases": len(cases), "environments": [e[0] for e in ENVS]}
    for c in cases[:3]:
        chk.sample(c[:170])
    chk.assumptions += ["zlib / zstd are deterministic (trusted)", "proved part: every byte of the parameter block is assigned; the other serializers are covered by the run-to-run comparison only"]


def replay(chk, path):
    r = json.load(open(path))
    if "case" not in r:
        print("replay names a broken obligation, not an input:", r.get("broken"))
        return 1
    exe = lib.build_impl("plain")
    a = lib.run_cases(exe, [r["case"]], env=r.get("env_a", {}))[0]
    b = lib.run_cases(exe, [r["case"]], env=r.get("env_b", {}))[0]
    print("case:", r["case"][:200]); print("a:", a[:200]); print("b:", b[:200])
    da, db = kv(a), kv(b)
    bad = (da.get("sdig"), da.get("dig")) != (db.get("sdig"), db.get("dig"))
    print("result:", "violation reproduced" if bad else "property holds on this case")
    return 1 if bad else 0
