"""C08 — value-range protection keeps reconstructed values inside [min, max]."""
import json, math, os, struct
import lib, gen, classes

LEVEL = "proof"
PROP_FILE = "Properties_C08"


def dbits(x):
    return "%x" % struct.unpack("<Q", struct.pack("<d", x))[0]


def dbl(h):
    return struct.unpack("<d", struct.pack("<Q", int(h, 16)))[0]


def f32b(x):
    return struct.unpack("<I", struct.pack("<f", x))[0]


def f64b(x):
    return struct.unpack("<Q", struct.pack("<d", x))[0]


def kv(line):
    d = {}
    for tok in line.split(" "):
        if "=" in tok:
            k, v = tok.split("=", 1)
            d[k] = v
    return d


def tup5(t):
    t = list(t)
    return ",".join("%x" % v for v in [0] * (5 - len(t)) + t)


def field(n, rng, ty):
    """data touching its extremes: non-negative fields with many zeros, saturated values, mixed-sign ranges whose min + (max - min) rounds"""
    kind = rng.randrange(6)
    if kind == 0:
        v = [max(0.0, math.sin(i * 0.07) + 0.2 * rng.random() - 0.5) for i in range(n)]            # many exact zeros
    elif kind == 1:
        v = [min(1.0, max(0.0, 0.5 + 0.8 * math.sin(i * 0.05))) for i in range(n)]                # saturated at both ends
    elif kind == 2:
        lo = -rng.uniform(100, 1000)
        hi = rng.uniform(1e-6, 1e-3)
        v = [rng.choice((lo, hi, hi, lo * rng.random(), hi * rng.random())) for _ in range(n)]     # min + range rounds away from max
    elif kind == 3:
        v = [abs(rng.gauss(0, 1)) * (1 if rng.random() < 0.7 else 0) for _ in range(n)]
    elif kind == 4:
        base = rng.uniform(1e3, 1e6)
        v = [base + (i % 7) * 1e-3 * base for i in range(n)]
    else:
        v = [float(rng.randrange(0, 4)) for _ in range(n)]
    if ty == 0:
        v = [struct.unpack("<f", struct.pack("<f", x))[0] for x in v]
    return v


def gen_cases(chk):
    rng = chk.rng
    thorough = chk.tier == "thorough"
    cases = []
    shapes = [(64,), (500,), (30, 40), (60, 60), (8, 9, 10), (12, 12, 12), (3, 4, 5, 6)] + ([(5000,), (200, 200), (30, 30, 30), (6, 6, 6, 6)] if thorough else [])
    for t in shapes:
        n = 1
        for v in t:
            n *= v
        for ty in (0, 1):
            for _ in range(10 if thorough else 4):
                v = field(n, rng, ty)
                rngv = max(v) - min(v)
                mode = rng.choice((0, 0, 1, 2, 3))
                absb = rngv * rng.choice((1e-1, 1e-2, 1e-4, 1e-9)) if rngv > 0 else 1e-3
                rel = rng.choice((1e-1, 1e-3, 1e-6))
                cfg = "protectValueRange=YES;" + rng.choice(("szMode=SZ_BEST_SPEED", "szMode=SZ_BEST_COMPRESSION", "szMode=SZ_BEST_SPEED;withLinearRegression=NO",
                                                             "withLinearRegression=NO", "quantization_intervals=64;szMode=SZ_BEST_SPEED", "losslessCompressor=GZIP_COMPRESSOR"))
                bits = [f32b(x) if ty == 0 else f64b(x) for x in v]
                cases.append("rt %x %s %s %x %s %s 0 %s x:%s" % (ty, tup5(t), tup5(t), mode, dbits(absb), dbits(rel), cfg, ",".join("%x" % b for b in bits)))
    # arrays stored as one value (exactly constant, or a plateau with noise far below the bound), away from zero: the range written into such a
    # stream is what the decompressor clamps to as well
    for t in ((100,), (30, 40), (8, 9, 10)):
        n = 1
        for v in t:
            n *= v
        for ty in (0, 1):
            for base, noise in ((255.0, 0.0), (-37.5, 0.0), (100.0, 1e-6), (1e-3, 1e-9)):
                v = [base + noise * rng.uniform(-1, 1) for _ in range(n)]
                if ty == 0:
                    v = [struct.unpack("<f", struct.pack("<f", x))[0] for x in v]
                bits = [f32b(x) if ty == 0 else f64b(x) for x in v]
                cfg = "protectValueRange=YES;" + rng.choice(("szMode=SZ_BEST_SPEED", "szMode=SZ_BEST_COMPRESSION"))
                cases.append("rt %x %s %s 0 %s %s 0 %s x:%s" % (ty, tup5(t), tup5(t), dbits(abs(base) * 1e-2), dbits(1e-3), cfg, ",".join("%x" % b for b in bits)))
    # point-wise relative mode (accelerated and log path; the range protection is judged, the relative bound is C02's): positive fields with a tenth
    # of the elements saturated at the maximum and a tenth floored at the minimum
    for t in ((2000,), (40, 50), (10, 20, 12)):
        n = 1
        for v in t:
            n *= v
        for ty in (0, 1):
            for r, cfgp in ((1e-2, "szMode=SZ_BEST_SPEED"), (1e-3, "-"), (1e-2, "szMode=SZ_BEST_SPEED;accelerate_pw_rel_compression=0")):
                v = [min(100.0, max(0.5, 50.0 + 70.0 * math.sin(i * 0.011 + rng.random() * 0.01))) for i in range(n)]
                if ty == 0:
                    v = [struct.unpack("<f", struct.pack("<f", x))[0] for x in v]
                bits = [f32b(x) if ty == 0 else f64b(x) for x in v]
                cases.append("rt %x %s %s a 0 0 %s protectValueRange=YES;%s x:%s" % (ty, tup5(t), tup5(t), dbits(r), cfgp, ",".join("%x" % b for b in bits)))
    return cases


def run(chk):
    cchanged, fnotes = gen.gen_facts()
    chk.cov["t2_facts"] = {k: str(v) for k, v in fnotes.items()}
    exe = lib.build_impl("asan")
    chk.prove(PROP_FILE)
    cases = gen_cases(chk)
    io = lib.run_cases(exe, cases, timeout=3000)
    nfail = 0
    for c, r in zip(cases, io):
        chk.cov["evaluations"] += 1
        chk.distinct.add(c)
        d = kv(r.split(" | ", 1)[1] if r.startswith("DIED") and " | " in r else r)
        why = None
        if r.startswith("DIED") or d.get("st") != "ok":
            why = "round trip failed: " + r[:160]
        elif int(d["outside"], 16):
            why = "%d reconstructed elements outside [min, max] of the original" % int(d["outside"], 16)
        elif int(d["viol"], 16) and c.split(" ")[4] != "a":
            why = "%d elements outside the bound (max error %g, e %g)" % (int(d["viol"], 16), dbl(d["maxerr"]), dbl(d["e"]))
        if why:
            cls = classes.classify(c, r) or classes.classify_extreme(c, r)
            if cls and "outside [min" not in why and cls in chk.known_classes:
                chk.known(cls, chk.known_classes[cls]["text"])
                continue
            nfail += 1
            if nfail <= 8:
                chk.violation("%s on `%s`" % (why, c[:160]), {"case": c, "impl": r[:400], "variant": "asan"})
    chk.cov["traces_validated_against_impl"] = len(cases)
    chk.cov["rule"] = ("float/double arrays that touch their extremes (non-negative fields with exact zeros, values saturated at both ends, mixed-sign ranges for which "
                       "min + (max - min) rounds, large offsets, small integers) x ranks 1..4 x ABS/REL/AND/OR x SZ-1.4 and regression kernels x both back ends, "
                       "protection on: every reconstructed element must lie in [min, max] of the original and within the bound")
    chk.cov["input_distribution"] = {"cases": len(cases)}
    for c in cases[:2]:
        chk.sample(c[:200])
    chk.assumptions += ["the clamp loop is modelled (Model/Clamp.v); its presence and the flag sites are facts read from the source text (Gen/SrcFacts.v); the "
                        "composition with the kernels is observed on the implementation", "the bound itself is C01 (its listed classes are subtracted)"]


def replay(chk, path):
    r = json.load(open(path))
    if "case" not in r:
        print("replay names a broken obligation, not an input:", r.get("broken"))
        return 1
    exe = lib.build_impl(r.get("variant", "asan"))
    out = lib.run_cases(exe, [r["case"]])[0]
    d = kv(out)
    bad = out.startswith("DIED") or d.get("st") != "ok" or int(d.get("outside", "0"), 16) != 0 or int(d.get("viol", "0"), 16) != 0
    print("case:", r["case"][:300]); print("impl:", out[:300]); print("result:", "violation reproduced" if bad else "property holds on this case")
    return 1 if bad else 0
