"""C10 — valid use is memory-safe and leak-free."""
import json, os, struct
import lib, gen, classes
from props import c05

LEVEL = "proof"
PROP_FILE = "Properties_C10"
LEDGER = dict(harness=("szimpl.c", "ops_more.c", "ops_mem.c", "ledger.c"), exe="szimpl_mem", extra_cflags=("-DWITH_MEM", "-DWITH_LEDGER"),
              extra_libs=("-Wl,--wrap=malloc,--wrap=calloc,--wrap=realloc,--wrap=free",))
ASAN = dict(harness=("szimpl.c", "ops_more.c", "ops_mem.c"), exe="szimpl_mem", extra_cflags=("-DWITH_MEM",))


def dbits(x):
    return "%x" % struct.unpack("<Q", struct.pack("<d", x))[0]


CFGS = c05.CFGS + ["sampleDistance=1", "szMode=SZ_BEST_SPEED;sampleDistance=1;predThreshold=1.0", "szMode=SZ_BEST_SPEED;quantization_intervals=2",
                   "szMode=SZ_BEST_SPEED;max_quant_intervals=32", "losslessCompressor=GZIP_COMPRESSOR;gzipMode=Gzip_BEST_COMPRESSION"]
# shapes that are tiny, not aligned to the 6x6 / 6x6x6 regression blocks, or degenerate
STRESS_SHAPES = [(21,), (22,), (23,), (5, 5), (7, 3), (3, 7), (6, 7), (13, 1, 2), (2, 2, 6), (7, 7, 7), (6, 6, 5), (1, 30), (30, 1), (2, 2, 2, 3), (3, 5, 7, 2), (37,), (4099,),
                 # dimensions that do not split evenly into the regression kernels' blocks (early blocks one row larger than late ones)
                 (33, 40), (35, 9), (50, 11), (100, 4), (17, 35), (40, 33), (19, 33, 5), (33, 18, 7), (7, 35, 17), (35, 35), (3, 33, 6, 7)]


def stress_compress(rng):
    t = rng.choice(STRESS_SHAPES)
    ty = rng.choice((0, 0, 1, 1, 2, 5, 6, 9))
    dims = ",".join("%x" % v for v in [0] * (5 - len(t)) + list(t))
    if ty < 2:
        scale = rng.choice((1.0, 1e6))
        mode = rng.choice((0, 0, 1, 10))
        absb = rng.choice((0.1, 1e-3, 1e-12)) * scale       # 1e-12: everything unpredictable
    else:
        scale = 3.0 if ty in (2, 3) else 200.0
        mode = rng.choice((0, 1))
        absb = rng.choice((1.0, 2.0))
    pwr = rng.choice((1e-2, 1e-6)) if mode == 10 else 0.0
    return "c:%x:%x:%s:%s:%s:%s:%d:%x:%s" % (ty, mode, dbits(absb), dbits(1e-3), dbits(pwr), dims, rng.choice((0, 1, 2, 4, 6)), rng.getrandbits(20), dbits(scale))


def gen_cases(chk):
    rng = chk.rng
    thorough = chk.tier == "thorough"
    one = dbits(1.0)
    c1 = "c:0:0:%s:%s:0:0,0,0,0,3e8:0:5:%s" % (dbits(0.01), dbits(1e-3), one)
    c2 = "c:7:0:%s:%s:0:0,0,0,1e,28:1:6:%s" % (dbits(2.0), dbits(1e-3), dbits(200.0))
    cases = ["mem szMode=SZ_BEST_SPEED %s/m:0/d:0" % c1,          # metadata freed as the examples do, then a decompression (was a use-after-free)
             "mem szMode=SZ_BEST_SPEED %s/d:0/%s/d:1" % (c1, c2)]  # integer raw fallback (was a leak)
    # metadata of short integer streams that still compress (only 64-bit elements make a stream shorter than the float layout's
    # offsets that the query used to read for every type); the other types ride along
    for ty, ln in ((8, 15), (9, 15), (8, 13), (6, 20), (5, 40), (2, 80)):
        for dk in (0, 2):
            cases.append("mem szMode=SZ_BEST_SPEED;quantization_intervals=256 C:%x:0,0,0,0,%x:%d:%x:%s/m:0/d:0" % (ty, ln, dk, 0x3dc5 + ty, dbits(200.0)))
    # large incompressible arrays, stored verbatim and wrapped by the back end: the decoders unwrap them into a buffer sized from the element
    # count and the header length (a 1 000 000-byte minimum hides anything below 125000 8-byte / 250000 4-byte elements)
    for ty, nn in ((1, 125000), (1, 131072), (0, 262144), (9, 131072), (7, 262144)):
        for cfg in ("-", "losslessCompressor=GZIP_COMPRESSOR"):
            cases.append("mem %s c:%x:0:%s:%s:0:0,0,0,0,%x:7:%x:%s/d:0" % (cfg, ty, dbits(1e-300 if ty < 2 else 1.0), dbits(1e-3), nn, 0x51 + ty, dbits(1e18 if ty >= 2 else 1.0)))
    # small compressible 1-D arrays of every length 21..170: the stream of such an array is within a few bytes of the raw size, i.e. on either side of the
    # "not smaller than the raw data: keep the raw data" decision and of the buffer that decision writes into
    for ty in (0, 1):
        for absb, kind in ((0.1, 0), (1e-3, 0), (0.1, 2)):
            for lo in range(21, 171, 30):
                h = []
                for ln in range(lo, min(lo + 30, 171)):
                    h.append("c:%x:0:%s:%s:0:0,0,0,0,%x:%d:%x:%s" % (ty, dbits(absb), dbits(1e-3), ln, kind, 0x11 + ln, dbits(10.0 if kind == 0 else 1.0)))
                h += ["d:%d" % k for k in range(len(h))]
                cases.append("mem szMode=SZ_BEST_SPEED %s" % "/".join(h))
    n = 300 if thorough else 60
    for i in range(n):
        cfg = rng.choice(CFGS)
        if i % 2 == 0:
            h = c05.gen_history(rng, 20 if thorough else 8)
        else:
            h = []
            for _ in range(rng.randint(1, 6)):
                h.append(stress_compress(rng))
                h.append("d:%d" % (len([x for x in h if x[0] == "c"]) - 1))
                if rng.random() < 0.3:
                    h.append("m:%d" % rng.randrange(8))
        cases.append("mem %s %s" % (cfg, "/".join(h)))
    return cases


def parse(out):
    d = {}
    for tok in out.split(" "):
        if "=" in tok:
            k, v = tok.split("=", 1)
            d[k] = v
    ops = []
    for t in d.get("ops", "").split("|"):
        if t:
            f = t[1:].split(",")
            if len(f) < 4:
                continue           # output cut short by a crash
            ops.append((t[0], int(f[0], 16), int(f[1], 16), int(f[2], 16), int(f[3])))
    return d, ops


def died_class(case, out, ops):
    """a crash inside a valid history: no listed class explains one"""
    return None


def run(chk):
    plain = lib.build_impl("plain", **LEDGER)
    asan = lib.build_impl("asan", **ASAN)
    chk.prove(PROP_FILE)
    model = lib.build_model()
    cases = gen_cases(chk)
    po = lib.run_cases(plain, cases, timeout=3000)
    ao = lib.run_cases(asan, cases, timeout=3000, env={"ASAN_OPTIONS": "detect_leaks=0:abort_on_error=0:allocator_may_return_null=1:detect_stack_use_after_return=1"})
    nfail = nbad = 0
    # a third pass under valgrind memcheck (it sees overruns that stay inside ASan's redzone-free zones, e.g. into a neighbouring live block)
    sub = cases if chk.tier == "thorough" else cases[:6] + cases[14:15] + [c for i, c in enumerate(cases[24:]) if i % 2 == 1][:24]
    vdir = lib.scratch("szv-c10-")
    wrap, vlog = os.path.join(vdir, "vg.sh"), os.path.join(vdir, "vg.log")
    with open(wrap, "w") as f:
        f.write("#!/bin/sh\nexec valgrind -q --error-limit=no --log-file=%s %s\n" % (vlog, plain))
    os.chmod(wrap, 0o755)
    vo = lib.run_cases(wrap, sub, timeout=3000)
    vtxt = open(vlog).read() if os.path.exists(vlog) else ""
    vbad = [l for l in vtxt.split("\n") if "Invalid read" in l or "Invalid write" in l or "Invalid free" in l or "Mismatched free" in l]
    chk.cov["valgrind_cases"] = len(sub)
    if vbad:
        # find the first case that reproduces it on its own
        culprit = None
        for c in sub:
            if os.path.exists(vlog):
                os.unlink(vlog)
            lib.run_cases(wrap, [c], timeout=600)
            t = open(vlog).read() if os.path.exists(vlog) else ""
            if "Invalid " in t:
                culprit = (c, t)
                break
        nfail += 1
        if culprit:
            where = [l.strip() for l in culprit[1].split("\n") if " by 0x" in l or " at 0x" in l][:4]
            chk.violation("valgrind: %s in a valid call sequence (%s) on `%s`" % (vbad[0].split("==")[-1].strip(), "; ".join(where)[:300], culprit[0][:160]),
                          {"case": culprit[0], "impl": culprit[1][:1500], "variant": "plain+valgrind"})
        else:
            chk.violation("valgrind reported %d invalid accesses over the run: %s" % (len(vbad), vbad[0][:200]), {"property": "C10", "broken": ["valgrind: " + vbad[0][:300]], "log": vtxt[:1500]}, no_input=True)
    mcases, midx = [], []
    CODE = {"c": 1, "C": 1, "k": 1, "d": 2, "m": 3, "f": 0}
    opcount = {}
    for i, (c, p, a) in enumerate(zip(cases, po, ao)):
        chk.cov["evaluations"] += 2
        chk.distinct.add(c)
        for v, o in (("plain+ledger", p), ("asan", a)):
            if o.startswith("DIED") or "end=" not in o:
                d, ops = parse(o.split(" | ", 1)[1] if " | " in o else "")
                if "point-wise relativ" in o or "doesn't support" in o:
                    break          # the library refuses the request (integer data with a point-wise relative bound): exit(0), nothing to judge
                cls = died_class(c, o, ops)
                if cls and cls in chk.known_classes:
                    chk.known(cls, chk.known_classes[cls]["text"])
                    break
                nfail += 1
                if nfail <= 8:
                    chk.violation("%s build: a valid call sequence died: %s on `%s`" % (v, o[:200], c[:160]), {"case": c, "impl": o[:600], "variant": v})
                break
        else:
            d, ops = parse(p)
            for k in ops:
                opcount[k[0]] = opcount.get(k[0], 0) + 1
            if d.get("end") != "0,0":
                nfail += 1
                if nfail <= 8:
                    chk.violation("after the caller freed every returned buffer and finalised, %s blocks/bytes are still allocated (block sizes %s) on `%s`" % (d.get("end"), d.get("blocks"), c[:160]),
                                  {"case": c, "impl": p[:600], "variant": "plain+ledger"})
                continue
            # model: library-owned blocks after every op; the metadata result is freed by the caller at once (two caller frees)
            codes, want = [0], [int(d["init"].split(",")[0], 16)]
            for k in ops:
                if k[0] == "m":
                    codes += [3, 4, 4]; want += [None, None, k[1]]
                elif k[0] == "d":
                    codes += [2, 4]; want += [None, k[1]]
                elif k[0] == "f":
                    codes += [5, 0]; want += [None, k[1]]          # finalise, then initialise again
                else:
                    codes += [CODE[k[0]]]; want += [k[1]]
            mcases.append("ledger " + ",".join("%x" % x for x in codes)); midx.append((i, want))
    mo = lib.run_cases(model, mcases, timeout=600)
    ncmp = 0
    for (i, want), m in zip(midx, mo):
        got = [int(x, 16) for x in m[4:].split(",")] if m.startswith("lib=") else []
        ncmp += 1
        diff = [j for j, w in enumerate(want) if w is not None and (j >= len(got) or got[j] != w)]
        if diff:
            j = diff[0]
            nfail += 1
            if nfail <= 8:
                chk.violation("the library holds %d blocks after operation %d of the history where the ledger model allows %s (a per-call leak or an unreleased temporary) on `%s`"
                              % (want[j], j, got[j] if j < len(got) else "?", cases[i][:160]), {"case": cases[i], "impl": po[i][:600], "variant": "plain+ledger"})
    chk.cov["traces_validated_against_impl"] = ncmp
    chk.cov["rule"] = ("valid call sequences (initialise; explicit / defaults / customize compressions of ten element types, ranks 1..4, tiny, block-misaligned and degenerate shapes, "
                       "everything-unpredictable bounds, sampling distance 1, 2..65536 intervals, both back ends; decompressions; metadata queries freed as the repository's examples do; "
                       "finalise / re-initialise) run twice: under AddressSanitizer (any report is a violation) and under an allocation ledger (link-time wrapped malloc/calloc/realloc/free) "
                       "whose library-owned block count after every operation is compared with the model and whose final state must be empty; a subset (thorough: all) also under valgrind memcheck")
    chk.cov["input_distribution"] = {"histories": len(cases), "ops": opcount}
    for c in cases[:2] + cases[7:8]:
        chk.sample(c[:200])
    chk.assumptions += ["access safety (out-of-bounds, use-after-free, double free, reads outside the caller's array) is decided by AddressSanitizer on the explored sequences: exploration, not proof",
                        "allocations made inside zlib / zstd (shared objects) are outside the ledger",
                        "buffer-size theorems that back the estimates are those of C11 (Huffman output buffer) and C07 (lossless wrapper bound)"]


def replay(chk, path):
    r = json.load(open(path))
    if "case" not in r:
        print("replay names a broken obligation, not an input:", r.get("broken"))
        return 1
    v = r.get("variant", "asan")
    exe = lib.build_impl("asan", **ASAN) if v == "asan" else lib.build_impl("plain", **LEDGER)
    if v == "plain+valgrind":
        import subprocess
        p = subprocess.run(["valgrind", "-q", "--error-limit=no", exe], input=r["case"] + "\n", capture_output=True, text=True)
        bad = "Invalid " in p.stderr
        print("case:", r["case"][:300]); print(p.stderr[:1200])
        print("result:", "violation reproduced" if bad else "valgrind reports nothing on this case")
        return 1 if bad else 0
    out = lib.run_cases(exe, [r["case"]])[0]
    print("case:", r["case"][:300]); print("impl:", out[:600])
    d, ops = parse(out)
    bad = out.startswith("DIED") or d.get("end") != "0,0"
    print("result:", "violation reproduced" if bad else "no crash and an empty ledger on this case (per-operation counts: see the check)")
    return 1 if bad else 0
