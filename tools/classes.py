"""Known-finding classes shared by the end-to-end checks (C01, C03, C07, C08, C09, C12, C14).
A class is a decidable predicate on (case line, implementation output); its name is the `class=`
field in KNOWN_FINDINGS.txt.  classify() returns the class of a FAILING round-trip case or None."""
import struct

TYPES = {0: "float", 1: "double", 2: "uint8", 3: "int8", 4: "uint16", 5: "int16", 6: "uint32", 7: "int32", 8: "uint64", 9: "int64"}
ESIZE = {0: 4, 1: 8, 2: 1, 3: 1, 4: 2, 5: 2, 6: 4, 7: 4, 8: 8, 9: 8}
MDBL, MDBL_D = 28, 36


def dbl(h):
    return struct.unpack("<d", struct.pack("<Q", int(h, 16)))[0]


def dbits(x):
    return "%x" % struct.unpack("<Q", struct.pack("<d", x))[0]


def kv(line):
    d = {}
    for tok in line.split(" "):
        if "=" in tok:
            k, v = tok.split("=", 1)
            d[k] = v
    return d


def ulp(x, ty):
    """unit in the last place of |x| in binary32 (ty 0) or binary64"""
    import math
    if x == 0 or x != x or x in (float("inf"), float("-inf")):
        return 0.0
    m, ex = math.frexp(abs(x))
    return math.ldexp(1.0, ex - (24 if ty == 0 else 53))


def bypass_sizes(ty):
    """stream sizes for which the decoder entry of this type skips the format sniffer"""
    if ty == 0:
        return (8 + 4 + MDBL, 8 + 8 + MDBL)
    if ty == 1:
        return (12 + 4 + MDBL_D, 12 + 8 + MDBL_D)
    w = ESIZE[ty]
    return (4 + w + 4 + MDBL, 4 + w + 8 + MDBL)


def parse_rt(case):
    a = case.split(" ")
    ty = int(a[1], 16)
    cd = [int(x, 16) for x in a[2].split(",")]
    dd = [int(x, 16) for x in a[3].split(",")]
    cfg = {}
    if a[8] != "-":
        for t in a[8].split(";"):
            if "=" in t:
                k, v = t.split("=", 1)
                cfg[k] = v
    return {"ty": ty, "cd": cd, "dd": dd, "mode": int(a[4], 16), "abs": dbl(a[5]), "rel": dbl(a[6]), "pwr": dbl(a[7]), "cfg": cfg, "data": a[9]}


def eff_dims(cd):
    s = [v for v in cd if v > 1]
    return s if s else [1]


def classify(case, out):
    """class name of a failing rt/rtr case, or None if it is in no listed class"""
    p = parse_rt(case)
    d = kv(out.split(" | ", 1)[1] if (out.startswith("DIED") and " | " in out) else out)
    ty = p["ty"]
    if out.startswith("DIED") or d.get("st") != "ok":
        return None
    if "e" not in d:
        return None
    e, me = dbl(d["e"]), dbl(d["maxerr"])
    nd = len(eff_dims(p["cd"]))
    if ty in (0, 1):
        # C01: SZ-1.4 kernels without the re-check (float 4-D; double 2-D..4-D; the double 1-D kernel was repaired): pred + 2ke can
        # round away from the value, the excess over e is a few ulps of the data
        noreg = p["cfg"].get("withLinearRegression", "YES") in ("NO", "no")
        if p["mode"] in (0, 1, 2, 3) and ((ty == 0 and nd == 4 and noreg) or (ty == 1 and nd >= 2 and noreg)):
            amax = dbl(d["amax"]) if "amax" in d else 0.0
            if me == me and me - e <= 64 * ulp(amax + e, ty):
                return "fd_no_recheck"
        return None
    # integer kernels, fractional bound: pred + 2ke is truncated toward zero when stored back
    if e != int(e) and me < e + 1:
        return "int_fractional_bound"
    return None


def classify_extreme(case, out):
    """C01 classes of extreme inputs, decided from the harness output of a failing float/double case:
    fd_range_overflow  - max - min, or a prediction + k*2e, is not finite in the element type
    fd_denormal_bound  - the effective bound is below the smallest normal number of the element type"""
    p = parse_rt(case)
    d = kv(out.split(" | ", 1)[1] if (out.startswith("DIED") and " | " in out) else out)
    ty = p["ty"]
    if ty not in (0, 1):
        return None
    big = 3.0e38 if ty == 0 else 1.7e308
    tiny = 1.1754944e-38 if ty == 0 else 2.2250738585072014e-308
    if "pe" in d and "pamax" in d:
        e, amax = dbl(d["pe"]), dbl(d["pamax"])
        if e != e or e == float("inf") or amax * 2 > big or (amax + 65536 * 2 * e) > big:
            return "fd_range_overflow"
        if 0 <= e < tiny and ty == 1:
            # double kernels only: the float kernels were surveyed with bounds down to 2^-146 on data of every scale (1-D..4-D, with and
            # without regression) and keep the bound there
            return "fd_denormal_bound"
    return None


def outside_model_domain(case, out):
    """inputs on which the transcribed kernels leave what the model gives a meaning to: (int) of an infinite or out-of-range value (undefined
    in C; the hardware returns INT_MIN) when 1/e or a range overflows -- a limit of the model, not a listed finding"""
    if classify_extreme(case, out):
        return True
    p = parse_rt(case)
    d = kv(out.split(" | ", 1)[1] if (out.startswith("DIED") and " | " in out) else out)
    if p["ty"] == 0 and "pe" in d:
        e = dbl(d["pe"])
        return 0 <= e < 1.1754944e-38
    return False
