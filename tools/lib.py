"""Common machinery of the /verif checks: building the implementation from /repo's working
tree, re-checking the Coq development, running model and implementation on the same case
file, known findings, evidence and VIOLATION reporting."""
import hashlib, json, os, random, re, shutil, subprocess, sys, tempfile, time, atexit, glob

VERIF = os.path.dirname(os.path.dirname(os.path.abspath(__file__)))
REPO = os.environ.get("VERIF_REPO", "/repo")
COQ = os.path.join(VERIF, "coq")
CACHE = os.path.join(VERIF, ".cache")
SCRATCH_ROOT = os.environ.get("VERIF_SCRATCH", "/var/tmp")
NCPU = 16
GUARD = "SZ_VERIF"

_scratch_dirs = []


class Lock:
    """inter-process lock (several checks may run at once and share coq/ and .cache/)"""
    def __init__(self, name):
        os.makedirs(CACHE, exist_ok=True)
        self.path = os.path.join(CACHE, name + ".lock")
    def __enter__(self):
        import fcntl
        self.f = open(self.path, "w")
        fcntl.flock(self.f, fcntl.LOCK_EX)
        return self
    def __exit__(self, *a):
        import fcntl
        fcntl.flock(self.f, fcntl.LOCK_UN)
        self.f.close()


def scratch(prefix="szv-"):
    d = tempfile.mkdtemp(prefix=prefix, dir=SCRATCH_ROOT)
    _scratch_dirs.append(d)
    return d


@atexit.register
def _cleanup():
    for d in _scratch_dirs:
        shutil.rmtree(d, ignore_errors=True)


def sh(cmd, cwd=None, timeout=None, env=None, input=None, check=False):
    e = dict(os.environ)
    if env:
        e.update(env)
    p = subprocess.run(cmd, cwd=cwd, shell=isinstance(cmd, str), capture_output=True, text=True,
                       timeout=timeout, env=e, input=input)
    if check and p.returncode != 0:
        raise RuntimeError("command failed: %s\n%s\n%s" % (cmd, p.stdout[-3000:], p.stderr[-3000:]))
    return p


# ----------------------------------------------------------------------------------------
# implementation build (from /repo's current working tree, into a content-addressed cache)
# ----------------------------------------------------------------------------------------
VARIANTS = {
    # name: (cflags, extra defines)
    "plain": ["-O2", "-g", "-std=gnu99", "-fPIC", "-Wno-error", "-w", "-DNDEBUG"],
    "asan": ["-O1", "-g", "-std=gnu99", "-fPIC", "-w", "-fsanitize=address,undefined", "-fno-sanitize=shift,signed-integer-overflow,alignment,nonnull-attribute",
             "-fno-sanitize-recover=undefined", "-fno-omit-frame-pointer", "-DNDEBUG"],
    "ts": ["-O2", "-g", "-std=gnu99", "-fPIC", "-w", "-DNDEBUG", "-DHAVE_TIMECMPR"],
    "tsasan": ["-O1", "-g", "-std=gnu99", "-fPIC", "-w", "-fsanitize=address,undefined", "-fno-sanitize=shift,signed-integer-overflow,alignment,nonnull-attribute",
               "-fno-sanitize-recover=undefined", "-fno-omit-frame-pointer", "-DNDEBUG", "-DHAVE_TIMECMPR"],
}
SKIP_SRC = {"sz_omp.c", "sz_stats.c", "pastri.c"}  # optional components not built by default


def _src_files():
    srcs = sorted(glob.glob(os.path.join(REPO, "sz/src/*.c")))
    srcs = [s for s in srcs if os.path.basename(s) not in SKIP_SRC]
    hdrs = sorted(glob.glob(os.path.join(REPO, "sz/include/*.h")))
    return srcs, hdrs


def tree_hash(extra_files=(), extra=""):
    h = hashlib.sha256()
    srcs, hdrs = _src_files()
    for f in list(srcs) + list(hdrs) + list(extra_files):
        h.update(f.encode())
        with open(f, "rb") as fh:
            h.update(fh.read())
    h.update(extra.encode())
    return h.hexdigest()[:20]


def _prune_cache(keep=8):
    root = os.path.join(CACHE, "impl")
    if not os.path.isdir(root):
        return
    ents = sorted(((os.path.getmtime(os.path.join(root, d)), d) for d in os.listdir(root)), reverse=True)
    for mt, d in ents[keep:]:
        if time.time() - mt < 4 * 3600:
            continue        # possibly in use by a check that is still running (a thorough tier takes up to an hour)
        shutil.rmtree(os.path.join(root, d), ignore_errors=True)


def build_impl(variant="plain", harness=("szimpl.c", "ops_more.c"), exe="szimpl", extra_cflags=(), extra_libs=(), extra_repo_srcs=()):
    """Build libSZ.a from /repo's working tree with -DSZ_VERIF and the given harness program.
    Returns the path of the executable.  Cached by content hash of the sources + flags."""
    with Lock("impl-" + variant + "-" + exe):
        return _build_impl(variant, harness, exe, extra_cflags, extra_libs, extra_repo_srcs)


def _build_impl(variant, harness, exe, extra_cflags, extra_libs, extra_repo_srcs):
    srcs, hdrs = _src_files()
    hfiles = [os.path.join(VERIF, "harness", f) for f in harness] + [os.path.join(VERIF, "harness", "szimpl.h")]
    flags = VARIANTS[variant] + ["-D" + GUARD] + list(extra_cflags)
    rfiles = [os.path.join(REPO, f) for f in extra_repo_srcs]
    rhdrs = []
    for f in rfiles:
        rhdrs += glob.glob(os.path.join(os.path.dirname(os.path.dirname(f)), "include", "*.h"))
    key = tree_hash(hfiles + rfiles + rhdrs, " ".join(flags) + exe + " ".join(extra_libs))
    out = os.path.join(CACHE, "impl", variant + "-" + key)
    binp = os.path.join(out, exe)
    if os.path.exists(binp):
        os.utime(out, None)
        return binp
    t0 = time.time()
    work = scratch("szv-build-")
    os.makedirs(os.path.join(work, "obj"))
    shutil.copytree(os.path.join(REPO, "sz/include"), os.path.join(work, "include"))
    os.makedirs(os.path.join(work, "src"))
    for s in srcs:
        shutil.copy(s, os.path.join(work, "src"))
    with open(os.path.join(work, "include", "config.h"), "w") as f:
        f.write("#define HAVE_SYS_TIME_H 1\n#define HAVE_UNISTD_H 1\n#define HAVE_CLOCK_GETTIME 1\n#define HAVE_GETTIMEOFDAY 1\n")
    mk = ["CC=gcc", "CFLAGS=" + " ".join(flags) + " -Iinclude",
          "SRCS=$(wildcard src/*.c)", "OBJS=$(patsubst src/%.c,obj/%.o,$(SRCS))",
          "libSZ.a: $(OBJS)", "\tar rcs $@ $^", "obj/%.o: src/%.c", "\t$(CC) $(CFLAGS) -c $< -o $@"]
    with open(os.path.join(work, "Makefile"), "w") as f:
        f.write("\n".join(mk) + "\n")
    p = sh(["make", "-j%d" % NCPU, "libSZ.a"], cwd=work, timeout=900)
    if p.returncode != 0:
        raise RuntimeError("implementation build failed:\n" + p.stdout[-2000:] + p.stderr[-4000:])
    os.makedirs(out, exist_ok=True)
    cmd = ["gcc"] + flags + ["-I" + os.path.join(work, "include"), "-I" + os.path.join(VERIF, "harness")] + \
          [os.path.join(VERIF, "harness", f) for f in harness] + rfiles + \
          ["-I" + os.path.join(os.path.dirname(os.path.dirname(f)), "include") for f in rfiles] + [os.path.join(work, "libSZ.a")] + \
          list(extra_libs) + ["-lz", "-lzstd", "-lm", "-lpthread", "-o", binp]
    p = sh(cmd, timeout=600)
    if p.returncode != 0:
        shutil.rmtree(out, ignore_errors=True)
        raise RuntimeError("harness build failed:\n" + p.stderr[-6000:])
    shutil.copy(os.path.join(work, "libSZ.a"), os.path.join(out, "libSZ.a"))
    shutil.copytree(os.path.join(work, "include"), os.path.join(out, "include"), dirs_exist_ok=True)
    shutil.rmtree(work, ignore_errors=True)
    _prune_cache()
    sys.stderr.write("[build] %s %s in %.1fs\n" % (variant, exe, time.time() - t0))
    return binp


# ----------------------------------------------------------------------------------------
# Coq side
# ----------------------------------------------------------------------------------------
def coq_make(targets, timeout=1800):
    """(Re)build the given .vo targets with a full .vo build.  Returns (ok, output)."""
    with Lock("coq"):
        if not os.path.exists(os.path.join(COQ, "Makefile")):
            sh("coq_makefile -f _CoqProject -o Makefile", cwd=COQ, check=True)
        p = sh(["make", "-k", "-j%d" % NCPU] + list(targets), cwd=COQ, timeout=timeout)
        return p.returncode == 0, p.stdout + p.stderr


def coq_obligations(prop_file):
    """Rebuild Properties/<prop_file>.vo from scratch of that file (so Print Assumptions output is
    produced) and return (ok, theorems, assumptions dict, raw output)."""
    vo = os.path.join(COQ, "Properties", prop_file + ".vo")
    with Lock("coqprop-" + prop_file):
        return _coq_obligations(prop_file, vo)


def _coq_obligations(prop_file, vo):
    for ext in (".vo", ".glob", ".vos", ".vok"):
        try:
            os.remove(os.path.join(COQ, "Properties", prop_file + ext))
        except OSError:
            pass
    ok, out = coq_make(["Properties/%s.vo" % prop_file])
    src = open(os.path.join(COQ, "Properties", prop_file + ".v")).read()
    theorems = re.findall(r"^\s*(?:Theorem|Lemma)\s+([A-Za-z0-9_']+)", src, re.M)
    prints = re.findall(r"^\s*Print Assumptions\s+([A-Za-z0-9_']+)\.", src, re.M)
    # split the output into blocks, one per Print Assumptions, in order
    blocks = []
    cur = None
    for line in out.splitlines():
        if line.startswith("Closed under the global context"):
            blocks.append([])
            cur = None
        elif line.startswith("Axioms:"):
            cur = []
            blocks.append(cur)
        elif cur is not None:
            if re.match(r"^\S", line) and not line.startswith(("COQ", "make", "File")):
                cur.append(line.split(":")[0].strip())
            elif line.startswith(("COQ", "make", "File")):
                cur = None
    assumptions = {}
    if ok and len(blocks) == len(prints):
        for name, b in zip(prints, blocks):
            assumptions[name] = sorted(set(b))
    ok = ok and os.path.exists(vo)
    return ok, theorems, assumptions, out


FORBIDDEN = re.compile(r"\b(Admitted|admit|Axiom|Parameter|Conjecture|Unset Guard|bypass_check|Admit Obligations)\b|type-in-type|impredicative-set")


def coq_hygiene():
    """Scan the development for forbidden constructs.  Returns list of (file, line, text)."""
    bad = []
    for root, _, files in os.walk(COQ):
        for f in files:
            if f.endswith(".v"):
                p = os.path.join(root, f)
                for i, line in enumerate(open(p, errors="replace"), 1):
                    code = re.sub(r"\(\*.*?\*\)", "", line)
                    if FORBIDDEN.search(code):
                        bad.append((os.path.relpath(p, COQ), i, line.strip()))
    for f in ("_CoqProject",):
        for i, line in enumerate(open(os.path.join(COQ, f)), 1):
            if FORBIDDEN.search(line):
                bad.append((f, i, line.strip()))
    return bad


def build_model(timeout=900):
    """Re-extract (if needed) and build the OCaml model driver.  Returns path of szmodel."""
    for d in ("ocaml/gen", "evidence", "replays", ".cache"):       # a fresh checkout has none of these (they are not committed)
        os.makedirs(os.path.join(VERIF, d), exist_ok=True)
    ok, out = coq_make(["Extract/Extract.vo"])
    if not ok:
        raise RuntimeError("model extraction failed:\n" + out[-4000:])
    with Lock("ocaml"):
        return _build_model(timeout)


def _build_model(timeout):
    exe = os.path.join(VERIF, "ocaml", "szmodel")
    gen = os.path.join(VERIF, "ocaml", "gen", "szm.ml")
    srcs = [gen] + glob.glob(os.path.join(VERIF, "ocaml", "*.ml"))
    if (not os.path.exists(exe)) or any(os.path.getmtime(s) > os.path.getmtime(exe) for s in srcs):
        p = sh([os.path.join(VERIF, "ocaml", "build.sh")], timeout=timeout)
        if p.returncode != 0:
            raise RuntimeError("model driver build failed:\n" + p.stdout[-3000:] + p.stderr[-3000:])
    return exe


# ----------------------------------------------------------------------------------------
# running case files
# ----------------------------------------------------------------------------------------
def _big_stack():
    # the extracted model recurses on long lists (non-tail-recursive list functions)
    import resource
    try:
        soft, hard = resource.getrlimit(resource.RLIMIT_STACK)
        want = 8 << 30
        if hard != resource.RLIM_INFINITY:
            want = min(want, hard)
        resource.setrlimit(resource.RLIMIT_STACK, (want, hard))
    except Exception:
        pass


def run_cases(exe, cases, env=None, timeout=600, per_case_restart=True, extra_args=(), max_deaths=200, jobs=1):
    """Feed the case lines to exe; return a list with one output line per case.
    If the process dies (crash, sanitizer abort, or the library calling exit()), the case whose
    output is missing is marked 'DIED rc=<rc> <last stderr line>' and the run continues after it.
    jobs > 1: the list is cut into contiguous shards run by that many processes at once (every case line is
    self-contained: the harness re-initialises the library per line), results in the original order."""
    if jobs > 1 and len(cases) >= 4 * jobs:
        from concurrent.futures import ThreadPoolExecutor
        k = (len(cases) + jobs - 1) // jobs
        shards = [cases[a:a + k] for a in range(0, len(cases), k)]
        with ThreadPoolExecutor(max_workers=jobs) as ex:
            outs = list(ex.map(lambda sh_: run_cases(exe, sh_, env=env, timeout=timeout, per_case_restart=per_case_restart,
                                                     extra_args=extra_args, max_deaths=max_deaths), shards))
        return [o for part in outs for o in part]
    results = []
    i = 0
    deaths = 0
    n = len(cases)
    e = dict(os.environ)
    e.setdefault("ASAN_OPTIONS", "detect_leaks=0:abort_on_error=0:allocator_may_return_null=1")
    e.setdefault("UBSAN_OPTIONS", "print_stacktrace=1")
    if env:
        e.update(env)
    while i < n:
        data = "\n".join(cases[i:]) + "\n"
        try:
            p = subprocess.run([exe] + list(extra_args), input=data, capture_output=True, text=True, timeout=timeout, env=e,
                               preexec_fn=_big_stack)
            rc, out, err = p.returncode, p.stdout, p.stderr
        except subprocess.TimeoutExpired as ex:
            rc = -999
            out = ex.stdout.decode() if isinstance(ex.stdout, bytes) else (ex.stdout or "")
            err = "TIMEOUT"
        lines = out.split("\n")
        if lines and lines[-1] == "":
            lines.pop()
        complete = lines
        # a partial last line (no newline) belongs to the case the process died on
        partial = ""
        if out and not out.endswith("\n") and complete:
            partial = complete[-1]
            complete = complete[:-1]
        got = len(complete)
        results.extend(complete[: n - i])
        i += got
        if i >= n:
            break
        if rc == -999 and got > 0:
            continue               # the batch ran out of time after making progress: go on from the first unanswered case
        # process died on case i
        why = ""
        for l in err.splitlines():
            if "ERROR: AddressSanitizer" in l or "runtime error" in l or "SUMMARY" in l:
                why = l.strip()
                if "ERROR: AddressSanitizer" in l or "runtime error" in l:
                    break
        if not why:
            tail = [l for l in (out[-300:] + "\n" + err[-300:]).splitlines() if l.strip()]
            why = tail[-1].strip() if tail else ""
        results.append("DIED rc=%d %s%s" % (rc, why[:200], (" | " + partial[:6000]) if partial else ""))
        i += 1
        deaths += 1
        if not per_case_restart or deaths > max_deaths:
            while i < n:
                results.append("SKIPPED")
                i += 1
    return results


# ----------------------------------------------------------------------------------------
# known findings
# ----------------------------------------------------------------------------------------
def load_findings(pid):
    """Lines of KNOWN_FINDINGS.txt for this property: list of dicts {kind, class, text}."""
    res = []
    path = os.path.join(VERIF, "KNOWN_FINDINGS.txt")
    if not os.path.exists(path):
        return res
    for line in open(path):
        line = line.strip()
        if not line or line.startswith("#"):
            continue
        m = re.match(r"^(finding|fixed):\s+property=(\S+)\s+(.*)$", line)
        if not m or m.group(2) != pid:
            continue
        kind, rest = m.group(1), m.group(3)
        cls = re.search(r"class=(\S+)", rest)
        res.append({"kind": kind, "class": cls.group(1) if cls else None, "text": rest})
    return res


# ----------------------------------------------------------------------------------------
# check context: collects results, writes evidence, prints VIOLATION lines
# ----------------------------------------------------------------------------------------
class Check:
    def __init__(self, pid, level="proof"):
        self.pid = pid
        self.level = level
        self.t0 = time.time()
        self.tier = os.environ.get("VERIF_TIER", "quick")
        if len(sys.argv) > 2 and sys.argv[2] in ("quick", "thorough"):
            self.tier = sys.argv[2]
        if "--tier" in sys.argv:
            self.tier = sys.argv[sys.argv.index("--tier") + 1]
        self.seed = int(os.environ.get("VERIF_SEED", "1"))
        self.rng = random.Random(self.seed * 1000003 + sum(ord(c) for c in pid))
        self.violations = []       # (what, replay dict)
        self.known_seen = {}       # class -> text
        self.findings = load_findings(pid)
        self.known_classes = {f["class"]: f for f in self.findings if f["kind"] == "finding"}
        self.cov = {"evaluations": 0, "distinct_nontrivial": 0, "samples": [], "rule": "",
                    "obligations": 0, "discharged": 0, "checker_cmd": "", "trusted_base": []}
        self.assumptions = []
        self.notes = []
        self.distinct = set()
        self.proof_ok = None
        self.broken = []           # names of theorems / correspondences that no longer check

    # ---- proofs ----
    def translate(self):
        """Regenerate every source-derived Coq file (T1 functions, T2 constants, structural facts) from /repo's working
        tree.  A generator that cannot find its anchor leaves the previous file in place, which would let the theorems be
        checked against what the code used to say: that is reported as a broken tie, never passed over."""
        import gen
        with Lock("gen"):
            for name, fn, key in (("T1 function translator", gen.gen_funs, "t1_failed"), ("T2 constants", gen.gen_consts, "t2_failed"), ("T2 structural facts", gen.gen_facts, "facts_failed")):
                try:
                    _, notes = fn()
                except Exception as e:          # a generator that crashes has not regenerated anything
                    self.broken.append("translator (%s) failed: %r" % (name, e))
                    continue
                if notes.get(key):
                    self.broken.append("translator (%s) could not regenerate %s from the source: the generated Coq file is stale" % (name, notes[key]))
                self.cov.setdefault("translators", {})[name] = "ok" if not notes.get(key) else "stale: %s" % notes[key]

    def prove(self, prop_file, gen_obligations=0):
        self.translate()
        ok, theorems, assum, out = coq_obligations(prop_file)
        hyg = coq_hygiene()
        self.cov["checker_cmd"] = "make -k -j16 Properties/%s.vo (coqc 8.16.1, full .vo build) + Print Assumptions per theorem + hygiene grep" % prop_file
        self.cov["obligations"] += len(theorems) + gen_obligations
        if ok and not hyg:
            self.cov["discharged"] += len(theorems) + gen_obligations
        self.cov["theorems"] = theorems
        axioms = sorted({a for v in assum.values() for a in v})
        self.cov["axioms_per_theorem"] = assum
        self.cov["trusted_base"] = [
            "Coq 8.16.1 kernel (coqc; vm_compute used for finite sweeps and witnesses; no native_compute)",
            "axioms reported by Print Assumptions: " + (", ".join(axioms) if axioms else "none (closed under the global context)"),
        ]
        self.proof_ok = ok and not hyg
        if not ok:
            m = re.search(r'File "([^"]+)", line (\d+)[^\n]*\n(?:[^\n]*\n){0,6}', out)
            self.broken.append("proof:%s %s" % (prop_file, (m.group(0).strip().replace("\n", " | ")[:400] if m else "build failed")))
        for f, i, t in hyg:
            self.broken.append("hygiene:%s:%d %s" % (f, i, t))
        return ok

    # ---- correspondence ----
    def compare(self, cases, model_out, impl_out, nontrivial=None, label="T3"):
        """Compare model and implementation line by line.  Returns indices that disagree."""
        bad = []
        for i, (c, m, r) in enumerate(zip(cases, model_out, impl_out)):
            self.cov["evaluations"] += 1
            if nontrivial is None or nontrivial(c, m, r):
                self.distinct.add(hashlib.md5(c.encode()).hexdigest())
            if m != r:
                bad.append(i)
        if len(model_out) != len(cases) or len(impl_out) != len(cases):
            self.broken.append("%s: output count mismatch cases=%d model=%d impl=%d" % (label, len(cases), len(model_out), len(impl_out)))
        return bad

    def sample(self, obj):
        if len(self.cov["samples"]) < 12:
            self.cov["samples"].append(obj)

    # ---- reporting ----
    def violation(self, what, replay, no_input=False):
        self.violations.append((what, replay, no_input))

    def known(self, cls, text):
        self.known_seen[cls] = text

    def write_replay(self, replay):
        os.makedirs(os.path.join(VERIF, "replays"), exist_ok=True)
        blob = json.dumps(replay, sort_keys=True, indent=1)
        name = "%s-%s.json" % (self.pid, hashlib.md5(blob.encode()).hexdigest()[:10])
        path = os.path.join(VERIF, "replays", name)
        with open(path, "w") as f:
            f.write(blob + "\n")
        return os.path.join("replays", name)

    def finish(self):
        self.cov["distinct_nontrivial"] = len(self.distinct)
        if self.broken and not self.violations:
            # a proof obligation or the correspondence broke and no failing input was found
            self.violation("no longer established: " + "; ".join(self.broken)[:600],
                           {"property": self.pid, "broken": self.broken, "seed": self.seed, "tier": self.tier}, no_input=True)
        for cls, text in sorted(self.known_seen.items()):
            print("KNOWN-FINDING: property=%s %s" % (self.pid, text if text.startswith("class=") else "class=%s %s" % (cls, text)))
        nviol = 0
        for what, replay, no_input in self.violations[:20]:
            replay = dict(replay)
            replay.setdefault("property", self.pid)
            replay["what"] = what
            if self.broken:
                replay.setdefault("broken", self.broken)
            path = self.write_replay(replay)
            print("VIOLATION property=%s replay=%s %s%s" % (self.pid, path, what.replace("\n", " ")[:300],
                                                            " no-failing-input-found" if no_input else ""))
            nviol += 1
        ev = {
            "property_id": self.pid, "tier": self.tier if self.tier in ("quick", "thorough") else "quick",
            "seed": self.seed, "level": self.level, "coverage": self.cov,
            "assumptions": self.assumptions, "wall_s": round(time.time() - self.t0, 2),
            "violations": len(self.violations),
            "known_findings_observed": sorted(self.known_seen.keys()),
            "notes": self.notes,
        }
        os.makedirs(os.path.join(VERIF, "evidence"), exist_ok=True)
        with open(os.path.join(VERIF, "evidence", self.pid + ".json"), "w") as f:
            json.dump(ev, f, indent=1, sort_keys=True)
            f.write("\n")
        sys.stdout.flush()
        if nviol:
            sys.exit(1)
        print("OK property=%s tier=%s evaluations=%d obligations=%d/%d wall=%.1fs" % (
            self.pid, self.tier, self.cov["evaluations"], self.cov["discharged"], self.cov["obligations"], time.time() - self.t0))
        sys.exit(0)
