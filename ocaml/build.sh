#!/bin/sh
# builds the model driver from the extracted code (gen/szm.ml[i], written by coq/Extract/Extract.v)
set -e
cd "$(dirname "$0")"
mkdir -p _build
cp gen/szm.ml gen/szm.mli zio.ml szmodel.ml _build/
cd _build
ocamlfind ocamlopt -O2 -w -a szm.mli szm.ml zio.ml szmodel.ml -o ../szmodel 2>/dev/null || \
ocamlfind ocamlopt -w -a szm.mli szm.ml zio.ml szmodel.ml -o ../szmodel
