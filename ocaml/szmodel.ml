(* szmodel: runs the extracted Coq model on a case file.
   One case per input line "op arg ...", one canonical result line per case on stdout.
   The same case file is given to harness/szimpl (the implementation). *)
open Szm
type string = Stdlib.String.t   (* the extracted Coq string type is Szm.string *)
open Zio

let sl = string_of_zlist
let hz = hex_of_z

let ops : (string, string list -> string) Hashtbl.t = Hashtbl.create 64
let reg name f = Hashtbl.replace ops name f

(* ---------------- C13 ---------------- *)
let () =
  reg "be" (fun a -> match a with
    | [w; v] ->
      let w = nat_of_hex w and v = z_of_hex v in
      let bs = to_be w v in
      let u = from_be bs in
      Printf.sprintf "bytes=%s u=%s s=%s" (sl bs) (hz u) (hz (to_signed w u))
    | _ -> failwith "be");
  reg "rd" (fun a -> match a with
    | [bs] ->
      let bs = zlist_of_string bs in
      let u = from_be bs in
      let w = nat_of_int (List.length bs) in
      Printf.sprintf "u=%s s=%s bytes=%s" (hz u) (hz (to_signed w u)) (sl (to_be w u))
    | _ -> failwith "rd");
  reg "fp" (fun a -> match a with
    | [w; se; bits] ->
      let w = nat_of_hex w and se = z_of_hex se and bits = z_of_hex bits in
      let bs = fp_to_bytes w se bits in
      Printf.sprintf "bytes=%s back=%s" (sl bs) (hz (bytes_to_fp se bs))
    | _ -> failwith "fp");
  reg "size" (fun a -> match a with
    | [t; n] ->
      let t = z_of_hex t and n = z_of_hex n in
      let bs = size_to_bytes t n in
      Printf.sprintf "bytes=%s back=%s" (sl bs) (hz (bytes_to_size t bs))
    | _ -> failwith "size");
  reg "arr" (fun a -> match a with
    | [w; se; de; vals] ->
      let w = nat_of_hex w and se = z_of_hex se and de = z_of_hex de in
      let l = zlist_of_string vals in
      let bs = array_to_bytes w se de l in
      Printf.sprintf "bytes=%s back=%s" (sl bs) (sl (bytes_to_array w se de bs))
    | _ -> failwith "arr");
  reg "pack" (fun a -> match a with
    | [k; vals] ->
      let k = nat_of_hex k in
      let l = zlist_of_string vals in
      let bs = pack k l in
      let n = nat_of_int (List.length l) in
      Printf.sprintf "len=%x bytes=%s back=%s" (List.length bs) (sl bs) (sl (unpack k n bs))
    | _ -> failwith "pack");
  reg "dyn" (fun a -> match a with
    | [k; vals] ->
      let k = nat_of_hex k in
      let l = zlist_of_string vals in
      let bs = pack k l in
      Printf.sprintf "len=%x bytes=%s" (List.length bs) (sl bs)
    | _ -> failwith "dyn")

let () =
  reg "iu" (fun a -> match a with
    | [k; w; b0; b1] -> Printf.sprintf "v=%s adv=%s" (hz (inline_extract (z_of_hex k) (z_of_hex w) (z_of_hex b0) (z_of_hex b1))) (hz (inline_advance (z_of_hex k) (z_of_hex w)))
    | _ -> failwith "iu")

(* ---------------- C09 ---------------- *)
let dims5 s = match zlist_of_string s with
  | [a; b; c; d; e] -> (a, b, c, d, e)
  | _ -> failwith "dims"
let () =
  reg "fdim" (fun a -> match a with
    | [d] ->
      let (r5, r4, r3, r2, r1) = dims5 d in
      let (((((ret, c), dim), len), fd), fl) = fdim_report r5 r4 r3 r2 r1 in
      let ((((c0, c1), c2), c3), c4) = c in
      Printf.sprintf "ret=%s c=%s,%s,%s,%s,%s dim=%s len=%s fdim=%s flen=%s" (hz ret) (hz c0) (hz c1) (hz c2) (hz c3) (hz c4)
        (hz dim) (hz len) (hz fd) (hz fl)
    | _ -> failwith "fdim");
  (* what the dimension handling predicts for a compress(cdims)/decompress(ddims) pair *)
  reg "c09rt" (fun a -> match a with
    | [cd; dd] ->
      let (r5, r4, r3, r2, r1) = dims5 cd and (s5, s4, s3, s2, s1) = dims5 dd in
      let n = c_computeDataLength r5 r4 r3 r2 r1 and dn = c_computeDataLength s5 s4 s3 s2 s1 in
      let f = filtered r5 r4 r3 r2 r1 and g = filtered s5 s4 s3 s2 s1 in
      let ((((f5, f4), f3), f2), f1) = f in
      Printf.sprintf "n=%s dn=%s same=%d wf=%d dim=%s" (hz n) (hz dn) (if f = g then 1 else 0)
        (if wfb r5 r4 r3 r2 r1 && wfb s5 s4 s3 s2 s1 then 1 else 0) (hz (c_computeDimension f5 f4 f3 f2 f1))
    | _ -> failwith "c09rt")

(* ---------------- C11 ---------------- *)
let rec list_take n l = if n <= 0 then [] else match l with [] -> [] | x :: r -> x :: list_take (n - 1) r
let rec list_drop n l = if n <= 0 then l else match l with [] -> [] | _ :: r -> list_drop (n - 1) r
let () =
  (* huffm <stateNum> <symbols> <bytes written by the implementation>:
     the tree is the implementation's (parsed back from its table), everything else is the model's *)
  reg "huffm" (fun a -> match a with
    | [st; seq; bytes] ->
      let s = zlist_of_string seq and b = zlist_of_string bytes in
      let n = List.length s in
      let node_count = from_be (list_take 4 b) and st_half = from_be (list_take 4 (list_drop 4 b)) in
      let nc = int_of_z node_count in
      let w = idx_width (z_of_int 256) (z_of_int 65536) node_count in
      let tlen = int_of_z (tree_bytes_len w node_count) in
      let tb = list_take tlen (list_drop 8 b) in
      let payload = list_drop (8 + tlen) b in
      let rows = parse_tree_bytes w (nat_of_int nc) tb in
      (match parse_seq (nat_of_int (nc + 1)) rows with
       | Some (t, []) ->
         let rows_ok = (pad t Z0 = rows) && (tree_bytes w (List.hd tb) (pad t Z0) = tb) in
         (* leaves must be distinct and cover the sequence (tree_ok, with a hash table for large inputs) *)
         let lv = leaves t in
         let tok =
           if List.length lv * n <= 20_000_000 then tree_ok t s
           else begin
             let h = Hashtbl.create 1024 in
             let dup = ref false in
             List.iter (fun c -> if Hashtbl.mem h c then dup := true else Hashtbl.add h c ()) lv;
             (not !dup) && List.for_all (fun c -> Hashtbl.mem h c) s
           end in
         (* code table from the model's [codes]; lookups through a hash table (glue) *)
         let h = Hashtbl.create 1024 in
         List.iter (fun (c, p) -> Hashtbl.replace h c p) (codes t);
         let lk c = Hashtbl.find_opt h c in
         (match encode_with lk s with
          | None -> "tree_ok=0 no-code"
          | Some bits ->
            let pb = pack_bits bits in
            let plen = List.length pb in
            let pay_ok = (list_take plen payload = pb) && List.length payload = plen in
            let d1 = decode t (pb @ [z_of_int 0xAA; z_of_int 0x55]) (nat_of_int n) in
            let mb = List.fold_left (fun m (_, p) -> max m (List.length p)) 0 (codes t) in
            let d2 = decode_msst19 t (z_of_int mb) (pb @ [Z0; Z0; Z0]) (nat_of_int n) in
            Printf.sprintf "tree_ok=%d rows_ok=%d nodes=%x half_ok=%d payload_ok=%d size_ok=%d dec_ok=%d dec2_ok=%d maxbits=%x bits=%x"
              (if tok then 1 else 0) (if rows_ok then 1 else 0) nc
              (if hz st_half = hz (z_of_int (int_of_string ("0x" ^ st) / 2)) then 1 else 0)
              (if pay_ok then 1 else 0) (if 8 + tlen + plen = List.length b then 1 else 0)
              (if d1 = s then 1 else 0) (if d2 = s then 1 else 0) mb (List.length bits))
       | _ -> "tree_ok=0 unparsable-table")
    | _ -> failwith "huffm")

(* ---------------- C19 ---------------- *)
let () =
  reg "rw" (fun a -> match a with
    | [ty; de; mode; vals] ->
      let ty = int_of_string ("0x" ^ ty) and de = z_of_hex de and mode = int_of_string ("0x" ^ mode) in
      let l = zlist_of_string vals in
      let w = nat_of_int (match ty with 0 -> 4 | 1 -> 8 | 2 | 3 -> 1 | 4 | 5 -> 2 | 6 | 7 -> 4 | _ -> 8) in
      let fp = ty < 2 in
      if mode = 2 then
        (match read_file w Z0 de None with None -> "st_r=-2 null=1" | Some _ -> "st_r=0 null=0")
      else begin
        let file, rde = if mode = 0 then (write_file fp w Z0 de l, de) else (swapped_file w l, z_of_int 1) in
        match read_file w Z0 rde (Some file) with
        | Some r -> Printf.sprintf "st_w=0 st_r=0 n=%x vals=%s file=%s" (List.length r) (sl r) (sl file)
        | None -> "st_r=-2"
      end
    | _ -> failwith "rw")

(* ---------------- C18 ---------------- *)
let () =
  reg "cdset" (fun a -> match a with
    | [ty; mode; x; r; p; s_; dims] ->
      let ty = z_of_hex ty in
      let old = if mode = "-" then [] else err_words (z_of_hex mode) (z_of_hex x) (z_of_hex r) (z_of_hex p) (z_of_hex s_) in
      let d = Array.of_list (zlist_of_string dims) in
      let g i = if i < Array.length d then d.(i) else Z0 in
      let cd = set_local ty old (g 0) (g 1) (g 2) (g 3) (g 4) in
      let ((dim, dty), t) = decode_cd cd in
      let ((((r5, r4), r3), r2), r1) = t in
      let we = with_err cd in
      let base = Printf.sprintf "%scd=%s we=%d dim=%s ty=%s r=%s,%s,%s,%s,%s"
          (if old = [] then "" else "err=" ^ sl old ^ " ") (sl cd) (if we then 1 else 0) (hz dim) (hz dty) (hz r5) (hz r4) (hz r3) (hz r2) (hz r1) in
      if we then begin
        let (m, (((da, dr), dp), dsn)) = decode_err cd in
        base ^ Printf.sprintf " mode=%s dbl=%s,%s,%s,%s" (hz m) (hz da) (hz dr) (hz dp) (hz dsn)
      end else base
    | _ -> failwith "cdset");
  reg "cdcopy" (fun a -> match a with
    | [ty; dims] ->
      let (r5, r4, r3, r2, r1) = dims5 dims in
      let cd = copymeta_cd (z_of_hex ty) r5 r4 r3 r2 r1 in
      let ((dim, dty), t) = decode_cd cd in
      let ((((q5, q4), q3), q2), q1) = t in
      Printf.sprintf "cd=%s dim=%s ty=%s r=%s,%s,%s,%s,%s" (sl cd) (hz dim) (hz dty) (hz q5) (hz q4) (hz q3) (hz q2) (hz q1)
    | _ -> failwith "cdcopy")

(* ---------------- C14 ---------------- *)
let () =
  reg "tr" (fun a -> match a with
    | [_ty; dims; vals] ->
      let (_r5, r4, r3, r2, r1) = dims5 dims in
      let l = zlist_of_string vals in
      let dim = z_of_int (if r2 = Z0 then 1 else if r3 = Z0 then 2 else if r4 = Z0 then 3 else 4) in
      let t = transpose dim r4 r3 r2 r1 l in
      Printf.sprintf "tr=%s back=%s" (String.concat "," (List.map hz t)) (String.concat "," (List.map hz (detranspose dim r4 r3 r2 r1 t)))
    | _ -> failwith "tr")

(* ---------------- C12 ---------------- *)
let () =
  reg "lz" (fun a -> match a with
    | [be; level; spec] ->
      let n = (match String.split_on_char ':' spec with
          | ["z"; n] -> int_of_string ("0x" ^ n)
          | [_; _; n] -> int_of_string ("0x" ^ n)
          | ["x"; l] -> List.length (zlist_of_string l)
          | _ -> failwith "spec") in
      let sched = chunk_schedule (z_of_int n) in
      let last = (match List.rev sched with (av, fin) :: _ -> Printf.sprintf "%s/%b" (hz av) fin | [] -> "-") in
      let head = if be = "0" then (let (c, f) = zlib_header (z_of_hex level) in Printf.sprintf "%s,%s" (hz c) (hz f)) else "28,b5,2f,fd" in
      Printf.sprintf "n=%x chunks=%x last=%s head=%s sniff=%s rt=1 dsize_ok=1" n (List.length sched) last head be
    | _ -> failwith "lz");
  reg "sniff" (fun a -> match a with
    | [bytes] -> let b = zlist_of_string bytes in
      (match sniff starts_with_magic b with Zneg _ -> "sniff=-1" | z -> "sniff=" ^ hz z)
    | _ -> failwith "sniff")

(* ---------------- C16 ---------------- *)
let () =
  let fields st = String.concat "," (List.map hz (state_fields st)) in
  (* conf f <key=K:value;...>  (keys already lower-cased "section:key"; K in S,I,D,F)  |  conf p <26 fields>  |  conf m *)
  reg "conf" (fun a -> match a with
    | ["f"; toks] ->
      let kv = if toks = "_" then [] else List.map (fun t ->
          let i = String.index t '=' in
          let k = String.sub t 0 i and v = String.sub t (i + 1) (String.length t - i - 1) in
          let body = String.sub v 2 (String.length v - 2) in
          let value = (match v.[0] with
              | 'S' -> VS (coq_string_of body) | 'I' -> VI (z_of_hex body) | 'D' -> VD (z_of_hex body) | 'F' -> VF (z_of_hex body)
              | _ -> failwith "token") in
          (coq_string_of k, value)) (String.split_on_char ';' toks) in
      (match read_conf kv with Some st -> "ret=0 fields=" ^ fields st | None -> "ret=-1")
    | ["p"; fl] ->
      (match zlist_of_string fl with
       | [a0;a1;a2;a3;a4;a5;a6;a7;a8;a9;a10;a11;a12;a13;a14;a15;a16;a17;a18;a19;a20;a21;a22;a23;a24;a25] ->
         let p = { dataEndianType = a0; sol_ID = a1; max_quant_intervals = a2; quantization_intervals = a3; maxRangeRadius = a4;
                   predThreshold = a5; sampleDistance = a6; szMode = a7; losslessCompressor = a8; withRegression = a9; gzipMode = a10;
                   protectValueRange = a11; randomAccess = a12; snapshotCmprStep = a13; errorBoundMode = a14; absErrBound = a15;
                   relBoundRatio = a16; psnr = a17; normErr = a18; pw_relBoundRatio = a19; segment_size = a20; accelerate_pw_rel = a21;
                   pwr_type = a22; optQuantMode = a23; intvCapacity = a24; intvRadius = a25 } in
         (match init_params p with Some st -> "ret=0 fields=" ^ fields st | None -> "ret=-1")
       | _ -> failwith "conf p")
    | ["m"] -> "ret=-1"
    | _ -> failwith "conf")

(* ---------------- C06 ---------------- *)
let () =
  reg "meta" (fun a -> match a with
    | [hdr] ->
      let m = get_metadata (zlist_of_string hdr) in
      let v = m.m_view in
      (* re-encode the decoded block with the model's writer: must give back the implementation's bytes *)
      let bytes = zlist_of_string hdr in
      let flag = List.nth bytes 4 in
      let md = int_of_z v.v_ebMode in
      let pb : pblock = { pb_optQuantMode = v.v_optQuantMode; dataEnd = v.v_dataEnd; sysEnd = z_of_int ((int_of_z flag / 16) mod 2); pb_szMode = v.v_szMode;
                 pb_gzipMode = v.v_gzipMode; pb_sampleDistance = v.v_sampleDistance; predThr = v.v_predThr; ebMode = v.v_ebMode; dataType = v.v_dataType;
                 absF = v.v_b6; relF = (if md = 13 || md = 14 then v.v_b6 else v.v_b10); psnrF = v.v_b6; pwrF = v.v_b10; solID = v.v_sol;
                 maxQ = v.v_intervals; quantI = v.v_intervals; fminB = v.v_min; fmaxB = v.v_max; dminB = v.v_min; dmaxB = v.v_max } in
      let enc = encode_params pb in
      let plen = if int_of_z v.v_dataType = 1 then 36 else 28 in
      let reenc = list_take plen (force enc) = list_take plen (list_drop 4 bytes) in
      Printf.sprintf "const=%s lossless=%s st=%s len=%s ty=%s mode=%s b6=%s b10=%s szmode=%s reenc=%d written=%d" (hz m.m_const) (hz m.m_lossless) (hz m.m_sizeType)
        (hz m.m_length) (hz v.v_dataType) (hz v.v_ebMode) (hz v.v_b6) (hz v.v_b10) (hz v.v_szMode) (if reenc then 1 else 0) (if all_written enc then 1 else 0)
    | _ -> failwith "meta")

(* ---------------- C03 ---------------- *)
let () =
  (* intk <type 2..9> <dims slowest first, size-1 dims removed> <e> <cap> <values as bit patterns> *)
  reg "intk" (fun a -> match a with
    | [ty; dims; e; cap; vals] ->
      let tyz = z_of_hex ty in
      let t = ity_of tyz in
      let w = nat_of_int (match int_of_z tyz with 2 | 3 -> 1 | 4 | 5 -> 2 | 6 | 7 -> 4 | _ -> 8) in
      let sg = (match int_of_z tyz with 3 | 5 | 7 | 9 -> true | _ -> false) in
      let xs = List.map (fun u -> if sg then to_signed w u else u) (zlist_of_string vals) in
      let ((rs, ev), unp) = recon_array (z_of_hex e) (z_of_hex cap) t (zlist_of_string dims) xs in
      Printf.sprintf "ev=%d unpred=%s recon=%s" (if ev then 1 else 0) (hz unp) (sl (List.map (fun r -> if sg then to_unsigned w r else r) rs))
    | _ -> failwith "intk")

(* ---------------- C01 ---------------- *)
let () =
  (* fk1 / dk1 <abs bound as double bits> <intervals> <values as bit patterns>: 1-D SZ-1.4 kernel *)
  let show ((((rs, nex), (((nz, mir), okp), oke)), req), med) =
    Printf.sprintf "unpred=%s nz=%d mirror=%d okpred=%d okexact=%d req=%s median=%s recon=%s" (hz nex)
      (if nz then 1 else 0) (if mir then 1 else 0) (if okp then 1 else 0) (if oke then 1 else 0) (hz req) (hz med) (sl rs) in
  reg "fk1" (fun a -> match a with
    | [e; iv; vals] -> show (frun1 (z_of_hex e) (z_of_hex iv) (zlist_of_string vals))
    | _ -> failwith "fk1");
  reg "fk2" (fun a -> match a with
    | [e; iv; r2; vals] -> show (frun2 (z_of_hex e) (z_of_hex iv) (nat_of_int (int_of_string ("0x" ^ r2))) (zlist_of_string vals))
                           ^ (if frun_ctxok (z_of_hex e) (z_of_hex iv) (zlist_of_string vals) then " ctxok=1" else " ctxok=0")
    | _ -> failwith "fk2");
  reg "fk3" (fun a -> match a with
    | [e; iv; r2; r3; vals] -> show (frun3 (z_of_hex e) (z_of_hex iv) (nat_of_int (int_of_string ("0x" ^ r2))) (nat_of_int (int_of_string ("0x" ^ r3))) (zlist_of_string vals))
                               ^ (if frun_ctxok (z_of_hex e) (z_of_hex iv) (zlist_of_string vals) then " ctxok=1" else " ctxok=0")
    | _ -> failwith "fk3");
  reg "dk1" (fun a -> match a with
    | [e; iv; vals] -> show (drun1 (z_of_hex e) (z_of_hex iv) (zlist_of_string vals))
    | _ -> failwith "dk1")

(* ---------------- C05 ---------------- *)
let () =
  (* hist <qi> <mrr> <k.x.y/k.x.y/...>: exe_params after every operation of the history *)
  reg "hist" (fun a -> match a with
    | [qi; mrr; ops] ->
      let h = if ops = "_" then [] else List.map (fun t -> match String.split_on_char '.' t with
          | [k; x; y] -> ((z_of_hex k, z_of_hex x), z_of_hex y) | _ -> failwith "hist op") (String.split_on_char '/' ops) in
      "exe=" ^ String.concat "|" (List.map (fun l -> String.concat "," (List.map hz l)) (hist_exes (z_of_hex qi) (z_of_hex mrr) h))
    | _ -> failwith "hist")

(* ---------------- C17 ---------------- *)
let () =
  (* tsm <type 0|1> <n> <t.tiny.const.raw.e64.intervals.v,v,v/...> [1 = value-range protection]: reconstructions handed out per step, final history, flags *)
  reg "tsm" (fun a -> match a with
    | ty :: n :: steps :: rest ->
      let protect = (rest = ["1"]) in
      let b s = (s = "1") in
      let rs = List.map (fun t -> match String.split_on_char '.' t with
          | [t; ti; co; ra; e; iv; d] -> ((((((b t, b ti), b co), b ra), z_of_hex e), z_of_hex iv), zlist_of_string d)
          | _ -> failwith "tsm step") (String.split_on_char '/' steps) in
      let nn = nat_of_int (int_of_string ("0x" ^ n)) in
      let (((recs, hf), (lock, bound)), self) = if ty = "0" then ts_run_f nn rs else ts_run_d nn rs in
      let recs = if ty = "0" then ts_out_f protect rs recs else ts_out_d protect rs recs in
      Printf.sprintf "rec=%s hist=%s lock=%d bound=%d self=%d" (String.concat "/" (List.map sl recs)) (sl hf)
        (if lock then 1 else 0) (if bound then 1 else 0) (if self then 1 else 0)
    | _ -> failwith "tsm");
  reg "tsres" (fun a -> match a with
    | [c; st; per] -> if resolve (z_of_hex c) (z_of_hex st) (z_of_hex per) then "1" else "0"
    | _ -> failwith "tsres")

(* ---------------- C15 ---------------- *)
let () =
  (* thrm <thread/thread/...> <sched>: thread = block;block;... block = k.g.v,k.g.v,... ("-" = empty block) -> values read per thread *)
  reg "thrm" (fun a -> match a with
    | [progs; sched] ->
      let act t = (match String.split_on_char '.' t with [k; g; v] -> ((z_of_hex k, z_of_hex g), z_of_hex v) | _ -> failwith "thrm action") in
      let blk b = if b = "-" then [] else List.map act (String.split_on_char ',' b) in
      let thr t = if t = "_" then [] else List.map blk (String.split_on_char ';' t) in
      let ps = List.map thr (String.split_on_char '/' progs) in
      let sc = if sched = "_" then [] else List.map z_of_hex (String.split_on_char ',' sched) in
      "obs=" ^ String.concat "/" (List.map (fun l -> if l = [] then "_" else sl l) (run_threads ps sc))
    | _ -> failwith "thrm")

(* ---------------- C10 ---------------- *)
let () =
  reg "ledger" (fun a -> match a with
    | [codes] -> "lib=" ^ sl (ledger_trace (zlist_of_string codes))
    | _ -> failwith "ledger")

let () =
  (try
    while true do
      let line = input_line stdin in
      let line = String.trim line in
      if line <> "" && line.[0] <> '#' then begin
        match String.split_on_char ' ' line with
        | op :: args ->
          let out =
            (match Hashtbl.find_opt ops op with
             | None -> "ERR unknown-op"
             | Some f -> (try f args with Failure m -> "ERR " ^ m | Not_found -> "ERR notfound"
                                         | Stack_overflow -> "ERR stack")) in
          print_string out; print_char '\n'
        | [] -> ()
      end
    done
  with End_of_file -> ())
