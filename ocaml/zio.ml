(* I/O glue between text case files and the extracted Coq datatypes (Z, positive, nat).
   Numbers are hexadecimal, optionally preceded by '-'; lists are comma separated, "_" is
   the empty list.  Nothing here is part of the model. *)
open Szm
type string = Stdlib.String.t   (* the extracted Coq string type is Szm.string *)

let rec pos_of_bits (bits : bool list) : positive option =
  (* bits: least significant first *)
  match bits with
  | [] -> None
  | b :: rest ->
    (match pos_of_bits rest with
     | None -> if b then Some XH else None
     | Some p -> Some (if b then XI p else XO p))

let z_of_hex (s : string) : z =
  let neg = String.length s > 0 && s.[0] = '-' in
  let s = if neg then String.sub s 1 (String.length s - 1) else s in
  let bits = ref [] in
  (* most significant digit first -> build LSB-first list *)
  String.iter (fun c ->
      let d = match c with
        | '0'..'9' -> Char.code c - 48
        | 'a'..'f' -> Char.code c - 87
        | 'A'..'F' -> Char.code c - 55
        | _ -> failwith ("bad hex digit in " ^ s) in
      bits := (d land 1 <> 0) :: (d land 2 <> 0) :: (d land 4 <> 0) :: (d land 8 <> 0) :: !bits
    ) s;
  (* !bits currently: last digit's bits first (LSB of whole number first)?  we consed each
     digit's [b0;b1;b2;b3] in front, so the final list starts with the LAST digit's b0: LSB first. *)
  match pos_of_bits !bits with
  | None -> Z0
  | Some p -> if neg then Zneg p else Zpos p

let rec bits_of_pos (p : positive) : bool list =
  match p with XH -> [true] | XO q -> false :: bits_of_pos q | XI q -> true :: bits_of_pos q

let hex_of_pos (p : positive) : string =
  let bits = Array.of_list (bits_of_pos p) in
  let n = Array.length bits in
  let nd = (n + 3) / 4 in
  let b = Bytes.make nd '0' in
  for d = 0 to nd - 1 do
    let v = ref 0 in
    for j = 0 to 3 do
      let i = d * 4 + j in
      if i < n && bits.(i) then v := !v lor (1 lsl j)
    done;
    Bytes.set b (nd - 1 - d) "0123456789abcdef".[!v]
  done;
  Bytes.to_string b

let hex_of_z (x : z) : string =
  match x with Z0 -> "0" | Zpos p -> hex_of_pos p | Zneg p -> "-" ^ hex_of_pos p

let rec nat_of_int (n : int) : nat = if n <= 0 then O else S (nat_of_int (n - 1))
let rec int_of_nat (n : nat) : int = match n with O -> 0 | S m -> 1 + int_of_nat m

let int_of_z (x : z) : int = int_of_string ("0x" ^ (match x with Z0 -> "0" | Zpos p -> hex_of_pos p | Zneg _ -> failwith "neg"))
let z_of_int (n : int) : z = z_of_hex (if n < 0 then Printf.sprintf "-%x" (-n) else Printf.sprintf "%x" n)

let zlist_of_string (s : string) : z list =
  if s = "_" || s = "" then [] else List.map z_of_hex (String.split_on_char ',' s)
let string_of_zlist (l : z list) : string =
  if l = [] then "_" else String.concat "," (List.map hex_of_z l)
let nat_of_hex s = nat_of_int (int_of_string ("0x" ^ s))

(* OCaml string <-> extracted Coq string (list of Ascii of 8 booleans, least significant first) *)
let coq_string_of (s : string) : Szm.string =
  let n = String.length s in
  let rec go i = if i >= n then EmptyString else
      let c = Char.code s.[i] in
      let b k = (c lsr k) land 1 = 1 in
      String (Ascii (b 0, b 1, b 2, b 3, b 4, b 5, b 6, b 7), go (i + 1)) in
  go 0
