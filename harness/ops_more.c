/* further operations of szimpl (one block per property) */
#include <stdio.h>
#include <stdlib.h>
#include <string.h>
#include <inttypes.h>
#include "sz.h"
#include "szimpl.h"

void harness_init(void)
{
	SZ_Init(NULL);
}

struct op more_ops[] = {
	{NULL, NULL}
};
