/* further operations of szimpl (one block per property) */
#include <stdio.h>
#include <stdlib.h>
#include <string.h>
#include <inttypes.h>
#include <math.h>
#include <unistd.h>
#include "sz.h"
#include "szimpl.h"

static char cfg_path[512];

void harness_init(void)
{
	const char* dir = getenv("SZV_TMP");
	snprintf(cfg_path, sizeof cfg_path, "%s/szv-%d.config", dir ? dir : "/var/tmp", (int)getpid());
	SZ_Init(NULL);
}

/* (re)initialise the library from a configuration given as "key=value;key=value" ("-" = defaults).
 * The text is written to a real configuration file and loaded through SZ_Init(path). */
static const char* cfg_defaults[][2] = {
	{"max_quant_intervals", "65536"}, {"quantization_intervals", "0"}, {"predThreshold", "0.99"}, {"sampleDistance", "100"},
	{"szMode", "SZ_BEST_COMPRESSION"}, {"losslessCompressor", "ZSTD_COMPRESSOR"}, {"gzipMode", "Gzip_BEST_SPEED"},
	{"zstdMode", "Zstd_HIGH_SPEED"}, {"protectValueRange", "NO"}, {"errorBoundMode", "ABS"}, {"absErrBound", "1E-4"},
	{"relBoundRatio", "1E-4"}, {"psnr", "90"}, {"normErr", "0.05"}, {"pw_relBoundRatio", "1E-3"}, {"segment_size", "36"},
	{"accelerate_pw_rel_compression", "1"}, {"withLinearRegression", "YES"}, {"snapshotCmprStep", "5"}, {"pwr_type", "MIN"},
	{NULL, NULL}
};

int init_from_cfg(const char* cfg)
{
	SZ_Finalize();
	if (!strcmp(cfg, "-")) return SZ_Init(NULL);
	FILE* f = fopen(cfg_path, "w");
	char* s = strdup(cfg); char* save;
	char* keys[64]; char* vals[64]; int nk = 0;
	const char* sol = "SZ"; const char* endian = "LITTLE_ENDIAN_DATA";
	for (char* t = strtok_r(s, ";", &save); t && nk < 64; t = strtok_r(NULL, ";", &save)) {
		char* eq = strchr(t, '='); if (!eq) continue; *eq = 0;
		if (!strcmp(t, "sol_name")) { sol = eq + 1; continue; }
		if (!strcmp(t, "dataEndianType")) { endian = eq + 1; continue; }
		keys[nk] = t; vals[nk] = eq + 1; nk++;
	}
	fprintf(f, "[ENV]\ndataEndianType = %s\nsol_name = %s\n[PARAMETER]\n", endian, sol);
	for (int d = 0; cfg_defaults[d][0]; d++) {
		const char* v = cfg_defaults[d][1];
		for (int i = 0; i < nk; i++) if (!strcmp(keys[i], cfg_defaults[d][0])) v = vals[i];
		fprintf(f, "%s = %s\n", cfg_defaults[d][0], v);
	}
	for (int i = 0; i < nk; i++) {
		int known = 0; for (int d = 0; cfg_defaults[d][0]; d++) if (!strcmp(keys[i], cfg_defaults[d][0])) known = 1;
		if (!known) fprintf(f, "%s = %s\n", keys[i], vals[i]);
	}
	free(s); fclose(f);
	int r = SZ_Init(cfg_path);
	unlink(cfg_path);
	if (r != SZ_SCES) { SZ_Finalize(); SZ_Init(NULL); }
	return r;
}

int elem_size(int ty) { switch (ty) { case SZ_FLOAT: return 4; case SZ_DOUBLE: return 8; case SZ_UINT8: case SZ_INT8: return 1; case SZ_UINT16: case SZ_INT16: return 2; case SZ_UINT32: case SZ_INT32: return 4; default: return 8; } }
static int is_signed(int ty) { return ty == SZ_INT8 || ty == SZ_INT16 || ty == SZ_INT32 || ty == SZ_INT64; }

static uint64_t lcg(uint64_t* s) { *s = *s * 6364136223846793005ULL + 1442695040888963407ULL; return *s >> 11; }
static double urand(uint64_t* s) { return (double)(lcg(s) & ((1ULL << 52) - 1)) / (double)(1ULL << 52); }

/* data spec:  x:<hex list of bit patterns>   or   g:<kind>:<seed>:<n>:<scale bits>:<offset bits>
 * kinds: 0 smooth sine, 1 uniform noise, 2 random walk, 3 constant blocks, 4 spiky, 5 alternating two values, 6 constant */
void* make_data(const char* spec, int ty, size_t* n_out)
{
	int es = elem_size(ty); size_t n; unsigned char* buf;
	if (spec[0] == 'x') {
		uint64_t* l; n = parse_list(spec + 2, &l);
		buf = (unsigned char*)malloc(n * es + 8);
		for (size_t i = 0; i < n; i++) memcpy(buf + i * es, &l[i], es);   /* little-endian host */
		free(l);
	} else {
		int kind; uint64_t seed, sb, ob; unsigned long nn;
		sscanf(spec + 2, "%d:%" SCNx64 ":%lx:%" SCNx64 ":%" SCNx64, &kind, &seed, &nn, &sb, &ob);
		n = nn; double scale, off; memcpy(&scale, &sb, 8); memcpy(&off, &ob, 8);
		double k8 = off; if (kind == 8) off = 0;     /* kind 8 uses the offset field for its own parameters */
		buf = (unsigned char*)malloc(n * es + 8);
		uint64_t s = seed * 2654435761ULL + 12345; double w = 0;
		for (size_t i = 0; i < n; i++) {
			double v;
			switch (kind) {
			case 0: v = sin((double)i * 0.05 + (double)(seed % 7)) + 0.3 * sin((double)i * 0.31); break;
			case 1: v = urand(&s) * 2 - 1; break;
			case 2: w += (urand(&s) - 0.5) * 0.1; v = w; break;
			case 3: v = (double)((i / 37) % 5) * 0.25; break;
			case 4: v = (lcg(&s) % 50 == 0) ? (urand(&s) * 2 - 1) * 100.0 : sin((double)i * 0.02); break;
			case 5: v = (i & 1) ? 1.0 : 0.0; break;
			case 7: v = (urand(&s) < 0.5 ? -1.0 : 1.0) * ldexp(1.0 + urand(&s), (int)(urand(&s) * 40) - 20); break;   /* random sign, mantissa and 40 binades: nothing to predict, nothing to share */
			case 8: /* one background value with a ripple well below one unit; one element in fifty dips or spikes by a whole number (1..70) of units:
			           with a bound of one unit (= scale) the dense-value paths of the kernels and every quantisation code up to the edge get used */
				v = 1000.0 + 0.2 * sin((double)i * 0.37);
				{
					/* off (otherwise unused here) = density * 2^20 + stride of the slowest dimension: the regression kernels work in blocks of 6 and
					 * handle a block's last plane in a separate copy of the loop, so that plane gets three times its share of the outliers; depths sit
					 * mostly just inside the edge of a 32- or 64-interval code range */
					size_t dens = k8 >= 1048576.0 ? (size_t)(k8 / 1048576.0) : 50, stride = k8 >= 1048576.0 ? (size_t)fmod(k8, 1048576.0) : 0;
					int last = stride ? ((i / stride) % 6 == 5) : 0;
					if (lcg(&s) % (last ? (dens + 2) / 3 : dens) == 0) {
						static const double edge[] = { 29, 30, 31, 61, 62, 63, 28, 32, 60, 64 };
						double m = (lcg(&s) % 4) ? edge[lcg(&s) % 10] : (double)(1 + lcg(&s) % 70);
						v += (lcg(&s) % 3) ? -m : m;
					}
				}
				break;
			default: v = 1.0; break;
			}
			v = v * scale + off;
			if (ty == SZ_FLOAT) { float f = (float)v; memcpy(buf + i * 4, &f, 4); }
			else if (ty == SZ_DOUBLE) { memcpy(buf + i * 8, &v, 8); }
			else {
				/* integers: clamp to the type's range */
				double lo, hi; int b = es * 8;
				if (is_signed(ty)) { lo = -ldexp(1.0, b - 1); hi = ldexp(1.0, b - 1) - 1; } else { lo = 0; hi = ldexp(1.0, b) - 1; }
				if (v < lo) v = lo; if (v > hi) v = hi;
				if (is_signed(ty)) { int64_t z = (v >= 9.2233720368547748e18) ? INT64_MAX : (int64_t)v; memcpy(buf + i * es, &z, es); }
				else { uint64_t z = (v >= 1.8446744073709550e19) ? UINT64_MAX : (uint64_t)v; memcpy(buf + i * es, &z, es); }
			}
		}
	}
	*n_out = n; return buf;
}

void parse_dims(const char* s, size_t r[5])
{
	uint64_t* l; size_t n = parse_list(s, &l);
	for (int i = 0; i < 5; i++) r[i] = (i < (int)n) ? (size_t)l[i] : 0;   /* order r5,r4,r3,r2,r1 */
	free(l);
}

static double dbl_of_bits(const char* s) { uint64_t b = hx(s); double d; memcpy(&d, &b, 8); return d; }
static uint64_t bits_of_dbl(double d) { uint64_t b; memcpy(&b, &d, 8); return b; }

/* error statistics "in the element type's arithmetic" */

double effective_bound(int ty, const void* data, size_t n, int mode, double absb, double rel, double* minv, double* maxv)
{
	double mn = 0, mx = 0, range = 0;
	if (ty == SZ_FLOAT) { const float* d = data; float a = d[0], b = d[0]; for (size_t i = 1; i < n; i++) { if (d[i] < a) a = d[i]; if (d[i] > b) b = d[i]; } mn = a; mx = b; range = (double)(float)(b - a); }
	else if (ty == SZ_DOUBLE) { const double* d = data; double a = d[0], b = d[0]; for (size_t i = 1; i < n; i++) { if (d[i] < a) a = d[i]; if (d[i] > b) b = d[i]; } mn = a; mx = b; range = b - a; }
	else {
		int es = elem_size(ty); long double a = 0, b = 0;
		for (size_t i = 0; i < n; i++) {
			long double v;
			if (is_signed(ty)) { int64_t z = 0; memcpy(&z, (const char*)data + i * es, es); if (es < 8) { int sh = 64 - 8 * es; z = (int64_t)((uint64_t)z << sh) >> sh; } v = z; }
			else { uint64_t z = 0; memcpy(&z, (const char*)data + i * es, es); v = z; }
			if (i == 0 || v < a) a = v; if (i == 0 || v > b) b = v;
		}
		mn = (double)a; mx = (double)b; range = (double)(b - a);
	}
	*minv = mn; *maxv = mx;
	switch (mode) {
	case ABS: return absb;
	case REL: return rel * range;
	case ABS_AND_REL: return absb < rel * range ? absb : rel * range;
	case ABS_OR_REL: return absb > rel * range ? absb : rel * range;
	default: return absb;
	}
}

void err_stats(int ty, const void* ori, const void* dec, size_t n, double e, double mn, double mx, struct errstat* st)
{
	st->viol = 0; st->first = (size_t)-1; st->maxerr = 0; st->outside = 0; st->amax = 0;
	int es = elem_size(ty);
	for (size_t i = 0; i < n; i++) {
		double err; int bad;
		if (ty == SZ_FLOAT) { float a = ((const float*)ori)[i], b = ((const float*)dec)[i]; float d = fabsf(a - b); if (fabsf(a) > st->amax) st->amax = fabsf(a); err = d; bad = !((double)d <= e); if (b < (float)mn || b > (float)mx) st->outside++; }
		else if (ty == SZ_DOUBLE) { double a = ((const double*)ori)[i], b = ((const double*)dec)[i]; double d = fabs(a - b); if (fabs(a) > st->amax) st->amax = fabs(a); err = d; bad = !(d <= e); if (b < mn || b > mx) st->outside++; }
		else {
			long double a, b;
			if (is_signed(ty)) { int64_t z = 0, y = 0; memcpy(&z, (const char*)ori + i * es, es); memcpy(&y, (const char*)dec + i * es, es); if (es < 8) { int sh = 64 - 8 * es; z = (int64_t)((uint64_t)z << sh) >> sh; y = (int64_t)((uint64_t)y << sh) >> sh; } a = z; b = y; }
			else { uint64_t z = 0, y = 0; memcpy(&z, (const char*)ori + i * es, es); memcpy(&y, (const char*)dec + i * es, es); a = z; b = y; }
			long double d = a > b ? a - b : b - a; err = (double)d; bad = !(d <= (long double)e);
		}
		if (bad) { if (!st->viol) st->first = i; st->viol++; }
		if (err > st->maxerr || err != err) st->maxerr = err;
	}
}

/* rt / rtr:  <type> <cdims> <ddims> <mode> <abs bits> <rel bits> <pwr bits> <cfg> <data>
 * compress with cdims, decompress with ddims (both "r5,r4,r3,r2,r1"), report sizes and error statistics;
 * rtr additionally prints the reconstruction and the stream. */
static void do_rt(int argc, char** a, int with_recon)
{
	int ty = (int)hx(a[0]); size_t cr[5], dr[5]; parse_dims(a[1], cr); parse_dims(a[2], dr);
	int mode = (int)hx(a[3]); double absb = dbl_of_bits(a[4]), rel = dbl_of_bits(a[5]), pwr = dbl_of_bits(a[6]);
	if (init_from_cfg(a[7]) != SZ_SCES) { printf("st=init-failed\n"); return; }
	size_t n; void* data = make_data(a[8], ty, &n);
	int es = elem_size(ty);
	void* copy = malloc(n * es + 8); memcpy(copy, data, n * es);
	size_t outSize = 0;
	{ /* what the request means, printed before the library is entered so that it survives a crash (partial line) */
		double mn0, mx0; double e0 = n ? effective_bound(ty, copy, n, mode, absb, rel, &mn0, &mx0) : 0; double am = fabs(mn0) > fabs(mx0) ? fabs(mn0) : fabs(mx0);
		printf("pe=%" PRIx64 " pamax=%" PRIx64 " ", bits_of_dbl(e0), bits_of_dbl(n ? am : 0)); fflush(R);
	}
	prime_stack();
	unsigned char* bytes = SZ_compress_args(ty, data, &outSize, mode, absb, rel, pwr, cr[0], cr[1], cr[2], cr[3], cr[4]);
	int input_modified = memcmp(copy, data, n * es) != 0;
	if (bytes == NULL) { printf("st=null out=%zx n=%zx\n", outSize, n); free(data); free(copy); return; }
	int lc = outSize >= 4 ? is_lossless_compressed_data(bytes, outSize) : -1;   /* -1 unwrapped, 0 zlib, 1 zstd */
	{ uint64_t h = 1469598103934665603ULL; for (size_t i = 0; i < outSize; i++) { h ^= bytes[i]; h *= 1099511628211ULL; } printf("out=%zx lc=%d sdig=%" PRIx64 " ", outSize, lc, h); }
	fflush(R);   /* survives a crash of the decompressor (partial line) */
	size_t dn = computeDataLength(dr[0], dr[1], dr[2], dr[3], dr[4]);
	prime_stack();
	void* dec = SZ_decompress(ty, bytes, outSize, dr[0], dr[1], dr[2], dr[3], dr[4]);
	if (dec == NULL) { printf("st=dec-null n=%zx\n", n); free(bytes); free(data); free(copy); return; }
	double mn, mx; double e = effective_bound(ty, copy, n, mode, absb, rel, &mn, &mx);
	struct errstat st; err_stats(ty, copy, dec, n < dn ? n : dn, e, mn, mx, &st);
	printf("st=ok n=%zx dn=%zx viol=%zx first=%zx maxerr=%" PRIx64 " e=%" PRIx64 " outside=%zx inmod=%d amax=%" PRIx64,
	       n, dn, st.viol, st.first == (size_t)-1 ? 0 : st.first, bits_of_dbl(st.maxerr), bits_of_dbl(e), st.outside, input_modified, bits_of_dbl(st.amax));
	{ uint64_t h = 1469598103934665603ULL; for (size_t i = 0; i < n * es; i++) { h ^= ((unsigned char*)dec)[i]; h *= 1099511628211ULL; } printf(" dig=%" PRIx64, h); }
	if (with_recon) {
		printf(" recon=");
		if (n == 0) printf("_");
		for (size_t i = 0; i < n; i++) { uint64_t v = 0; memcpy(&v, (char*)dec + i * es, es); printf(i ? ",%" PRIx64 : "%" PRIx64, v); }
		printf(" "); print_bytes("stream", bytes, outSize);
	}
	printf("\n");
	free(bytes); free(dec); free(data); free(copy);
}
static void op_rt(int argc, char** a) { do_rt(argc, a, 0); }
static void op_rtr(int argc, char** a) { do_rt(argc, a, 1); }

/* ---------- C09 ---------- */
static void op_fdim(int argc, char** a)
{
	size_t r[5]; parse_dims(a[0], r);
	size_t c[5] = {0xdead, 0xdead, 0xdead, 0xdead, 0xdead};
	int ret = filterDimension(r[0], r[1], r[2], r[3], r[4], c);
	printf("ret=%x c=%zx,%zx,%zx,%zx,%zx dim=%x len=%zx fdim=%x flen=%zx\n", ret, c[0], c[1], c[2], c[3], c[4],
	       computeDimension(r[0], r[1], r[2], r[3], r[4]), computeDataLength(r[0], r[1], r[2], r[3], r[4]),
	       computeDimension(c[4], c[3], c[2], c[1], c[0]), computeDataLength(c[4], c[3], c[2], c[1], c[0]));
}


/* ---------- C11 ---------- */
#include "Huffman.h"
/* huff <stateNum> <symbols> [<dataEndianType>]: encode_withTree / decode_withTree and the MSST19 pair */
static void op_huff(int argc, char** a)
{
	int stateNum = (int)hx(a[0]); uint64_t* l; size_t n = parse_list(a[1], &l);
	dataEndianType = argc > 2 ? (int)hx(a[2]) : LITTLE_ENDIAN_DATA;      /* the byte order declared for raw input files (configuration key dataEndianType): nothing of the coder depends on it */
	int* s = (int*)malloc((n + 1) * sizeof(int)); for (size_t i = 0; i < n; i++) s[i] = (int)l[i];
	unsigned char* out = NULL; size_t outSize = 0;
	HuffmanTree* t = createHuffmanTree(stateNum);
	encode_withTree(t, s, n, &out, &outSize);
	SZ_ReleaseHuffman(t);
	int* dec = (int*)malloc((n + 1) * sizeof(int)); memset(dec, 0xff, (n + 1) * sizeof(int));
	HuffmanTree* t2 = createHuffmanTree(stateNum);
	decode_withTree(t2, out, n, dec);
	SZ_ReleaseHuffman(t2);
	int ok1 = !memcmp(dec, s, n * sizeof(int));
	unsigned char* out2 = NULL; size_t outSize2 = 0;
	HuffmanTree* t3 = createHuffmanTree(stateNum);
	int maxBits = encode_withTree_MSST19(t3, s, n, &out2, &outSize2);
	SZ_ReleaseHuffman(t3);
	memset(dec, 0xff, (n + 1) * sizeof(int));
	HuffmanTree* t4 = createHuffmanTree(stateNum);
	decode_withTree_MSST19(t4, out2, n, dec, maxBits);
	SZ_ReleaseHuffman(t4);
	int ok2 = !memcmp(dec, s, n * sizeof(int));
	int same = outSize == outSize2 && !memcmp(out, out2, outSize);
	printf("size=%zx dec_ok=%d dec2_ok=%d same2=%d maxbits=%x ", outSize, ok1, ok2, same, maxBits);
	print_bytes("bytes", out, outSize); printf("\n");
	free(out); free(out2); free(dec); free(s); free(l);
}


/* ---------- C19 ---------- */
#include "rw.h"
#include <dirent.h>
#include <sys/resource.h>
static int count_fds(void) { int n = 0; DIR* d = opendir("/proc/self/fd"); if (!d) return -1; while (readdir(d)) n++; closedir(d); return n; }
static void* rw_read(int ty, char* path, size_t* cnt, int* st)
{
	switch (ty) {
	case SZ_FLOAT: return readFloatData(path, cnt, st);
	case SZ_DOUBLE: return readDoubleData(path, cnt, st);
	case SZ_UINT8: return readByteData(path, cnt, st);
	case SZ_INT8: return readInt8Data(path, cnt, st);
	case SZ_INT16: return readInt16Data(path, cnt, st);
	case SZ_UINT16: return readUInt16Data(path, cnt, st);
	case SZ_INT32: return readInt32Data(path, cnt, st);
	case SZ_UINT32: return readUInt32Data(path, cnt, st);
	case SZ_INT64: return readInt64Data(path, cnt, st);
	default: return readUInt64Data(path, cnt, st);
	}
}
/* rw <type 0..9> <dataEndianType> <mode> <values>
 * mode 0: library writer, then library reader (3: read repeatedly; 4, 5: the Fortran-callable readers); mode 1: a file with every element byte-swapped (written with
 * writeByteData), read with the opposite endianness declared; mode 2: reader on a missing file. */
static void op_rw(int argc, char** a)
{
	int ty = (int)hx(a[0]); int de = (int)hx(a[1]); int mode = (int)hx(a[2]);
	uint64_t* l; size_t n = parse_list(a[3], &l);
	int es = elem_size(ty);
	char path[600]; const char* dir = getenv("SZV_TMP"); snprintf(path, sizeof path, "%s/szv-rw-%d.bin", dir ? dir : "/var/tmp", (int)getpid());
	int saved = dataEndianType;
	unsigned char* buf = (unsigned char*)malloc(n * es + 8);
	for (size_t i = 0; i < n; i++) memcpy(buf + i * es, &l[i], es);
	int st_w = -99, st_r = -99;
	dataEndianType = de;
	int fds0 = count_fds();
	if (mode == 3) {
		/* the same file read again and again in a process that may hold few descriptors (a long-running writer/reader): every read must
		 * go on returning the written values */
		struct rlimit rl, old; getrlimit(RLIMIT_NOFILE, &old); rl = old; rl.rlim_cur = (rlim_t)(fds0 + 24); setrlimit(RLIMIT_NOFILE, &rl);
		int bad_iter = 0; size_t cnt = 0;
		writeByteData(buf, n * es, path, &st_w);
		dataEndianType = sysEndianType == de ? de : de;
		for (int it = 1; it <= 120 && !bad_iter; it++) {
			cnt = (size_t)-1; st_r = -99;
			void* r = rw_read(ty, path, &cnt, &st_r);
			int same = r != NULL && st_r == 0 && cnt == n;
			if (same && de == sysEndianType) same = memcmp(r, buf, n * es) == 0;
			if (!same) bad_iter = it;
			if (r) free(r);
		}
		setrlimit(RLIMIT_NOFILE, &old);
		dataEndianType = saved;
		printf("st_w=%d st_r=%d n=%zx iter=%d fds=%d\n", st_w, st_r, cnt, bad_iter, count_fds() - fds0);
		unlink(path); free(buf); free(l);
		return;
	}
	if (mode == 4 || mode == 5) {
		/* the Fortran-callable readers of rwf.c (bytes, float, double; path passed with its length): mode 4 on a file written by the binary writer,
		 * mode 5 on a missing file (they have no status argument: the count must come back 0 and nothing may crash) */
		int plen = (int)strlen(path); size_t cnt = n; void* out = calloc(n + 8, (size_t)es);
		if (mode == 4) { if (ty == SZ_FLOAT) writeFloatData_inBytes((float*)buf, n, path, &st_w); else if (ty == SZ_DOUBLE) writeDoubleData_inBytes((double*)buf, n, path, &st_w); else writeByteData(buf, n, path, &st_w); }
		else { unlink(path); st_w = 0; }
		dataEndianType = sysEndianType;
		if (ty == SZ_FLOAT) readfloatfile_(path, &plen, (float*)out, &cnt); else if (ty == SZ_DOUBLE) readdoublefile_(path, &plen, (double*)out, &cnt); else readbytefile_(path, &plen, (unsigned char*)out, &cnt);
		dataEndianType = saved;
		printf("st_w=%d st_r=0 n=%zx fds=%d vals=", st_w, cnt, count_fds() - fds0);
		if (cnt == 0) printf("_");
		else for (size_t i = 0; i < cnt && i < n; i++) { uint64_t v = 0; memcpy(&v, (char*)out + i * es, es); printf(i ? ",%" PRIx64 : "%" PRIx64, v); }
		printf(" file=_\n");
		unlink(path); free(buf); free(l); free(out);
		return;
	}
	if (mode == 0) {
		switch (ty) {
		case SZ_FLOAT: writeFloatData_inBytes((float*)buf, n, path, &st_w); break;
		case SZ_DOUBLE: writeDoubleData_inBytes((double*)buf, n, path, &st_w); break;
		case SZ_UINT8: case SZ_INT8: writeByteData(buf, n, path, &st_w); break;
		case SZ_INT16: writeShortData_inBytes((short*)buf, n, path, &st_w); break;
		case SZ_UINT16: writeUShortData_inBytes((unsigned short*)buf, n, path, &st_w); break;
		case SZ_INT32: writeIntData_inBytes((int*)buf, n, path, &st_w); break;
		case SZ_UINT32: writeUIntData_inBytes((unsigned int*)buf, n, path, &st_w); break;
		case SZ_INT64: writeLongData_inBytes((int64_t*)buf, n, path, &st_w); break;
		default: writeULongData_inBytes((uint64_t*)buf, n, path, &st_w); break;
		}
	} else if (mode == 1) {
		unsigned char* sw = (unsigned char*)malloc(n * es + 8);
		for (size_t i = 0; i < n; i++) for (int j = 0; j < es; j++) sw[i * es + j] = buf[i * es + (es - 1 - j)];
		writeByteData(sw, n * es, path, &st_w);
		free(sw);
		dataEndianType = 1 - sysEndianType;
	} else {
		unlink(path);
	}
	size_t fl = 0; int st_f = -99; unsigned char* file = (mode == 2) ? NULL : readByteData(path, &fl, &st_f);
	size_t cnt = (size_t)-1; void* r = NULL;
	r = rw_read(ty, path, &cnt, &st_r);
	dataEndianType = saved;
	if (mode == 2) { printf("st_r=%d null=%d fds=%d\n", st_r, r == NULL, count_fds() - fds0); return; }
	printf("st_w=%d st_r=%d n=%zx fds=%d vals=", st_w, st_r, cnt, count_fds() - fds0);
	if (cnt == 0 || r == NULL) printf("_");
	else for (size_t i = 0; i < cnt; i++) { uint64_t v = 0; memcpy(&v, (char*)r + i * es, es); printf(i ? ",%" PRIx64 : "%" PRIx64, v); }
	printf(" "); print_bytes("file", file, fl); printf("\n");
	unlink(path); free(buf); free(l); if (r) free(r); if (file) free(file);
}


/* ---------- C14 ---------- */
#include "szf.h"
/* tr <type: 0 float,1 double,4 uint16,5 int16> <dims r5..r1> <values>: transposeData, detransposeData */
static void op_tr(int argc, char** a)
{
	int ty = (int)hx(a[0]); size_t r[5]; parse_dims(a[1], r);
	size_t n; char spec[1 << 20]; snprintf(spec, sizeof spec, "x:%s", a[2]);
	void* data = make_data(spec, ty, &n); int es = elem_size(ty);
	void* t = transposeData(data, ty, r[0], r[1], r[2], r[3], r[4]);
	void* b = t ? detransposeData(t, ty, r[0], r[1], r[2], r[3], r[4]) : NULL;
	printf("tr="); for (size_t i = 0; i < n && t; i++) { uint64_t v = 0; memcpy(&v, (char*)t + i * es, es); printf(i ? ",%" PRIx64 : "%" PRIx64, v); }
	printf(" back="); for (size_t i = 0; i < n && b; i++) { uint64_t v = 0; memcpy(&v, (char*)b + i * es, es); printf(i ? ",%" PRIx64 : "%" PRIx64, v); }
	printf("\n"); free(data); if (t) free(t); if (b) free(b);
}

static const char* mode_name(int m) { switch (m) { case ABS: return "ABS"; case REL: return "REL"; case ABS_AND_REL: return "ABS_AND_REL"; case ABS_OR_REL: return "ABS_OR_REL"; default: return "ABS"; } }

/* ep <variant> <type> <dims> <mode> <abs bits> <rel bits> <cfg> <data>
 * runs the canonical pair SZ_compress_args/SZ_decompress and one other public entry point on the same array and
 * configuration; prints the status, the element count, whether the two reconstructions are bit-identical, and the
 * number of elements outside the bound for each. */
static void op_ep(int argc, char** a)
{
	int v = (int)hx(a[0]); int ty = (int)hx(a[1]); size_t r[5]; parse_dims(a[2], r);
	int mode = (int)hx(a[3]); double absb = dbl_of_bits(a[4]), rel = dbl_of_bits(a[5]);
	/* the configuration also carries the bound, for the entry points that take their defaults from it */
	char cfg[4096]; snprintf(cfg, sizeof cfg, "%s%serrorBoundMode=%s;absErrBound=%.17g;relBoundRatio=%.17g", strcmp(a[6], "-") ? a[6] : "", strcmp(a[6], "-") ? ";" : "", mode_name(mode), absb, rel);
	size_t n; void* data = make_data(a[7], ty, &n); int es = elem_size(ty);
	int dim = computeDimension(r[0], r[1], r[2], r[3], r[4]);
	if (v >= 20 && v <= 23 && ty == SZ_FLOAT && (v == 21 || v == 23)) { absb = (double)(float)absb; rel = (double)(float)rel; }
	/* canonical */
	if (init_from_cfg(cfg) != SZ_SCES) { printf("st=init-failed\n"); return; }
	size_t cs = 0; unsigned char* cb = SZ_compress_args(ty, data, &cs, mode, absb, rel, 0, r[0], r[1], r[2], r[3], r[4]);
	printf("out=%zx lc=%d ", cs, (cb && cs >= 4) ? is_lossless_compressed_data(cb, cs) : -1); fflush(R);
	void* cdec = cb ? SZ_decompress(ty, cb, cs, r[0], r[1], r[2], r[3], r[4]) : NULL;
	/* variant */
	if (init_from_cfg(cfg) != SZ_SCES) { printf("st=init-failed\n"); return; }
	size_t vs = 0; unsigned char* vb = NULL; void* vdec = NULL; int st1 = -99, st2 = -99; size_t cnt = n;
	sz_params para; memcpy(&para, confparams_cpr, sizeof para); para.errorBoundMode = mode; para.absErrBound = absb; para.relBoundRatio = rel;
	const char* names[] = {"SZ", "SZ2.0", "SZ2.1", "SZ1.4", "SZ_Transpose"};
	if (v == 1) { vb = SZ_compress(ty, data, &vs, r[0], r[1], r[2], r[3], r[4]); vdec = vb ? SZ_decompress(ty, vb, vs, r[0], r[1], r[2], r[3], r[4]) : NULL; st1 = st2 = 0; }
	else if (v == 2) {
		vb = (unsigned char*)malloc(n * es + 4096 + n);
		st1 = SZ_compress_args2(ty, data, vb, &vs, mode, absb, rel, 0, r[0], r[1], r[2], r[3], r[4]);
		vdec = malloc(n * es + 8); cnt = SZ_decompress_args(ty, vb, vs, vdec, r[0], r[1], r[2], r[3], r[4]); st2 = 0;
	}
	else if (v >= 4 && v <= 8) {
		vb = SZ_compress_customize(names[v - 4], NULL, ty, data, r[0], r[1], r[2], r[3], r[4], &vs, &st1);
		vdec = vb ? SZ_decompress_customize(names[v - 4], NULL, ty, vb, vs, r[0], r[1], r[2], r[3], r[4], &st2) : NULL;
	}
	else if (v >= 9 && v <= 13) {
		vb = SZ_compress_customize_threadsafe(names[v - 9], &para, ty, data, r[0], r[1], r[2], r[3], r[4], &vs, &st1);
		vdec = vb ? SZ_decompress_customize_threadsafe(names[v - 9], &para, ty, vb, vs, r[0], r[1], r[2], r[3], r[4], &st2) : NULL;
	}
	else if (v >= 20 && v <= 23) {
		/* Fortran-callable wrappers: 20 sz_compress_dN_T_, 21 sz_compress_dN_T_args_ ; decompression sz_decompress_dN_T_ */
		vb = (unsigned char*)malloc(n * es + 4096 + n); vdec = malloc(n * es + 8); st1 = st2 = 0;
		size_t r1 = r[4], r2 = r[3], r3 = r[2], r4 = r[1];
		if (ty == SZ_FLOAT) {
			float fa = (float)absb, fr = (float)rel; float* d = (float*)data;
			if (v == 20) { if (dim == 1) sz_compress_d1_float_(d, vb, &vs, &r1); else if (dim == 2) sz_compress_d2_float_(d, vb, &vs, &r1, &r2); else if (dim == 3) sz_compress_d3_float_(d, vb, &vs, &r1, &r2, &r3); else sz_compress_d4_float_(d, vb, &vs, &r1, &r2, &r3, &r4); }
			else { if (dim == 1) sz_compress_d1_float_args_(d, vb, &vs, &mode, &fa, &fr, &r1); else if (dim == 2) sz_compress_d2_float_args_(d, vb, &vs, &mode, &fa, &fr, &r1, &r2); else if (dim == 3) sz_compress_d3_float_args_(d, vb, &vs, &mode, &fa, &fr, &r1, &r2, &r3); else sz_compress_d4_float_args_(d, vb, &vs, &mode, &fa, &fr, &r1, &r2, &r3, &r4); }
			if (dim == 1) sz_decompress_d1_float_(vb, &vs, (float*)vdec, &r1); else if (dim == 2) sz_decompress_d2_float_(vb, &vs, (float*)vdec, &r1, &r2); else if (dim == 3) sz_decompress_d3_float_(vb, &vs, (float*)vdec, &r1, &r2, &r3); else sz_decompress_d4_float_(vb, &vs, (float*)vdec, &r1, &r2, &r3, &r4);
		} else {
			double* d = (double*)data;
			if (v == 20) { if (dim == 1) sz_compress_d1_double_(d, vb, &vs, &r1); else if (dim == 2) sz_compress_d2_double_(d, vb, &vs, &r1, &r2); else if (dim == 3) sz_compress_d3_double_(d, vb, &vs, &r1, &r2, &r3); else sz_compress_d4_double_(d, vb, &vs, &r1, &r2, &r3, &r4); }
			else { if (dim == 1) sz_compress_d1_double_args_(d, vb, &vs, &mode, &absb, &rel, &r1); else if (dim == 2) sz_compress_d2_double_args_(d, vb, &vs, &mode, &absb, &rel, &r1, &r2); else if (dim == 3) sz_compress_d3_double_args_(d, vb, &vs, &mode, &absb, &rel, &r1, &r2, &r3); else sz_compress_d4_double_args_(d, vb, &vs, &mode, &absb, &rel, &r1, &r2, &r3, &r4); }
			if (dim == 1) sz_decompress_d1_double_(vb, &vs, (double*)vdec, &r1); else if (dim == 2) sz_decompress_d2_double_(vb, &vs, (double*)vdec, &r1, &r2); else if (dim == 3) sz_decompress_d3_double_(vb, &vs, (double*)vdec, &r1, &r2, &r3); else sz_decompress_d4_double_(vb, &vs, (double*)vdec, &r1, &r2, &r3, &r4);
		}
	}
	if (vb && vs >= 4) { printf("vout=%zx vlc=%d ", vs, is_lossless_compressed_data(vb, vs)); fflush(R); }
	if (!cb || !cdec || !vb || !vdec) { printf("st=null c=%d v=%d st1=%d st2=%d\n", cb && cdec, vb && vdec, st1, st2); return; }
	double mn, mx; double e = effective_bound(ty, data, n, mode, absb, rel, &mn, &mx);
	struct errstat s1, s2; err_stats(ty, data, cdec, n, e, mn, mx, &s1); err_stats(ty, data, vdec, n, e, mn, mx, &s2);
	printf("st=ok st1=%d st2=%d n=%zx cnt=%zx same=%d samebytes=%d cviol=%zx viol=%zx first=%zx maxerr=%" PRIx64 " e=%" PRIx64 " amax=%" PRIx64 "\n", st1, st2, n, cnt,
	       !memcmp(cdec, vdec, n * es), cs == vs && !memcmp(cb, vb, cs), s1.viol, s2.viol, s2.first == (size_t)-1 ? 0 : s2.first, bits_of_dbl(s2.maxerr), bits_of_dbl(e), bits_of_dbl(s2.amax));
	free(cb); free(cdec); free(vb); free(vdec); free(data);
}


/* ---------- C12 ---------- */
static unsigned char* make_bytes(const char* spec, size_t* n_out)
{
	size_t n = 0; unsigned char* b;
	if (spec[0] == 'x') { uint64_t* l; n = parse_list(spec + 2, &l); b = (unsigned char*)malloc(n + 16); for (size_t i = 0; i < n; i++) b[i] = (unsigned char)l[i]; free(l); }
	else {
		uint64_t seed = 0; unsigned long nn = 0;
		if (spec[0] == 'z') sscanf(spec + 2, "%lx", &nn); else sscanf(spec + 2, "%" SCNx64 ":%lx", &seed, &nn);
		n = nn; b = (unsigned char*)malloc(n + 16); uint64_t s = seed * 2654435761ULL + 99;
		for (size_t i = 0; i < n; i++) {
			if (spec[0] == 'z') b[i] = 0;
			else if (spec[0] == 'r') b[i] = (unsigned char)(lcg(&s) >> 3);
			else if (spec[0] == 'p') b[i] = (unsigned char)((i % 37) * 7 + (lcg(&s) % 4 == 0 ? 1 : 0));
			else b[i] = (i < 3) ? (unsigned char)versionNumber[i] : (unsigned char)(lcg(&s) >> 5);   /* 's': SZ-like prefix */
		}
	}
	*n_out = n; return b;
}
/* lz <backend: 0 zlib, 1 zstd> <level> <bytes spec>: sz_lossless_compress, sniff, sz_lossless_decompress */
static void op_lz(int argc, char** a)
{
	int be = (int)hx(a[0]); int level = (int)shx(a[1]); size_t n; unsigned char* in = make_bytes(a[2], &n);
	unsigned char* c = NULL; uint64_t cs = sz_lossless_compress(be, level, in, n, &c);
	int sn = is_lossless_compressed_data(c, cs);
	printf("n=%zx csize=%" PRIx64 " head=%x,%x,%x,%x sniff=%d ", n, cs, cs > 0 ? c[0] : 0, cs > 1 ? c[1] : 0, cs > 2 ? c[2] : 0, cs > 3 ? c[3] : 0, sn); fflush(R);
	unsigned char* d = NULL; uint64_t ds = sz_lossless_decompress(be, c, cs, &d, n + 64);
	int same = d && !memcmp(d, in, n);
	printf("rt=%d dsize_ok=%d\n", same, be == 0 ? ds == n : ds == n + 64);
	free(in); free(c); if (d) free(d);
}
static void op_sniff(int argc, char** a)
{
	size_t n; char spec[1 << 16]; snprintf(spec, sizeof spec, "x:%s", a[0]); unsigned char* b = make_bytes(spec, &n);
	printf("sniff=%d\n", is_lossless_compressed_data(b, n)); free(b);
}


/* ---------- C16 ---------- */
static uint32_t fbits(float f) { uint32_t b; memcpy(&b, &f, 4); return b; }
static void print_state(int ret)
{
	if (ret != SZ_SCES) { printf("ret=-1"); return; }
	sz_params* c = confparams_cpr;
	printf("ret=0 fields=%x,%x,%x,%x,%x,%x,", dataEndianType, c->sol_ID, c->max_quant_intervals, c->quantization_intervals, c->maxRangeRadius, fbits(c->predThreshold));
	print_shex(c->sampleDistance); printf(",%x,%x,%x,", c->szMode, c->losslessCompressor, c->withRegression); print_shex(c->gzipMode);
	printf(",%x,", c->protectValueRange); print_shex(c->randomAccess); printf(","); print_shex(c->snapshotCmprStep); printf(",%x,", c->errorBoundMode);
	printf("%" PRIx64 ",%" PRIx64 ",%" PRIx64 ",%" PRIx64 ",%" PRIx64 ",", bits_of_dbl(c->absErrBound), bits_of_dbl(c->relBoundRatio), bits_of_dbl(c->psnr), bits_of_dbl(c->normErr), bits_of_dbl(c->pw_relBoundRatio));
	print_shex(c->segment_size); printf(","); print_shex(c->accelerate_pw_rel_compression); printf(",%x,%x,%x,%x", c->pwr_type, exe_params->optQuantMode, exe_params->intvCapacity, exe_params->intvRadius);
}
/* a fixed array compressed with the defaults just initialised: digest of the stream */
static void print_stream_digest(void)
{
	float d[600]; for (int i = 0; i < 600; i++) d[i] = sinf(i * 0.05f) * 10.0f + (float)((i * 7919) % 13) * 0.01f;
	int m = confparams_cpr->errorBoundMode; if (m != ABS && m != REL && m != ABS_AND_REL && m != ABS_OR_REL) { printf(" cd=-"); return; }
	if (!(confparams_cpr->absErrBound > 0) || !(confparams_cpr->relBoundRatio > 0) || confparams_cpr->sampleDistance <= 0 || !(confparams_cpr->predThreshold > 0) || confparams_cpr->predThreshold > 1) { printf(" cd=-"); return; }
	size_t os = 0; unsigned char* b = SZ_compress(SZ_FLOAT, d, &os, 0, 0, 0, 20, 30);
	uint64_t h = 1469598103934665603ULL; for (size_t i = 0; b && i < os; i++) { h ^= b[i]; h *= 1099511628211ULL; }
	printf(" cd=%zx:%" PRIx64, os, h); if (b) free(b);
}
/* conf f <hex of the file text> | conf p <26 fields> | conf m */
static void op_conf(int argc, char** a)
{
	SZ_Finalize();
	int ret;
	if (a[0][0] == 'f') {
		FILE* f = fopen(cfg_path, "w"); const char* h = a[1];
		for (size_t i = 0; h[i] && h[i + 1]; i += 2) { unsigned v; sscanf(h + i, "%2x", &v); fputc((int)v, f); }
		fclose(f); ret = SZ_Init(cfg_path); unlink(cfg_path);
	} else if (a[0][0] == 'm') {
		unlink(cfg_path); ret = SZ_Init(cfg_path);
	} else {
		uint64_t* l; parse_list(a[1], &l); sz_params p; memset(&p, 0, sizeof p);
		p.sol_ID = (int)l[1]; p.max_quant_intervals = (unsigned)l[2]; p.quantization_intervals = (unsigned)l[3]; p.maxRangeRadius = (unsigned)l[4];
		{ uint32_t b = (uint32_t)l[5]; memcpy(&p.predThreshold, &b, 4); } p.sampleDistance = (int)l[6]; p.szMode = (int)l[7]; p.losslessCompressor = (int)l[8];
		p.withRegression = (int)l[9]; p.gzipMode = (int)(int64_t)l[10]; p.protectValueRange = (int)l[11]; p.randomAccess = (int)l[12]; p.snapshotCmprStep = (int)l[13];
		p.errorBoundMode = (int)l[14]; memcpy(&p.absErrBound, &l[15], 8); memcpy(&p.relBoundRatio, &l[16], 8); memcpy(&p.psnr, &l[17], 8); memcpy(&p.normErr, &l[18], 8);
		memcpy(&p.pw_relBoundRatio, &l[19], 8); p.segment_size = (int)l[20]; p.accelerate_pw_rel_compression = (int)l[21]; p.pwr_type = (int)l[22]; p.plus_bits = 3;
		ret = SZ_Init_Params(&p); free(l);
	}
	print_state(ret);
	if (ret == SZ_SCES) print_stream_digest();
	printf("\n");
	SZ_Finalize(); SZ_Init(NULL);
}


/* ---------- C06 / C04 ---------- */
/* meta <type> <dims> <mode> <abs bits> <rel bits> <cfg> <data>: compress, undo the lossless wrapper, SZ_getMetadata;
 * prints the header bytes (for the model), the reported fields, and the error of the reconstruction */
static void op_meta(int argc, char** a)
{
	int ty = (int)hx(a[0]); size_t r[5]; parse_dims(a[1], r);
	int mode = (int)hx(a[2]); double absb = dbl_of_bits(a[3]), rel = dbl_of_bits(a[4]);
	if (init_from_cfg(a[5]) != SZ_SCES) { printf("st=init-failed\n"); return; }
	size_t n; void* data = make_data(a[6], ty, &n); int es = elem_size(ty);
	void* copy = malloc(n * es + 8); memcpy(copy, data, n * es);
	int cfg_szmode = confparams_cpr->szMode;
	/* optional flow (8th argument): "p<type>" = an earlier compression of another element type in the same process,
	 * "t" = the observed stream comes from the thread-safe customize entry (which enters the kernels without the dispatcher) */
	const char* flow = argc > 7 ? a[7] : "";
	const char* pp = strchr(flow, 'p');
	if (pp) {
		int pty = pp[1] - '0'; size_t pn; void* pd = make_data("g:0:7:40:3ff0000000000000:4059000000000000", pty, &pn);
		size_t ps = 0; unsigned char* pb = SZ_compress_args(pty, pd, &ps, ABS, 1.0, 1e-3, 0, 0, 0, 0, 0, 64);
		if (pb) free(pb); free(pd);
	}
	size_t cs = 0; unsigned char* cb; int cst = 0;
	if (strchr(flow, 't') && ty < 2) {
		sz_params para; memset(&para, 0, sizeof para); para.errorBoundMode = mode; para.absErrBound = absb; para.relBoundRatio = rel;
		cb = SZ_compress_customize_threadsafe("SZ", &para, ty, data, r[0], r[1], r[2], r[3], r[4], &cs, &cst);
	} else
	{	/* "w<bits>" in the flow argument: the point-wise relative ratio of the call (the combined modes 11..14 take it next to the other bounds) */
		const char* wp = strchr(flow, 'w'); double pwr = wp ? dbl_of_bits(wp + 1) : 0.0;
		cb = SZ_compress_args(ty, data, &cs, mode, absb, rel, pwr, r[0], r[1], r[2], r[3], r[4]);
	}
	if (!cb) { printf("st=null\n"); return; }
	int lc = cs >= 4 ? is_lossless_compressed_data(cb, cs) : -1;
	printf("out=%zx lc=%d ", cs, lc); fflush(R);
	unsigned char* raw = cb; size_t rs = cs;
	if (lc != -1) { rs = sz_lossless_decompress(lc, cb, cs, &raw, n * es + 4096); if (lc == ZSTD_COMPRESSOR) rs = n * es + 4096; }
	sz_metadata* m = SZ_getMetadata(raw);
	size_t hl = rs < 4 + 36 + 1 + 8 ? rs : 4 + 36 + 1 + 8;
	print_bytes("hdr", raw, hl);
	printf(" const=%d lossless=%d st=%d len=%zx ty=%x mode=%x b6=%x b10=%x szmode=%x cfgszmode=%x", m->isConstant, m->isLossless, m->sizeType, m->dataSeriesLength,
	       m->conf_params->dataType, m->conf_params->errorBoundMode, fbits((float)m->conf_params->absErrBound), fbits((float)m->conf_params->relBoundRatio), m->conf_params->szMode, cfg_szmode);
	double rep_abs = m->conf_params->absErrBound; int rep_mode = m->conf_params->errorBoundMode;
	free(m->conf_params); free(m);
	void* dec = SZ_decompress(ty, cb, cs, r[0], r[1], r[2], r[3], r[4]);
	if (!dec) { printf(" dec=null\n"); return; }
	double mn, mx; double e = effective_bound(ty, copy, n, mode, absb, rel, &mn, &mx);
	struct errstat s1; err_stats(ty, copy, dec, n, e, mn, mx, &s1);
	printf(" n=%zx maxerr=%" PRIx64 " e=%" PRIx64 " repabs=%" PRIx64 " repmode=%x range=%" PRIx64 " amax=%" PRIx64 "\n", n, bits_of_dbl(s1.maxerr), bits_of_dbl(e), bits_of_dbl(rep_abs), rep_mode, bits_of_dbl(mx - mn), bits_of_dbl(s1.amax));
	if (raw != cb) free(raw); free(cb); free(dec); free(data); free(copy);
}


/* ---------- C05 ---------- */
static void snap(void)
{
	sz_params* c = confparams_cpr;
	if (!c || !exe_params) { printf("-|"); return; }
	printf("%x,%x,%x,%x,%x,%x,", c->quantization_intervals, c->maxRangeRadius, c->accelerate_pw_rel_compression, c->withRegression, c->szMode, c->losslessCompressor);
	uint64_t ab, pb, rb; memcpy(&ab, &c->absErrBound, 8); memcpy(&pb, &c->pw_relBoundRatio, 8); memcpy(&rb, &c->relBoundRatio, 8);
	print_shex(c->gzipMode); printf(",%x,%x,%x,%x,%x,%" PRIx64 ",%" PRIx64 ",%" PRIx64 ",%x;%x,%x,%x,%x|", c->sampleDistance, fbits(c->predThreshold), c->protectValueRange, c->max_quant_intervals,
	       c->errorBoundMode, ab, rb, pb, dataEndianType, exe_params->optQuantMode, exe_params->intvCapacity, exe_params->intvRadius, exe_params->SZ_SIZE_TYPE);
}
/* hist <cfg> <op/op/...> <observed op> [<interposed compression>]
 * ops: c:<ty>:<mode>:<abs bits>:<rel bits>:<pwr bits>:<dims>:<kind>:<seed>:<scale bits>   compress (stream kept)
 *      T:<ty>:<mode>:<abs bits>:<rel bits>:<pwr bits>:<dims>:<kind>:<seed>:<scale bits>   thread-safe customize entry ("SZ") with these bounds in its parameter block
 *      U:... (same fields)   SZ_compress_customize("SZ") with a parameter block carrying these bounds: (re-)initialises with it, then compresses
 *      d:<k> decompress stream k   m:<k> metadata query on stream k   f finalise and re-initialise with the same configuration
 * after every op the configuration part of the globals and exe_params are printed; finally the observed compression is
 * done and decompressed and the digests of its stream and reconstruction are printed. */
#define MAXS 64
/* a compression of other data between the observed compression and the decompression of its stream ("compression and decompression of
 * different data may be freely alternated") */
static void hist_interpose(const char* t)
{
	int ty, mode = 0, kind; uint64_t ab = 0, rb = 0, pb = 0, seed, sb; char dims[128];
	if (sscanf(t, "c:%x:%x:%" SCNx64 ":%" SCNx64 ":%" SCNx64 ":%127[^:]:%d:%" SCNx64 ":%" SCNx64, &ty, &mode, &ab, &rb, &pb, dims, &kind, &seed, &sb) != 9) return;
	size_t r[5]; parse_dims(dims, r); size_t n = computeDataLength(r[0], r[1], r[2], r[3], r[4]);
	char spec[256]; double sc; memcpy(&sc, &sb, 8); double off = (mode == PW_REL) ? 3.0 * sc : 0.0; uint64_t ob; memcpy(&ob, &off, 8);
	snprintf(spec, sizeof spec, "g:%d:%" PRIx64 ":%zx:%" PRIx64 ":%" PRIx64, kind, seed, n, sb, ob);
	size_t nn; void* data = make_data(spec, ty, &nn);
	double absb, rel, pwr; memcpy(&absb, &ab, 8); memcpy(&rel, &rb, 8); memcpy(&pwr, &pb, 8);
	size_t os = 0; unsigned char* b = SZ_compress_args(ty, data, &os, mode, absb, rel, pwr, r[0], r[1], r[2], r[3], r[4]);
	if (b) free(b); free(data);
}
static void op_hist(int argc, char** a)
{
	if (init_from_cfg(a[0]) != SZ_SCES) { printf("st=init-failed\n"); return; }
	unsigned char* streams[MAXS]; size_t sizes[MAXS]; int types[MAXS]; size_t sdims[MAXS][5]; int ns = 0;
	printf("snap="); snap(); fflush(R);
	char* list = strdup(a[1]); char* save1;
	for (int pass = 0; pass < 2; pass++) {
		char* tok0 = pass == 0 ? list : a[2];
		for (char* t = strtok_r(tok0, "/", &save1); t; t = strtok_r(NULL, "/", &save1)) {
			int executed = 1;
			if (t[0] == 'c' || t[0] == 'C' || t[0] == 'k' || t[0] == 'K' || t[0] == 'T' || t[0] == 'U') {
				int ty, mode = 0, kind; uint64_t ab = 0, rb = 0, pb = 0, seed, sb; char dims[128]; char name[32] = "";
				if (t[0] == 'c') sscanf(t, "c:%x:%x:%" SCNx64 ":%" SCNx64 ":%" SCNx64 ":%127[^:]:%d:%" SCNx64 ":%" SCNx64, &ty, &mode, &ab, &rb, &pb, dims, &kind, &seed, &sb);
				else if (t[0] == 'C') sscanf(t, "C:%x:%127[^:]:%d:%" SCNx64 ":%" SCNx64, &ty, dims, &kind, &seed, &sb);
				else if (t[0] == 'T' || t[0] == 'U') sscanf(t + 1, ":%x:%x:%" SCNx64 ":%" SCNx64 ":%" SCNx64 ":%127[^:]:%d:%" SCNx64 ":%" SCNx64, &ty, &mode, &ab, &rb, &pb, dims, &kind, &seed, &sb);   /* thread-safe customize entry with bounds of its own */
				else sscanf(t + 2, "%31[^:]:%x:%127[^:]:%d:%" SCNx64 ":%" SCNx64, name, &ty, dims, &kind, &seed, &sb);   /* k: customize entry, K: its thread-safe twin (float/double) */
				size_t r[5]; parse_dims(dims, r); size_t n = computeDataLength(r[0], r[1], r[2], r[3], r[4]);
				char spec[256]; double off = (mode == PW_REL) ? 3.0 : 0.0; uint64_t ob; memcpy(&ob, &off, 8);
				double sc; memcpy(&sc, &sb, 8); if (mode == PW_REL) { off = 3.0 * sc; memcpy(&ob, &off, 8); }
				snprintf(spec, sizeof spec, "g:%d:%" PRIx64 ":%zx:%" PRIx64 ":%" PRIx64, kind, seed, n, sb, ob);
				size_t nn; void* data = make_data(spec, ty, &nn);
				double absb, rel, pwr; memcpy(&absb, &ab, 8); memcpy(&rel, &rb, 8); memcpy(&pwr, &pb, 8);
				size_t os = 0; unsigned char* b; int cst = 0;
				if (t[0] == 'c') b = SZ_compress_args(ty, data, &os, mode, absb, rel, pwr, r[0], r[1], r[2], r[3], r[4]);
				else if (t[0] == 'C') b = SZ_compress(ty, data, &os, r[0], r[1], r[2], r[3], r[4]);
				else if (t[0] == 'k') b = SZ_compress_customize(name, NULL, ty, data, r[0], r[1], r[2], r[3], r[4], &os, &cst);
				else if (t[0] == 'T') { sz_params up = *confparams_cpr; up.errorBoundMode = mode; up.absErrBound = absb; up.relBoundRatio = rel; up.pw_relBoundRatio = pwr;
					b = SZ_compress_customize_threadsafe("SZ", &up, ty, data, r[0], r[1], r[2], r[3], r[4], &os, &cst); }
				else if (t[0] == 'U') { sz_params up; memset(&up, 0, sizeof up);     /* a complete block of its own: nothing of the current configuration goes into it */
					up.sol_ID = SZ; up.max_quant_intervals = 65536; up.quantization_intervals = 0; up.predThreshold = 0.99f; up.sampleDistance = 100; up.szMode = SZ_BEST_SPEED;
					up.losslessCompressor = ZSTD_COMPRESSOR; up.gzipMode = 3; up.psnr = 90; up.normErr = 0.05; up.segment_size = 36; up.withRegression = SZ_WITH_LINEAR_REGRESSION;
					up.accelerate_pw_rel_compression = 1; up.plus_bits = 3; up.pwr_type = SZ_PWR_MIN_TYPE; up.snapshotCmprStep = 5; up.predictionMode = SZ_PREVIOUS_VALUE_ESTIMATE;
					up.errorBoundMode = mode; up.absErrBound = absb; up.relBoundRatio = rel; up.pw_relBoundRatio = pwr;
					b = SZ_compress_customize("SZ", &up, ty, data, r[0], r[1], r[2], r[3], r[4], &os, &cst); }   /* (re-)initialises the library with this block, then compresses */
				else { sz_params up = *confparams_cpr; b = SZ_compress_customize_threadsafe(name, &up, ty, data, r[0], r[1], r[2], r[3], r[4], &os, &cst); }
				if (t[0] != 'c' && t[0] != 'T' && t[0] != 'U') { mode = confparams_cpr->errorBoundMode; absb = confparams_cpr->absErrBound; rel = confparams_cpr->relBoundRatio; }
				if (pass == 1) {
					uint64_t h = 1469598103934665603ULL; for (size_t i = 0; b && i < os; i++) { h ^= b[i]; h *= 1099511628211ULL; }
					/* integer streams carry confparams_cpr->dmin (a leftover of the last double compression, never read back) in
					 * bytes 24..31 of an unwrapped stream: smdig leaves those bytes out */
					uint64_t hm = 1469598103934665603ULL; int wrapped = b && os > 4 ? is_lossless_compressed_data(b, os) != -1 : 1;
					for (size_t i = 0; b && i < os; i++) { if (ty >= 2 && !wrapped && i >= 24 && i < 32) continue; hm ^= b[i]; hm *= 1099511628211ULL; }
					printf(" out=%zx sdig=%" PRIx64 " smdig=%" PRIx64 " wrapped=%d", os, h, hm, wrapped); fflush(R);
					if (getenv("SZV_DUMP") && b) { FILE* df = fopen(getenv("SZV_DUMP"), "wb"); if (df) { fwrite(b, 1, os, df); fclose(df); } }
					if (argc > 3 && a[3][0] == 'c') hist_interpose(a[3]);
					void* dec = b ? SZ_decompress(ty, b, os, r[0], r[1], r[2], r[3], r[4]) : NULL;
					uint64_t g = 1469598103934665603ULL; for (size_t i = 0; dec && i < nn * elem_size(ty); i++) { g ^= ((unsigned char*)dec)[i]; g *= 1099511628211ULL; }
					double mn, mx; double e = effective_bound(ty, data, nn, mode, absb, rel, &mn, &mx); struct errstat st;
					if (dec) err_stats(ty, data, dec, nn, e, mn, mx, &st);
					printf(" dig=%" PRIx64 " viol=%zx", dec ? g : 0, dec ? st.viol : (size_t)-1);
					if (dec) free(dec);
				} else if (b && ns < MAXS) { streams[ns] = b; sizes[ns] = os; types[ns] = ty; memcpy(sdims[ns], r, sizeof r); ns++; b = NULL; }
				if (b) free(b); free(data);
			} else if (t[0] == 'd' && ns) {
				int k = atoi(t + 2) % ns;
				void* dec = SZ_decompress(types[k], streams[k], sizes[k], sdims[k][0], sdims[k][1], sdims[k][2], sdims[k][3], sdims[k][4]);
				if (dec) free(dec);
			} else if (t[0] == 'm' && ns) {
				int k = atoi(t + 2) % ns;
				size_t kn = computeDataLength(sdims[k][0], sdims[k][1], sdims[k][2], sdims[k][3], sdims[k][4]);
				int headerless = types[k] < 2 && kn <= 20;      /* float/double arrays of at most 20 elements are returned verbatim: there is no header to query */
				if (!headerless && sizes[k] > 60 && is_lossless_compressed_data(streams[k], sizes[k]) == -1) { sz_metadata* m = SZ_getMetadata(streams[k]); if (m) { free(m->conf_params); free(m); } }
				else executed = 0;
			} else if (t[0] == 'f') {
				if (init_from_cfg(a[0]) != SZ_SCES) { printf(" reinit-failed"); }
			}
			else executed = 0;
			if (pass == 0) { if (!executed) printf("!"); snap(); fflush(R); }     /* survives a crash of a later operation (partial line) */
		}
	}
	printf("\n");
	for (int i = 0; i < ns; i++) free(streams[i]);
	free(list);
}


/* ---------- C02 ---------- */
static unsigned seed_phase(uint64_t s) { return (unsigned)((s >> 3) ^ s); }
/* pw <type 0|1> <dims> <pwr bits> <cfg> <gen> <seed> <span> [r]: point-wise relative round trip.
 * generators: 0 positive smooth, 1 mixed-sign smooth, 2 random magnitudes 2^[-span,span] with random signs, 3 = 2 with 10% exact zeros,
 *             4 all negative, 5 smooth positive with one exact zero, 6 zeros except one value, 7 denormal magnitudes, 8 blocks of zeros
 *             and of mixed-sign values, 9 values within a few ulps of each other (tiny relative differences), 10 smooth mixed-sign field with a
 *             few magnitudes 2^-span and zeros, 11 smooth magnitudes whose sign alternates between slices and rows (zeros on some slice origins)
 * oracle: |x' - x| <= r*|x| (evaluated exactly: long double), exact zeros stay exact zeros, no element changes sign */
static void op_pw(int argc, char** a)
{
	int ty = (int)hx(a[0]); size_t r[5]; parse_dims(a[1], r); double pwr = dbl_of_bits(a[2]);
	if (init_from_cfg(a[3]) != SZ_SCES) { printf("st=init-failed\n"); return; }
	int gen = atoi(a[4]); uint64_t s = hx(a[5]) * 2654435761ULL + 99991; int span = atoi(a[6]);
	size_t n = computeDataLength(r[0], r[1], r[2], r[3], r[4]); int es = elem_size(ty);
	void* data = malloc(n * (size_t)es + 8);
	for (size_t i = 0; i < n; i++) {
		double v, u = urand(&s);
		switch (gen) {
		case 0: v = sin((double)i * 0.05) + 0.3 * sin((double)i * 0.31) + 3.0; break;
		case 1: v = sin((double)i * 0.05 + 0.5) + 0.3 * sin((double)i * 0.31); break;
		case 2: v = (urand(&s) < 0.5 ? -1.0 : 1.0) * ldexp(1.0 + u, (int)(urand(&s) * 2 * span) - span); break;
		case 3: v = urand(&s) < 0.1 ? 0.0 : (urand(&s) < 0.5 ? -1.0 : 1.0) * ldexp(1.0 + u, (int)(urand(&s) * 2 * span) - span); break;
		case 4: v = -ldexp(1.0 + u, (int)(urand(&s) * 2 * span) - span); break;
		case 5: v = (i == n / 2) ? 0.0 : sin((double)i * 0.05) + 3.0; break;
		case 6: v = (i == n / 3) ? 2.5 : 0.0; break;
		case 7: v = (urand(&s) < 0.5 ? -1.0 : 1.0) * ldexp(1.0 + u, ty == SZ_FLOAT ? -(127 + (int)(urand(&s) * 20)) : -(1023 + (int)(urand(&s) * 45))); break;
		case 8: v = ((i / 23) % 3 == 0) ? 0.0 : ((i / 23) % 3 == 1 ? sin((double)i * 0.3) : 5.0 + u); break;
		case 10: /* a smooth mixed-sign field below 1 in magnitude with a few magnitudes hundreds of binades smaller and a few zeros:
		            the rounding margin of the log transform is governed by the tiny magnitudes, the data still compress */
			v = (0.45 + 0.35 * sin((double)i * 0.013 + 0.3)) * (((i / 61) & 1) ? -1.0 : 1.0);      /* magnitudes in [0.1, 0.8], sign by stripes */
			if (i % 997 == 5) v = ldexp(1.0 + u, -span); else if (i % 1201 == 7) v = -ldexp(1.0 + u, -span + 1); else if (i % 1499 == 11) v = 0.0;
			break;
		case 11: { /* a smooth field whose sign (and now and then an exact zero) changes from one slice of the slowest dimension to the next, and from
		              row to row inside a slice: every predictor that reaches across a slice or row boundary meets a neighbour of the other sign */
			size_t d0 = r[0] ? r[0] : r[1] ? r[1] : r[2] ? r[2] : r[3] ? r[3] : r[4]; size_t slice = d0 ? n / d0 : n; if (!slice) slice = 1;
			size_t row = r[4] ? r[4] : 1; size_t layer = i / slice, rw = (i % slice) / row;
			double sg = ((layer + (seed_phase(hx(a[5])) & 1)) & 1) ? 1.0 : -1.0; if ((rw % 5) == 3) sg = -sg;
			v = sg * (1.5 + sin((double)i * 0.05 + 0.1 * (double)(hx(a[5]) % 13)));
			if ((layer & 1) && (i % slice) % 97 == 0 && (hx(a[5]) & 2)) v = 0.0;
			break; }
		default: v = 1.0 + (double)(lcg(&s) % 7) * (ty == SZ_FLOAT ? 1.1920929e-7 : 2.220446049250313e-16); break;
		}
		if (ty == SZ_FLOAT) { float f = (float)v; memcpy((char*)data + i * 4, &f, 4); } else memcpy((char*)data + i * 8, &v, 8);
	}
	void* copy = malloc(n * (size_t)es + 8); memcpy(copy, data, n * (size_t)es);
	size_t outSize = 0;
	unsigned char* bytes = SZ_compress_args(ty, data, &outSize, PW_REL, 0.0, 0.0, pwr, r[0], r[1], r[2], r[3], r[4]);
	int input_modified = memcmp(copy, data, n * (size_t)es) != 0;
	if (!bytes) { printf("st=null\n"); free(data); free(copy); return; }
	int lc = outSize >= 4 ? is_lossless_compressed_data(bytes, outSize) : -1;
	printf("out=%zx lc=%d ", outSize, lc); fflush(R);
	void* dec = SZ_decompress(ty, bytes, outSize, r[0], r[1], r[2], r[3], r[4]);
	if (!dec) { printf("st=dec-null\n"); free(bytes); free(data); free(copy); return; }
	size_t viol = 0, first = 0, zbad = 0, sbad = 0, nanbad = 0; long double maxrel = 0; uint64_t fx = 0, fd = 0;
	for (size_t i = 0; i < n; i++) {
		long double x, y; uint64_t xb = 0, yb = 0;
		if (ty == SZ_FLOAT) { float p = ((float*)copy)[i], q = ((float*)dec)[i]; x = p; y = q; memcpy(&xb, &p, 4); memcpy(&yb, &q, 4); }
		else { double p = ((double*)copy)[i], q = ((double*)dec)[i]; x = p; y = q; memcpy(&xb, &p, 8); memcpy(&yb, &q, 8); }
		int bad = 0;
		if (y != y) { nanbad++; bad = 1; }
		else if (x == 0) { if (y != 0) { zbad++; bad = 1; } }
		else {
			if ((x < 0) != (y < 0) && y != 0) { sbad++; bad = 1; }
			long double d = x > y ? x - y : y - x, ax = x < 0 ? -x : x;
			if (d > (long double)pwr * ax) bad = 1;
			if (d / ax > maxrel) maxrel = d / ax;
		}
		if (bad) { if (!viol) { first = i; fx = xb; fd = yb; } viol++; }
	}
	/* the stream's flag byte (after unwrapping): 0x08 = accelerated (MSST19) path */
	unsigned char flag = 0; { unsigned char* inner = bytes; unsigned char* unw = NULL; if (lc != -1 && n > 20) { sz_lossless_decompress(lc, bytes, outSize, &unw, n * (size_t)es + 200000); inner = unw; } if (n > 20 && inner) flag = inner[3]; if (unw) free(unw); }
	double mr = (double)maxrel;
	printf("st=ok n=%zx viol=%zx first=%zx x=%" PRIx64 " y=%" PRIx64 " zbad=%zx sbad=%zx nan=%zx maxrel=%" PRIx64 " flag=%x inmod=%d", n, viol, first, fx, fd, zbad, sbad, nanbad, bits_of_dbl(mr), flag, input_modified);
	{ uint64_t h = 1469598103934665603ULL; for (size_t i = 0; i < n * (size_t)es; i++) { h ^= ((unsigned char*)dec)[i]; h *= 1099511628211ULL; } printf(" dig=%" PRIx64 "\n", h); }
	free(bytes); free(dec); free(data); free(copy);
}

struct op more_ops[] = {
	{"rt", op_rt}, {"rtr", op_rtr}, {"fdim", op_fdim}, {"huff", op_huff}, {"rw", op_rw}, {"tr", op_tr}, {"lz", op_lz}, {"conf", op_conf}, {"meta", op_meta}, {"hist", op_hist}, {"pw", op_pw}, {"sniff", op_sniff}, {"ep", op_ep},
	{NULL, NULL}
};
