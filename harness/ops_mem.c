/* C10: valid call sequences under an allocation ledger (harness/ledger.c) or AddressSanitizer.
 *
 * mem <cfg> <op/op/...>
 *   ops as in `hist` (ops_more.c): c:/C:/k: compressions (stream kept by the caller), d:<k> decompress stream k (array freed by
 *   the caller at once), m:<k> metadata query (freed the way the repository's own examples do: conf_params, then the struct),
 *   f finalise and re-initialise.  At the end the caller frees its streams and finalises.
 * Output: live blocks / bytes in the ledger after initialisation, after every op (minus what the caller holds), and at the
 * end, with the sizes of the blocks still live. */
#include <stdio.h>
#include <stdlib.h>
#include <string.h>
#include <stdint.h>
#include <inttypes.h>
#include <malloc.h>
#include "sz.h"
#include "szimpl.h"

#ifdef WITH_LEDGER
extern size_t ledger_live, ledger_bytes, ledger_on, ledger_bad_free, ledger_overflow;
void ledger_reset(void); size_t ledger_dump(size_t* out, size_t n);
#else
static size_t ledger_live, ledger_bytes, ledger_on, ledger_bad_free, ledger_overflow;
static void ledger_reset(void) {} static size_t ledger_dump(size_t* out, size_t n) { (void)out; (void)n; return 0; }
#endif
#define MAXS 64

static void op_mem(int argc, char** a)
{
	ledger_on = 0;
	SZ_Finalize();
	char* list = strdup(a[1]);
	unsigned char* streams[MAXS]; size_t sizes[MAXS]; int types[MAXS]; size_t sdims[MAXS][5]; int ns = 0;
	size_t held = 0, heldn = 0;
	struct mallinfo2 mi0 = mallinfo2();
	ledger_reset(); ledger_on = 1;
	if (init_from_cfg(a[0]) != SZ_SCES) { ledger_on = 0; printf("st=init-failed\n"); free(list); return; }
	printf("init=%zx,%zx ops=", ledger_live, ledger_bytes);
	char* save1;
	for (char* t = strtok_r(list, "/", &save1); t; t = strtok_r(NULL, "/", &save1)) {
		char kind = t[0]; int executed = 1;
		if (t[0] == 'c' || t[0] == 'C' || t[0] == 'k') {
			int ty, mode = 0, dk; uint64_t ab = 0, rb = 0, pb = 0, seed, sb; char dims[128]; char name[32] = "";
			if (t[0] == 'c') sscanf(t, "c:%x:%x:%" SCNx64 ":%" SCNx64 ":%" SCNx64 ":%127[^:]:%d:%" SCNx64 ":%" SCNx64, &ty, &mode, &ab, &rb, &pb, dims, &dk, &seed, &sb);
			else if (t[0] == 'C') sscanf(t, "C:%x:%127[^:]:%d:%" SCNx64 ":%" SCNx64, &ty, dims, &dk, &seed, &sb);
			else sscanf(t, "k:%31[^:]:%x:%127[^:]:%d:%" SCNx64 ":%" SCNx64, name, &ty, dims, &dk, &seed, &sb);
			size_t r[5]; parse_dims(dims, r); size_t n = computeDataLength(r[0], r[1], r[2], r[3], r[4]);
			char spec[256]; double sc; memcpy(&sc, &sb, 8); double off = (mode == PW_REL) ? 3.0 * sc : 0.0; uint64_t ob; memcpy(&ob, &off, 8);
			snprintf(spec, sizeof spec, "g:%d:%" PRIx64 ":%zx:%" PRIx64 ":%" PRIx64, dk, seed, n, sb, ob);
			size_t nn; void* data = make_data(spec, ty, &nn);
			/* the input array is exactly n elements long (ASan then sees any read past it) */
			void* exact = malloc(n * (size_t)elem_size(ty)); memcpy(exact, data, n * (size_t)elem_size(ty)); free(data);
			double absb, rel, pwr; memcpy(&absb, &ab, 8); memcpy(&rel, &rb, 8); memcpy(&pwr, &pb, 8);
			size_t os = 0; unsigned char* b; int cst = 0;
			if (t[0] == 'c') b = SZ_compress_args(ty, exact, &os, mode, absb, rel, pwr, r[0], r[1], r[2], r[3], r[4]);
			else if (t[0] == 'C') b = SZ_compress(ty, exact, &os, r[0], r[1], r[2], r[3], r[4]);
			else b = SZ_compress_customize(name, NULL, ty, exact, r[0], r[1], r[2], r[3], r[4], &os, &cst);
			free(exact);
			if (b && ns < MAXS) { streams[ns] = b; sizes[ns] = os; types[ns] = ty; memcpy(sdims[ns], r, sizeof r); ns++; held += os; heldn++; }
			else if (b) free(b);
		} else if (t[0] == 'd' && ns) {
			int k = atoi(t + 2) % ns;
			void* dec = SZ_decompress(types[k], streams[k], sizes[k], sdims[k][0], sdims[k][1], sdims[k][2], sdims[k][3], sdims[k][4]);
			if (dec) free(dec);
		} else if (t[0] == 'm' && ns) {
			int k = atoi(t + 2) % ns;
			if (sizes[k] > 60 && is_lossless_compressed_data(streams[k], sizes[k]) == -1) {
				sz_metadata* m = SZ_getMetadata(streams[k]);
				if (m) { free(m->conf_params); free(m); }        /* as example/sz.c does */
			} else executed = 0;
		} else if (t[0] == 'f') {
			if (init_from_cfg(a[0]) != SZ_SCES) { printf("reinit-failed"); }
		} else executed = 0;
		if (executed) printf("%c%zx,%zx,%zx,%d|", kind, ledger_live - heldn, ledger_bytes, (kind == 'c' || kind == 'C' || kind == 'k') && ns ? sizes[ns - 1] : (size_t)0,
		                     (kind == 'c' || kind == 'C' || kind == 'k') && ns && sizes[ns - 1] > 4 ? is_lossless_compressed_data(streams[ns - 1], sizes[ns - 1]) : -2);
		fflush(R);
	}
	for (int i = 0; i < ns; i++) free(streams[i]);
	SZ_Finalize();
	free(list);
	size_t top[8]; size_t m = ledger_dump(top, 8);
	ledger_on = 0;
	struct mallinfo2 mi1 = mallinfo2();
	printf(" end=%zx,%zx blocks=", ledger_live, ledger_bytes);
	for (size_t i = 0; i < m; i++) printf("%s%zx", i ? "," : "", top[i]);
	printf(" badfree=%zx overflow=%zx heapdelta=%lld\n", ledger_bad_free, ledger_overflow, (long long)mi1.uordblks - (long long)mi0.uordblks);
	SZ_Init(NULL);
}

struct op mem_ops[] = { {"mem", op_mem}, {NULL, NULL} };
