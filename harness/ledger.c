/* C10: allocation ledger.  The harness executable szimpl_mem is linked with
 *   -Wl,--wrap=malloc,--wrap=calloc,--wrap=realloc,--wrap=free
 * so that every allocation made by the statically linked library (and by the harness itself) goes through these
 * wrappers: an open-addressing table of live pointers with their requested sizes.  (zlib/zstd are shared objects:
 * their internal allocations are not seen here; mallinfo2 covers them.) */
#include <stdlib.h>
#include <string.h>
#include <stdint.h>
#include <stdio.h>
void* __real_malloc(size_t); void* __real_calloc(size_t, size_t); void* __real_realloc(void*, size_t); void __real_free(void*);

#define LCAP (1u << 18)
static void* keys[LCAP]; static size_t vals[LCAP];
size_t ledger_live = 0, ledger_bytes = 0, ledger_on = 0, ledger_bad_free = 0, ledger_overflow = 0;
#define TOMB ((void*)1)

static void put(void* p, size_t n)
{
	if (!p || !ledger_on) return;
	uint64_t h = ((uintptr_t)p >> 4) * 0x9E3779B97F4A7C15ULL; unsigned i = (unsigned)(h >> 40) & (LCAP - 1);
	for (unsigned k = 0; k < LCAP; k++, i = (i + 1) & (LCAP - 1)) if (keys[i] == NULL || keys[i] == TOMB) { keys[i] = p; vals[i] = n; ledger_live++; ledger_bytes += n; return; }
	ledger_overflow++;
}
static int del(void* p)
{
	uint64_t h = ((uintptr_t)p >> 4) * 0x9E3779B97F4A7C15ULL; unsigned i = (unsigned)(h >> 40) & (LCAP - 1);
	for (unsigned k = 0; k < LCAP; k++, i = (i + 1) & (LCAP - 1)) { if (keys[i] == NULL) return 0; if (keys[i] == p) { keys[i] = TOMB; ledger_live--; ledger_bytes -= vals[i]; return 1; } }
	return 0;
}
void* __wrap_malloc(size_t n) { void* p = __real_malloc(n); put(p, n); return p; }
void* __wrap_calloc(size_t a, size_t b) { void* p = __real_calloc(a, b); put(p, a * b); return p; }
void* __wrap_realloc(void* q, size_t n) { if (q && ledger_on) del(q); void* p = __real_realloc(q, n); put(p, n); return p; }
void __wrap_free(void* p) { if (p && ledger_on) { if (!del(p)) { /* allocated before the ledger was switched on (or elsewhere) */ ledger_bad_free++; } } __real_free(p); }
void ledger_reset(void) { memset(keys, 0, sizeof keys); ledger_live = ledger_bytes = ledger_bad_free = ledger_overflow = 0; }
/* the sizes of the live blocks, largest first (at most n) */
size_t ledger_dump(size_t* out, size_t n)
{
	size_t m = 0;
	for (unsigned i = 0; i < LCAP; i++) if (keys[i] && keys[i] != TOMB) {
		size_t v = vals[i]; size_t j = m < n ? m++ : n;
		if (j == n) { if (v <= out[n - 1]) continue; j = n - 1; }
		while (j > 0 && out[j - 1] < v) { out[j] = out[j - 1]; j--; }
		out[j] = v;
	}
	return m;
}
