/* C17: time-step compression.  Built only with -DWITH_TS -DHAVE_TIMECMPR (harness executable szimpl_ts).
 *
 * ts <cfg> <type 0|1> <dims> <mode> <abs bits> <rel bits> <schedule> <evolution> <kind> <seed> <scale bits> <nvars> [<pwr bits> <pwmask>]
 *   pwmask   : bit v set = variable v is registered in point-wise relative mode with ratio <pwr> (the others in <mode>); such a variable is judged by
 *              |x' - x| <= pwr*|x| (zeros exact)
 *   schedule : one letter per step: S force snapshot, T force temporal prediction, P periodic (cfg snapshotCmprStep)
 *   evolution: 0 smooth drift, 1 abrupt change half way, 2 every third step constant, 3 alternating between two fields,
 *              4 independent noise per step, 5 static field, 6 drift with a tiny-bound-hostile noise (raw fallback),
 *              7 a smooth field at step 0, then one fixed noisy field (step 1 incompressible, later steps predictable from it),
 *              8 values around 1000*scale with a slow drift (bounds of a few ulps: the re-check of the kernels fires)
 * The encoder runs in this process, the decoder in a forked child that shares nothing but the step streams
 * (two pipes), exactly as a writer and a reader process would.  Per step and variable the line reports the
 * compression type chosen, digests of the encoder's and the decoder's history buffers after the step, the number
 * of elements outside the step's bound and the maximum error. */
#include <stdio.h>
#include <stdlib.h>
#include <string.h>
#include <stdint.h>
#include <inttypes.h>
#include <math.h>
#include <unistd.h>
#include <sys/wait.h>
#include "sz.h"
#include "szimpl.h"

#ifdef WITH_TS
static uint64_t fnv(const void* p, size_t n) { uint64_t h = 1469598103934665603ULL; for (size_t i = 0; i < n; i++) { h ^= ((const unsigned char*)p)[i]; h *= 1099511628211ULL; } return h; }

/* the field of variable v at step k (regenerated identically on both sides) */
static void* step_data(int ty, size_t n, int evo, int kind, uint64_t seed, double scale, int k, int nsteps, int v)
{
	char spec[200]; uint64_t sb, ob; double off = 0; memcpy(&ob, &off, 8); memcpy(&sb, &scale, 8);
	uint64_t sd = seed + 7919ULL * (uint64_t)v;
	if (evo == 1 && k >= nsteps / 2) sd += 1;
	if (evo == 3) sd += (uint64_t)(k & 1);
	if (evo == 4) sd += (uint64_t)k;
	if (evo == 7 && k >= 1) { sd += 1; kind = 1; }   /* a smooth field, then from step 1 on one fixed noisy field */
	snprintf(spec, sizeof spec, "g:%d:%" PRIx64 ":%zx:%" PRIx64 ":%" PRIx64, (evo == 2 && k % 3 == 1) ? 6 : kind, sd, n, sb, ob);
	size_t nn; void* d = make_data(spec, ty, &nn);
	if (evo == 8) {    /* values around 1000*scale drifting slowly: with bounds of a few ulps of the values the kernels' re-check rejects codes */
		for (size_t i = 0; i < n; i++) {
			double x = ty == SZ_FLOAT ? ((float*)d)[i] : ((double*)d)[i];
			x = 1000.0 * scale + 0.5 * x + 0.0004 * scale * k * sin(0.05 * (double)i + 0.3 * k);
			if (ty == SZ_FLOAT) ((float*)d)[i] = (float)x; else ((double*)d)[i] = x;
		}
	}
	if (evo == 0 || evo == 1 || evo == 6) {
		for (size_t i = 0; i < n; i++) {
			double x = ty == SZ_FLOAT ? ((float*)d)[i] : ((double*)d)[i];
			x = x * (1.0 + 0.01 * k) + 0.05 * scale * k * sin(0.01 * (double)i);
			if (evo == 6) { uint64_t z = (sd + 1) * 6364136223846793005ULL + (uint64_t)i * 1442695040888963407ULL + (uint64_t)k * 0x9E3779B97F4A7C15ULL; z ^= z >> 29; x += scale * 1e-3 * (double)(z % 100003) / 100003.0; }
			if (ty == SZ_FLOAT) ((float*)d)[i] = (float)x; else ((double*)d)[i] = x;
		}
	}
	return d;
}

static void wr(int fd, const void* p, size_t n) { const char* q = p; while (n) { ssize_t w = write(fd, q, n); if (w <= 0) _exit(3); q += w; n -= (size_t)w; } }
static int rd(int fd, void* p, size_t n) { char* q = p; while (n) { ssize_t r = read(fd, q, n); if (r <= 0) return 0; q += r; n -= (size_t)r; } return 1; }

static void op_ts(int argc, char** a)
{
	const char* cfg = a[0]; int ty = (int)hx(a[1]); size_t r[5]; parse_dims(a[2], r);
	int mode = (int)hx(a[3]); uint64_t ab = hx(a[4]), rb = hx(a[5]); double absb, rel; memcpy(&absb, &ab, 8); memcpy(&rel, &rb, 8);
	const char* sched = a[6]; int nsteps = (int)strlen(sched);
	int evo = atoi(a[7]), kind = atoi(a[8]); uint64_t seed = hx(a[9]); uint64_t sb = hx(a[10]); double scale; memcpy(&scale, &sb, 8);
	int nvars = argc > 11 ? atoi(a[11]) : 1; if (nvars > 4) nvars = 4;
	double pwr = 0; unsigned pwmask = 0; if (argc > 13) { uint64_t pb = hx(a[12]); memcpy(&pwr, &pb, 8); pwmask = (unsigned)hx(a[13]); }
	size_t n = computeDataLength(r[0], r[1], r[2], r[3], r[4]); int es = elem_size(ty);
	if (init_from_cfg(cfg) != SZ_SCES) { printf("st=init-failed\n"); return; }
	fflush(R); fflush(stdout); fflush(stderr);
	int p2c[2], c2p[2]; if (pipe(p2c) || pipe(c2p)) { printf("st=pipe-failed\n"); return; }
	pid_t pid = fork();
	if (pid == 0) {
		/* ---- decoder process ---- */
		close(p2c[1]); close(c2p[0]);
		void* bufs[4];
		for (int v = 0; v < nvars; v++) {
			bufs[v] = calloc(n, (size_t)es); char name[16]; snprintf(name, sizeof name, "v%d", v);
			SZ_registerVar(v + 1, name, ty, bufs[v], (pwmask >> v) & 1 ? PW_REL : mode, absb, rel, (pwmask >> v) & 1 ? pwr : 0.0, r[0], r[1], r[2], r[3], r[4]);
		}
		for (int k = 0; k < nsteps; k++) {
			uint64_t len; if (!rd(p2c[0], &len, 8)) _exit(4);
			unsigned char* bytes = malloc(len ? len : 1); if (!rd(p2c[0], bytes, len)) _exit(4);
			SZ_decompress_ts(bytes, len);
			free(bytes);
			for (int v = 0; v < nvars; v++) {
				void* ori = step_data(ty, n, evo, kind, seed, scale, k, nsteps, v);
				double mn, mx; double e = effective_bound(ty, ori, n, mode, absb, rel, &mn, &mx);
				struct errstat st; err_stats(ty, ori, bufs[v], n, e, mn, mx, &st);
				if ((pwmask >> v) & 1) {      /* point-wise relative variable: exact per-element oracle, e reported = the ratio, maxerr = largest relative error */
					memset(&st, 0, sizeof st); st.first = (size_t)-1; e = pwr;
					for (size_t i = 0; i < n; i++) {
						long double x = ty == SZ_FLOAT ? ((float*)ori)[i] : ((double*)ori)[i], y = ty == SZ_FLOAT ? ((float*)bufs[v])[i] : ((double*)bufs[v])[i];
						long double d = x > y ? x - y : y - x, ax = x < 0 ? -x : x; int bad = !(d <= (long double)pwr * ax);
						if (bad) { if (!st.viol) st.first = i; st.viol++; }
						double rerr = ax > 0 ? (double)(d / ax) : (d > 0 ? 1e300 : 0); if (rerr > st.maxerr) st.maxerr = rerr;
						if ((double)ax > st.amax) st.amax = (double)ax;
					}
				}
				SZ_Variable* var = SZ_getVariable(v + 1);
				uint64_t res[8]; res[0] = fnv(var->multisteps->hist_data, n * (size_t)es); res[1] = st.viol; memcpy(&res[2], &st.maxerr, 8); memcpy(&res[3], &e, 8);
				res[4] = st.first; res[5] = res[6] = 0; memcpy(&res[7], &st.amax, 8);
				if (st.viol) { memcpy(&res[5], (char*)ori + st.first * (size_t)es, (size_t)es); memcpy(&res[6], (char*)bufs[v] + st.first * (size_t)es, (size_t)es); }
				wr(c2p[1], res, sizeof res);
				if (n <= 64) wr(c2p[1], bufs[v], n * (size_t)es);
				free(ori);
			}
		}
		_exit(0);
	}
	/* ---- encoder process ---- */
	close(p2c[0]); close(c2p[1]);
	void* bufs[4];
	for (int v = 0; v < nvars; v++) {
		bufs[v] = calloc(n, (size_t)es); char name[16]; snprintf(name, sizeof name, "v%d", v);
		SZ_registerVar(v + 1, name, ty, bufs[v], (pwmask >> v) & 1 ? PW_REL : mode, absb, rel, (pwmask >> v) & 1 ? pwr : 0.0, r[0], r[1], r[2], r[3], r[4]);
	}
	printf("steps=");
	int dead = 0;
	size_t dcap = 1 << 16, dlen = 0; char* detail = malloc(dcap); detail[0] = 0;
#define DPR(...) do { if (dlen + 4096 > dcap) { dcap *= 2; detail = realloc(detail, dcap); } dlen += (size_t)snprintf(detail + dlen, dcap - dlen, __VA_ARGS__); } while (0)
	for (int k = 0; k < nsteps && !dead; k++) {
		for (int v = 0; v < nvars; v++) { void* d = step_data(ty, n, evo, kind, seed, scale, k, nsteps, v); memcpy(bufs[v], d, n * (size_t)es); free(d); }
		int ct = sched[k] == 'S' ? SZ_FORCE_SNAPSHOT_COMPRESSION : sched[k] == 'T' ? SZ_FORCE_TEMPORAL_COMPRESSION : SZ_PERIO_TEMPORAL_COMPRESSION;
		unsigned char* bytes = NULL; size_t os = 0;
		int cstep = sz_tsc->currentStep;
		SZ_compress_ts(ct, &bytes, &os);
		uint64_t len = os; wr(p2c[1], &len, 8); wr(p2c[1], bytes, os);
		for (int v = 0; v < nvars; v++) {
			SZ_Variable* var = SZ_getVariable(v + 1);
			uint64_t eh = fnv(var->multisteps->hist_data, n * (size_t)es);
			uint64_t res[8];
			if (!rd(c2p[0], res, sizeof res)) { printf("decoder-died"); dead = 1; break; }
			double me, e; memcpy(&me, &res[2], 8); memcpy(&e, &res[3], 8); uint64_t eb; memcpy(&eb, &e, 8); uint64_t mb; memcpy(&mb, &me, 8);
			/* stream kind of this variable's part: wrapper flag byte is inside the wrapped stream, so report the type only */
			uint64_t ehv = 0; if (res[1]) memcpy(&ehv, (char*)var->multisteps->hist_data + res[4] * (size_t)es, (size_t)es);
			printf("%c%d,%d,%d,%" PRIx64 ",%" PRIx64 ",%" PRIx64 ",%" PRIx64 ",%" PRIx64 ",%zx,%" PRIx64 ",%" PRIx64 ",%" PRIx64 ",%" PRIx64 ",%" PRIx64 ",%x|", sched[k], k, v, var->compressType, eh, res[0], res[1], mb, eb, os, res[4], res[5], res[6], ehv, res[7], cstep);
			fflush(R);
			if (n <= 64) {
				unsigned char* rec = malloc(n * (size_t)es); if (!rd(c2p[0], rec, n * (size_t)es)) { printf("decoder-died"); dead = 1; free(rec); break; }
				/* this variable's part of the step stream: [id][type][dtype][size_t size][bytes], after [4 step][2 count] */
				unsigned char* q = bytes + 6; size_t vs = 0;
				for (int u = 0; u <= v; u++) { q += 3; vs = bytesToSize(q); q += sizeof(size_t); if (u < v) q += vs; }
				unsigned char* inner = q; size_t ilen = vs; unsigned char* unw = NULL;
				size_t md = ty == SZ_FLOAT ? 28 : 36;
				if (n > 20 && is_lossless_compressed_data(q, vs) != -1) {
					ilen = sz_lossless_decompress(is_lossless_compressed_data(q, vs), q, vs, &unw, n * (size_t)es + 4 + md + 8 + 100000); inner = unw;
				}
				DPR("%d;", var->compressType);
				if (n > 20) { size_t hl = 4 + md + 8 + 4 + 4 + 8 + 1 + 8 + 8; if (hl > ilen) hl = ilen; for (size_t i = 0; i < hl; i++) DPR("%02x", inner[i]); } else DPR("-");
				DPR(";");
				for (size_t i = 0; i < n; i++) { uint64_t w = 0; memcpy(&w, (char*)bufs[v] + i * (size_t)es, (size_t)es); DPR("%s%" PRIx64, i ? "," : "", w); }
				DPR(";");
				for (size_t i = 0; i < n; i++) { uint64_t w = 0; memcpy(&w, rec + i * (size_t)es, (size_t)es); DPR("%s%" PRIx64, i ? "," : "", w); }
				DPR(";");
				for (size_t i = 0; i < n; i++) { uint64_t w = 0; memcpy(&w, (char*)var->multisteps->hist_data + i * (size_t)es, (size_t)es); DPR("%s%" PRIx64, i ? "," : "", w); }
				DPR("/");
				free(rec); if (unw) free(unw);
			}
		}
		free(bytes);
	}
	close(p2c[1]);
	int status = 0; waitpid(pid, &status, 0);
	printf(" child=%d detail=%s\n", WIFEXITED(status) ? WEXITSTATUS(status) : -WTERMSIG(status), dlen ? detail : "_");
	free(detail);
	close(c2p[0]);
	for (int v = 0; v < nvars; v++) free(bufs[v]);
	SZ_Finalize(); SZ_Init(NULL);
}

struct op ts_ops[] = { {"ts", op_ts}, {NULL, NULL} };
#endif
