/* szimpl: runs the implementation (libSZ built from /repo's working tree) on a case file.
 * One case per input line "op arg ...", one canonical result line per case on stdout
 * (flushed per line, so that a crash or an exit() inside the library identifies its case).
 * Numbers are hexadecimal, lists comma separated, "_" = empty list.
 */
#include <stdio.h>
#include <stdlib.h>
#include <string.h>
#include <stdint.h>
#include <inttypes.h>
#include "sz.h"
#include <unistd.h>
#include "szimpl.h"
FILE* R;

/* ---------- parsing / printing ---------- */
uint64_t hx(const char* s) { return strtoull(s, NULL, 16); }
int64_t shx(const char* s) { if (s[0] == '-') return -(int64_t)strtoull(s + 1, NULL, 16); return (int64_t)strtoull(s, NULL, 16); }

size_t parse_list(const char* s, uint64_t** out)
{
	if (s[0] == '_' || s[0] == 0) { *out = (uint64_t*)malloc(8); return 0; }
	size_t n = 1; for (const char* p = s; *p; p++) if (*p == ',') n++;
	uint64_t* a = (uint64_t*)malloc(n * sizeof(uint64_t));
	size_t i = 0; const char* p = s;
	while (*p) {
		char* e;
		if (*p == '-') a[i++] = (uint64_t)(-(int64_t)strtoull(p + 1, &e, 16));
		else a[i++] = strtoull(p, &e, 16);
		p = e; if (*p == ',') p++;
	}
	*out = a; return n;
}
void print_bytes(const char* key, const unsigned char* b, size_t n)
{
	printf("%s=", key);
	if (n == 0) { printf("_"); return; }
	for (size_t i = 0; i < n; i++) printf(i ? ",%x" : "%x", b[i]);
}
void print_u64s(const char* key, const uint64_t* a, size_t n)
{
	printf("%s=", key);
	if (n == 0) { printf("_"); return; }
	for (size_t i = 0; i < n; i++) printf(i ? ",%" PRIx64 : "%" PRIx64, a[i]);
}
void print_shex(int64_t v) { if (v < 0) printf("-%" PRIx64, (uint64_t)(-(v + 1)) + 1); else printf("%" PRIx64, (uint64_t)v); }

/* ---------- C13 ---------- */
static void op_be(int argc, char** a)
{
	int w = (int)hx(a[0]); uint64_t v = hx(a[1]);
	unsigned char b[8], b2[8]; uint64_t u = 0; int64_t s = 0; int ok = 1;
	if (w == 2) {
		int16ToBytes_bigEndian(b, (uint16_t)v);
		u = bytesToUInt16_bigEndian(b); s = bytesToInt16_bigEndian(b);
	} else if (w == 4) {
		int32ToBytes_bigEndian(b, (uint32_t)v); intToBytes_bigEndian(b2, (unsigned int)v);
		ok = !memcmp(b, b2, 4);
		u = bytesToUInt32_bigEndian(b); s = bytesToInt32_bigEndian(b);
		if (bytesToInt_bigEndian(b) != (int)s) ok = 0;
	} else {
		int64ToBytes_bigEndian(b, v); longToBytes_bigEndian(b2, v);
		ok = !memcmp(b, b2, 8);
		u = bytesToUInt64_bigEndian(b); s = bytesToInt64_bigEndian(b);
		if (bytesToLong_bigEndian(b) != s) ok = 0;
	}
	print_bytes("bytes", b, w); printf(" u=%" PRIx64 " s=", u); print_shex(s);
	if (!ok) printf(" VARIANTS-DISAGREE");
	printf("\n");
}
static void op_rd(int argc, char** a)
{
	uint64_t* l; size_t n = parse_list(a[0], &l);
	unsigned char b[8], o[8]; for (size_t i = 0; i < n && i < 8; i++) b[i] = (unsigned char)l[i];
	uint64_t u; int64_t s;
	if (n == 2) { u = bytesToUInt16_bigEndian(b); s = bytesToInt16_bigEndian(b); int16ToBytes_bigEndian(o, (uint16_t)u); }
	else if (n == 4) { u = bytesToUInt32_bigEndian(b); s = bytesToInt32_bigEndian(b); int32ToBytes_bigEndian(o, (uint32_t)u); }
	else { u = bytesToUInt64_bigEndian(b); s = bytesToInt64_bigEndian(b); int64ToBytes_bigEndian(o, u); }
	printf("u=%" PRIx64 " s=", u); print_shex(s); printf(" "); print_bytes("bytes", o, n); printf("\n");
	free(l);
}
static void op_fp(int argc, char** a)
{
	int w = (int)hx(a[0]); int se = (int)hx(a[1]); uint64_t bits = hx(a[2]);
	int saved = sysEndianType; sysEndianType = se;
	unsigned char b[8]; uint64_t back;
	if (w == 4) { lfloat f; f.ivalue = (unsigned int)bits; floatToBytes(b, f.value); lfloat g; g.value = bytesToFloat(b); back = g.ivalue; }
	else { ldouble d; d.lvalue = bits; doubleToBytes(b, d.value); ldouble g; g.value = bytesToDouble(b); back = g.lvalue; }
	sysEndianType = saved;
	print_bytes("bytes", b, w); printf(" back=%" PRIx64 "\n", back);
}
static void op_size(int argc, char** a)
{
	int t = (int)hx(a[0]); uint64_t n = hx(a[1]);
	int saved = exe_params->SZ_SIZE_TYPE; exe_params->SZ_SIZE_TYPE = t;
	unsigned char b[8]; sizeToBytes(b, (size_t)n); size_t back = bytesToSize(b);
	exe_params->SZ_SIZE_TYPE = saved;
	print_bytes("bytes", b, t); printf(" back=%zx\n", back);
}
static void op_arr(int argc, char** a)
{
	int w = (int)hx(a[0]); int se = (int)hx(a[1]); int de = (int)hx(a[2]);
	uint64_t* l; size_t n = parse_list(a[3], &l);
	int s1 = sysEndianType, s2 = dataEndianType; sysEndianType = se; dataEndianType = de;
	unsigned char* b = (unsigned char*)malloc(n * w + 8);
	uint64_t* back = (uint64_t*)malloc((n + 1) * 8); size_t nb = n; int have_back = 0;
	if (w == 2) {
		unsigned short* t = (unsigned short*)malloc(n * 2 + 2); for (size_t i = 0; i < n; i++) t[i] = (unsigned short)l[i];
		convertUShortArrayToBytes(t, n, b);
		unsigned char* b2 = (unsigned char*)malloc(n * 2 + 2); convertShortArrayToBytes((short*)t, n, b2);
		if (memcmp(b, b2, n * 2)) { printf("VARIANTS-DISAGREE "); }
		unsigned short* r = convertByteDataToUShortArray(b, n * 2); short* r2 = convertByteDataToShortArray(b, n * 2);
		for (size_t i = 0; i < n; i++) { back[i] = r[i]; if ((unsigned short)r2[i] != r[i]) back[i] = 0xBAD0000; }
		have_back = 1; free(t); free(b2); free(r); free(r2);
	} else if (w == 4) {
		unsigned int* t = (unsigned int*)malloc(n * 4 + 4); for (size_t i = 0; i < n; i++) t[i] = (unsigned int)l[i];
		convertUIntArrayToBytes(t, n, b);
		unsigned char* b2 = (unsigned char*)malloc(n * 4 + 4); convertIntArrayToBytes((int*)t, n, b2);
		if (memcmp(b, b2, n * 4)) { printf("VARIANTS-DISAGREE "); }
		free(t); free(b2);
	} else {
		uint64_t* t = (uint64_t*)malloc(n * 8 + 8); for (size_t i = 0; i < n; i++) t[i] = l[i];
		convertULongArrayToBytes(t, n, b);
		unsigned char* b2 = (unsigned char*)malloc(n * 8 + 8); convertLongArrayToBytes((int64_t*)t, n, b2);
		if (memcmp(b, b2, n * 8)) { printf("VARIANTS-DISAGREE "); }
		free(t); free(b2);
	}
	sysEndianType = s1; dataEndianType = s2;
	print_bytes("bytes", b, n * w);
	if (have_back) { printf(" "); print_u64s("back", back, nb); } else { printf(" "); print_u64s("back", l, n); /* no reader exported for this width */ }
	printf("\n");
	free(b); free(back); free(l);
}
static void op_pack(int argc, char** a)
{
	int k = (int)hx(a[0]); uint64_t* l; size_t n = parse_list(a[1], &l);
	unsigned char* in = (unsigned char*)malloc(n + 1); for (size_t i = 0; i < n; i++) in[i] = (unsigned char)l[i];
	unsigned char* packed = NULL; unsigned char* back = NULL; size_t len = 0;
	if (k == 1) { len = convertIntArray2ByteArray_fast_1b(in, n, &packed); convertByteArray2IntArray_fast_1b(n, packed, len, &back); }
	else if (k == 2) { len = convertIntArray2ByteArray_fast_2b(in, n, &packed); convertByteArray2IntArray_fast_2b(n, packed, len, &back); }
	else { len = convertIntArray2ByteArray_fast_3b(in, n, &packed); convertByteArray2IntArray_fast_3b(n, packed, len, &back); }
	printf("len=%zx ", len); print_bytes("bytes", packed, len); printf(" "); print_bytes("back", back, n); printf("\n");
	free(in); free(l); if (packed) free(packed); if (back) free(back);
}
static void op_dyn(int argc, char** a)
{
	int k = (int)hx(a[0]); uint64_t* l; size_t n = parse_list(a[1], &l);
	unsigned char* in = (unsigned char*)malloc(n + 1); for (size_t i = 0; i < n; i++) in[i] = (unsigned char)l[i];
	unsigned char* packed = NULL;
	size_t len = convertIntArray2ByteArray_fast_dynamic(in, (unsigned char)k, n, &packed);
	printf("len=%zx ", len); print_bytes("bytes", packed, len); printf("\n");
	free(in); free(l); if (packed) free(packed);
}

/* iu <k> <w> <b0> <b1>: the decompressors' inline unpacker of w residual bits at bit k of byte b0 (the snippet of szd_float.c and 113 other
 * sites, with the library's own mask helpers) */
static void op_iu(int argc, char** a)
{
	int kMod8 = (int)hx(a[0]), resiBitsLength = (int)hx(a[1]); unsigned char mid[2] = { (unsigned char)hx(a[2]), (unsigned char)hx(a[3]) };
	int p = 0, resiBits = 0;
	int rightMovSteps = getRightMovingSteps(kMod8, resiBitsLength);
	if (rightMovSteps > 0) {
		int code = getRightMovingCode(kMod8, resiBitsLength);
		resiBits = (mid[p] & code) >> rightMovSteps;
	} else if (rightMovSteps < 0) {
		int code1 = getLeftMovingCode(kMod8);
		int code2 = getRightMovingCode(kMod8, resiBitsLength);
		int leftMovSteps = -rightMovSteps;
		rightMovSteps = 8 - leftMovSteps;
		resiBits = (mid[p] & code1) << leftMovSteps;
		p++;
		resiBits = resiBits | ((mid[p] & code2) >> rightMovSteps);
	} else {
		int code = getRightMovingCode(kMod8, resiBitsLength);
		resiBits = (mid[p] & code);
		p++;
	}
	printf("v=%x adv=%d\n", resiBits, p);
}

/* ---------- dispatch ---------- */

static struct op base_ops[] = {
	{"be", op_be}, {"rd", op_rd}, {"fp", op_fp}, {"size", op_size}, {"arr", op_arr}, {"pack", op_pack}, {"dyn", op_dyn}, {"iu", op_iu},
	{NULL, NULL}
};
extern struct op more_ops[];
#ifdef WITH_TS
extern struct op ts_ops[];
#endif
#ifdef WITH_THR
extern struct op thr_ops[];
#endif
#ifdef WITH_MEM
extern struct op mem_ops[];
#endif
#ifdef WITH_H5
extern struct op h5_ops[];
#endif

/* the library's verification hook (sz.h, -DSZ_VERIF): a no-op unless an op installs a scheduler (ops_thr.c) */
void (*szv_yield_fn)(int) = NULL;
void szv_yield(int point) { if (szv_yield_fn) szv_yield_fn(point); }

/* SZV_HEAP_PRIME=<w>: before every case, allocate and free blocks of many sizes filled with the 32-bit
 * word w, so that the library's next malloc()s of those sizes return memory holding plausible stale values
 * (an uninitialised int field then reads as w) -- the "prior heap contents" of C04 */
static void prime_heap(void)
{
	const char* e = getenv("SZV_HEAP_PRIME");
	if (!e) return;
	uint32_t w = (uint32_t)strtoul(e, NULL, 16);
	enum { NB = 400 }; void* blocks[NB];
	for (int i = 0; i < NB; i++) {
		size_t sz = 16 + 8 * (size_t)(i % 100) + (i >= 300 ? 4096 : 0);
		blocks[i] = malloc(sz);
		for (size_t j = 0; j + 4 <= sz; j += 4) memcpy((char*)blocks[i] + j, &w, 4);
	}
	for (int i = 0; i < NB; i++) free(blocks[i]);
}

/* SZV_STACK_PRIME=<w>: before every case, fill a large region of the stack below main's frame with the 32-bit word w, so that
 * an uninitialised local of the library reads as w (a float or int of that pattern) -- the stack counterpart of SZV_HEAP_PRIME */
void __attribute__((noinline)) prime_stack(void)
{
	const char* e = getenv("SZV_STACK_PRIME");
	if (!e) return;
	uint32_t w = (uint32_t)strtoul(e, NULL, 16);
	volatile uint32_t pad[1 << 18];      /* 1 MiB */
	for (size_t i = 0; i < (1 << 18); i++) pad[i] = w;
	__asm__ volatile("" : : "r"(pad) : "memory");
}

int main(int argc, char** argv)
{
	size_t cap = 1 << 20; char* line = (char*)malloc(cap);
	int saved = dup(1); dup2(2, 1); R = fdopen(saved, "w");
	setvbuf(R, NULL, _IOFBF, 1 << 16);
	harness_init();
	while (1) {
		size_t len = 0; int c;
		while ((c = getchar()) != EOF && c != '\n') {
			if (len + 2 >= cap) { cap *= 2; line = (char*)realloc(line, cap); }
			line[len++] = (char)c;
		}
		line[len] = 0;
		if (c == EOF && len == 0) break;
		if (len == 0 || line[0] == '#') continue;
		char* args[64]; int n = 0; char* save;
		char* tok = strtok_r(line, " ", &save);
		char* opname = tok;
		while ((tok = strtok_r(NULL, " ", &save)) && n < 64) args[n++] = tok;
		int found = 0;
		prime_heap();
		prime_stack();
		for (struct op* o = base_ops; o->name && !found; o++) if (!strcmp(o->name, opname)) { o->fn(n, args); found = 1; }
		for (struct op* o = more_ops; o->name && !found; o++) if (!strcmp(o->name, opname)) { o->fn(n, args); found = 1; }
#ifdef WITH_MEM
		for (struct op* o = mem_ops; o->name && !found; o++) if (!strcmp(o->name, opname)) { o->fn(n, args); found = 1; }
#endif
#ifdef WITH_THR
		for (struct op* o = thr_ops; o->name && !found; o++) if (!strcmp(o->name, opname)) { o->fn(n, args); found = 1; }
#endif
#ifdef WITH_TS
		for (struct op* o = ts_ops; o->name && !found; o++) if (!strcmp(o->name, opname)) { o->fn(n, args); found = 1; }
#endif
#ifdef WITH_H5
		for (struct op* o = h5_ops; o->name && !found; o++) if (!strcmp(o->name, opname)) { o->fn(n, args); found = 1; }
#endif
		if (!found) printf("ERR unknown-op\n");
		fflush(R); fflush(stdout);
	}
	return 0;
}
