#ifndef SZIMPL_H
#define SZIMPL_H
#include <stdint.h>
#include <stddef.h>
struct op { const char* name; void (*fn)(int, char**); };
uint64_t hx(const char* s);
int64_t shx(const char* s);
size_t parse_list(const char* s, uint64_t** out);
void print_bytes(const char* key, const unsigned char* b, size_t n);
void print_u64s(const char* key, const uint64_t* a, size_t n);
void print_shex(int64_t v);
void harness_init(void);
void prime_stack(void);   /* SZV_STACK_PRIME: fill the stack below the caller with a chosen word (call right before entering the library) */
/* result lines go to R (the original stdout); fd 1 is redirected to stderr at start-up so that
   messages printed by the library cannot corrupt the one-line-per-case protocol */
#include <stdio.h>
extern FILE* R;
#define printf(...) fprintf(R, __VA_ARGS__)
/* helpers of ops_more.c shared with ops_ts.c */
struct errstat { size_t viol; size_t first; double maxerr; size_t outside; double amax; };
int elem_size(int ty);
void* make_data(const char* spec, int ty, size_t* n_out);
void parse_dims(const char* s, size_t r[5]);
int init_from_cfg(const char* cfg);
double effective_bound(int ty, const void* data, size_t n, int mode, double absb, double rel, double* minv, double* maxv);
void err_stats(int ty, const void* ori, const void* dec, size_t n, double e, double mn, double mx, struct errstat* st);
#endif
