#ifndef SZIMPL_H
#define SZIMPL_H
#include <stdint.h>
#include <stddef.h>
struct op { const char* name; void (*fn)(int, char**); };
uint64_t hx(const char* s);
int64_t shx(const char* s);
size_t parse_list(const char* s, uint64_t** out);
void print_bytes(const char* key, const unsigned char* b, size_t n);
void print_u64s(const char* key, const uint64_t* a, size_t n);
void print_shex(int64_t v);
void harness_init(void);
/* result lines go to R (the original stdout); fd 1 is redirected to stderr at start-up so that
   messages printed by the library cannot corrupt the one-line-per-case protocol */
#include <stdio.h>
extern FILE* R;
#define printf(...) fprintf(R, __VA_ARGS__)
#endif
