/* C15: concurrent calls of SZ_compress_customize_threadsafe under a chosen schedule.
 *
 * thr <cfg> <schedule> <spec>/<spec>/...
 *   schedule: comma-separated thread ids ("_" = none): each token lets that thread run until its next SZ_VERIF_YIELD point
 *             (tokens of finished threads are skipped); when the tokens are used up the unfinished threads run to
 *             completion in id order.  "free" = no scheduling at all (real concurrency).
 *   spec    : <name>:<type>:<dims>:<mode>:<abs bits>:<rel bits>:<pwr bits>:<kind>:<seed>:<scale bits>
 * Every call is first made alone (library freshly initialised), then all of them concurrently (library freshly
 * initialised); every stream is decompressed afterwards, sequentially.  Per thread: the yield points hit, the
 * parameter block of the (unwrapped) stream, stream and reconstruction digests, alone and concurrent. */
#include <stdio.h>
#include <stdlib.h>
#include <string.h>
#include <stdint.h>
#include <inttypes.h>
#include <pthread.h>
#include <unistd.h>
#include "sz.h"
#include "szimpl.h"

extern void (*szv_yield_fn)(int);
#define MAXT 16
static pthread_mutex_t mu = PTHREAD_MUTEX_INITIALIZER;
static pthread_cond_t cv = PTHREAD_COND_INITIALIZER;
static int turn, nthr, done[MAXT], *sched, nsched, spos, scheduling;
static __thread int my_id = -1;
static char trace[MAXT][512]; static int tlen[MAXT];

static void pick_next(void)
{
	while (spos < nsched) { int t = sched[spos++]; if (t >= 0 && t < nthr && !done[t]) { turn = t; return; } }
	for (int t = 0; t < nthr; t++) if (!done[t]) { turn = t; return; }
	turn = -1;
}
static void thr_yield(int point)
{
	if (my_id < 0) return;
	pthread_mutex_lock(&mu);
	if (tlen[my_id] < 500) tlen[my_id] += snprintf(trace[my_id] + tlen[my_id], 8, "%s%d", tlen[my_id] ? "." : "", point);
	if (scheduling) { pick_next(); pthread_cond_broadcast(&cv); while (turn != my_id) pthread_cond_wait(&cv, &mu); }
	pthread_mutex_unlock(&mu);
}

struct tspec { char name[32]; int ty, mode, kind; size_t r[5]; double absb, rel, pwr, scale; uint64_t seed; void* data; size_t n;
               unsigned char* out; size_t os; int status; int id; };

static void* worker(void* p)
{
	struct tspec* s = p; my_id = s->id;
	if (scheduling) { pthread_mutex_lock(&mu); while (turn != my_id) pthread_cond_wait(&cv, &mu); pthread_mutex_unlock(&mu); }
	sz_params para; memset(&para, 0, sizeof para);
	para.errorBoundMode = s->mode; para.absErrBound = s->absb; para.relBoundRatio = s->rel; para.pw_relBoundRatio = s->pwr;
	s->out = SZ_compress_customize_threadsafe(s->name, &para, s->ty, s->data, s->r[0], s->r[1], s->r[2], s->r[3], s->r[4], &s->os, &s->status);
	pthread_mutex_lock(&mu); done[my_id] = 1; if (scheduling) { pick_next(); pthread_cond_broadcast(&cv); } pthread_mutex_unlock(&mu);
	my_id = -1;
	return NULL;
}

static uint64_t fnv1(const void* p, size_t n) { uint64_t h = 1469598103934665603ULL; for (size_t i = 0; i < n; i++) { h ^= ((const unsigned char*)p)[i]; h *= 1099511628211ULL; } return h; }

static void report(struct tspec* s, const char* tag)
{
	printf(" %s%d=", tag, s->id);
	if (!s->out) { printf("null"); return; }
	/* parameter block of the unwrapped stream */
	unsigned char* inner = s->out; size_t ilen = s->os; unsigned char* unw = NULL;
	size_t es = (size_t)elem_size(s->ty);
	if (s->n > 20 && is_lossless_compressed_data(s->out, s->os) != -1) {
		ilen = sz_lossless_decompress(is_lossless_compressed_data(s->out, s->os), s->out, s->os, &unw, s->n * es + 200000); inner = unw;
	}
	if (s->n > 20 && ilen >= 4 + 36 + 8 + 24) { for (size_t i = 0; i < 4 + 36 + 8 + 24; i++) printf("%02x", inner[i]); } else printf("-");
	if (unw) free(unw);
	void* dec = SZ_decompress(s->ty, s->out, s->os, s->r[0], s->r[1], s->r[2], s->r[3], s->r[4]);
	double mn, mx; double e = effective_bound(s->ty, s->data, s->n, s->mode, s->absb, s->rel, &mn, &mx); struct errstat st; st.viol = (size_t)-1;
	if (dec) err_stats(s->ty, s->data, dec, s->n, e, mn, mx, &st);
	printf(",%" PRIx64 ",%" PRIx64 ",%zx,%zx", fnv1(s->out, s->os), dec ? fnv1(dec, s->n * es) : 0, s->os, s->mode == PW_REL ? 0 : st.viol);
	if (dec) free(dec);
}

static void op_thr(int argc, char** a)
{
	const char* cfg = a[0];
	struct tspec sp[MAXT]; int n = 0;
	char* specs = strdup(a[2]); char* save;
	for (char* t = strtok_r(specs, "/", &save); t && n < MAXT; t = strtok_r(NULL, "/", &save), n++) {
		struct tspec* s = &sp[n]; memset(s, 0, sizeof *s); s->id = n;
		char dims[128]; uint64_t ab, rb, pb, sb;
		sscanf(t, "%31[^:]:%x:%127[^:]:%x:%" SCNx64 ":%" SCNx64 ":%" SCNx64 ":%d:%" SCNx64 ":%" SCNx64, s->name, &s->ty, dims, &s->mode, &ab, &rb, &pb, &s->kind, &s->seed, &sb);
		memcpy(&s->absb, &ab, 8); memcpy(&s->rel, &rb, 8); memcpy(&s->pwr, &pb, 8); memcpy(&s->scale, &sb, 8);
		parse_dims(dims, s->r); s->n = computeDataLength(s->r[0], s->r[1], s->r[2], s->r[3], s->r[4]);
		double off = s->mode == PW_REL ? 3.0 * s->scale : 0.0; uint64_t ob; memcpy(&ob, &off, 8);
		char spec[256]; snprintf(spec, sizeof spec, "g:%d:%" PRIx64 ":%zx:%" PRIx64 ":%" PRIx64, s->kind, s->seed, s->n, sb, ob);
		size_t nn; s->data = make_data(spec, s->ty, &nn);
	}
	free(specs);
	szv_yield_fn = thr_yield;
	/* ---- alone ---- */
	scheduling = 0; nthr = n;
	for (int i = 0; i < n; i++) {
		if (init_from_cfg(cfg) != SZ_SCES) { printf("st=init-failed\n"); szv_yield_fn = NULL; return; }
		memset(done, 0, sizeof done); tlen[i] = 0; trace[i][0] = 0;
		pthread_t th; pthread_create(&th, NULL, worker, &sp[i]); pthread_join(th, NULL);
		report(&sp[i], "a");
		printf(",%s", tlen[i] ? trace[i] : "_");
		if (sp[i].out) free(sp[i].out); sp[i].out = NULL;
		fflush(R);
	}
	/* ---- concurrently ---- */
	if (init_from_cfg(cfg) != SZ_SCES) { printf(" st=init-failed\n"); szv_yield_fn = NULL; return; }
	int toks[4096]; nsched = 0;
	scheduling = strcmp(a[1], "free") != 0;
	if (scheduling && strcmp(a[1], "_")) { char* sc = strdup(a[1]); char* sv; for (char* t = strtok_r(sc, ",", &sv); t && nsched < 4096; t = strtok_r(NULL, ",", &sv)) toks[nsched++] = (int)strtol(t, NULL, 16); free(sc); }
	sched = toks; spos = 0; memset(done, 0, sizeof done);
	for (int i = 0; i < n; i++) { tlen[i] = 0; trace[i][0] = 0; }
	pthread_mutex_lock(&mu); if (scheduling) pick_next(); pthread_mutex_unlock(&mu);
	pthread_t th[MAXT];
	alarm(8);       /* a racing call can corrupt the heap and leave the process stuck in abort(): do not wait for it */
	for (int i = 0; i < n; i++) pthread_create(&th[i], NULL, worker, &sp[i]);
	for (int i = 0; i < n; i++) pthread_join(th[i], NULL);
	alarm(0);
	szv_yield_fn = NULL; scheduling = 0;
	for (int i = 0; i < n; i++) { report(&sp[i], "c"); printf(",%s", tlen[i] ? trace[i] : "_"); fflush(R); if (sp[i].out) free(sp[i].out); free(sp[i].data); }
	printf("\n");
}

struct op thr_ops[] = { {"thr", op_thr}, {NULL, NULL} };
