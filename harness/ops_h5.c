/* C18: operations on the HDF5 filter (compiled only into the szimpl_h5 build, together with
 * hdf5-filter/H5Z-SZ/src/H5Z_SZ.c from /repo's working tree) */
#include <stdlib.h>
#include <string.h>
#include <inttypes.h>
#include <math.h>
#include <unistd.h>
#include "H5Z_SZ.h"
#include "szimpl.h"

void SZ_refreshDimForCdArray(int dataType, size_t old_cd_nelmts, unsigned int *old_cd_values, size_t* new_cd_nelmts, unsigned int **new_cd_values, size_t r5, size_t r4, size_t r3, size_t r2, size_t r1);
int checkCDValuesWithErrors(size_t cd_nelmts, const unsigned int cd_values[]);
extern const H5Z_class2_t H5Z_SZ[1];

static uint64_t dbits(double d) { uint64_t b; memcpy(&b, &d, 8); return b; }
static double bdbl(uint64_t b) { double d; memcpy(&d, &b, 8); return d; }

static void print_words(const char* key, const unsigned int* w, size_t n)
{
	printf("%s=", key); if (n == 0) printf("_");
	for (size_t i = 0; i < n; i++) printf(i ? ",%x" : "%x", w[i]);
}

/* cdset <type> <mode|-> <a> <r> <p> <s> <d0,d1,d2,d3,d4>: what H5Z_sz_set_local records for an HDF5 chunk
 * shape (dims[0] slowest), optionally with the error words of SZ_errConfigToCdArray, then decoded */
static void op_cdset(int argc, char** a)
{
	int ty = (int)hx(a[0]); int with = strcmp(a[1], "-") != 0;
	unsigned int* old = NULL; size_t oldn = 0;
	if (with) SZ_errConfigToCdArray(&oldn, &old, (int)shx(a[1]), bdbl(hx(a[2])), bdbl(hx(a[3])), bdbl(hx(a[4])), bdbl(hx(a[5])));
	uint64_t* d; size_t nd = parse_list(a[6], &d); size_t dd[5] = {0, 0, 0, 0, 0}; for (size_t i = 0; i < nd && i < 5; i++) dd[i] = d[i];
	unsigned int* cd = NULL; size_t n = 0;
	SZ_refreshDimForCdArray(ty, oldn, old, &n, &cd, dd[4], dd[3], dd[2], dd[1], dd[0]);
	int dim = -1, dty = -1, mode = 0; size_t r5 = 0, r4 = 0, r3 = 0, r2 = 0, r1 = 0; double ae = 0, re = 0, pe = 0, ps = 0;
	int we = checkCDValuesWithErrors(n, cd);
	if (we) SZ_cdArrayToMetaDataErr(n, cd, &dim, &dty, &r5, &r4, &r3, &r2, &r1, &mode, &ae, &re, &pe, &ps);
	else SZ_cdArrayToMetaData(n, cd, &dim, &dty, &r5, &r4, &r3, &r2, &r1);
	if (with) { print_words("err", old, oldn); printf(" "); }
	print_words("cd", cd, n);
	printf(" we=%d dim=%x ty=%x r=%zx,%zx,%zx,%zx,%zx", we, dim, dty, r5, r4, r3, r2, r1);
	if (we) { printf(" mode="); print_shex(mode); printf(" dbl=%" PRIx64 ",%" PRIx64 ",%" PRIx64 ",%" PRIx64, dbits(ae), dbits(re), dbits(pe), dbits(ps)); }
	printf("\n");
	free(cd); if (old) free(old); free(d);
}

/* cdcopy <type> <r5,r4,r3,r2,r1>: legacy helper SZ_copymetaDataToCdArray, then the reader */
static void op_cdcopy(int argc, char** a)
{
	int ty = (int)hx(a[0]); uint64_t* d; size_t nd = parse_list(a[1], &d);
	unsigned int cd[16]; memset(cd, 0, sizeof cd); size_t n = 0;
	SZ_copymetaDataToCdArray(&n, cd, ty, d[0], d[1], d[2], d[3], d[4]);
	int dim = -1, dty = -1; size_t r5 = 0, r4 = 0, r3 = 0, r2 = 0, r1 = 0;
	SZ_cdArrayToMetaData(n, cd, &dim, &dty, &r5, &r4, &r3, &r2, &r1);
	print_words("cd", cd, n); printf(" dim=%x ty=%x r=%zx,%zx,%zx,%zx,%zx\n", dim, dty, r5, r4, r3, r2, r1);
	free(d);
}

static hid_t h5type(int ty)
{
	switch (ty) {
	case SZ_FLOAT: return H5T_NATIVE_FLOAT; case SZ_DOUBLE: return H5T_NATIVE_DOUBLE;
	case SZ_UINT8: return H5T_NATIVE_UINT8; case SZ_INT8: return H5T_NATIVE_INT8;
	case SZ_UINT16: return H5T_NATIVE_UINT16; case SZ_INT16: return H5T_NATIVE_INT16;
	case SZ_UINT32: return H5T_NATIVE_UINT32; case SZ_INT32: return H5T_NATIVE_INT32;
	case SZ_UINT64: return H5T_NATIVE_UINT64; default: return H5T_NATIVE_INT64;
	}
}
static int esz(int ty) { switch (ty) { case SZ_FLOAT: return 4; case SZ_DOUBLE: return 8; case SZ_UINT8: case SZ_INT8: return 1; case SZ_UINT16: case SZ_INT16: return 2; case SZ_UINT32: case SZ_INT32: return 4; default: return 8; } }

/* h5rt <type> <dims> <chunk> <mode> <abs bits> <rel bits> <seed>: write a dataset through filter 32017 with the
 * bound settings in cd_values, read it back, report the error statistics against the ABS / REL bound */
static void op_h5rt(int argc, char** a)
{
	int ty = (int)hx(a[0]); uint64_t* dl; size_t rank = parse_list(a[1], &dl); uint64_t* cl; parse_list(a[2], &cl);
	int mode = (int)hx(a[3]); double absb = bdbl(hx(a[4])), rel = bdbl(hx(a[5])); uint64_t seed = hx(a[6]);
	hsize_t dims[5], chunk[5]; size_t n = 1;
	for (size_t i = 0; i < rank; i++) { dims[i] = dl[i]; chunk[i] = cl[i]; n *= dl[i]; }
	int es = esz(ty);
	unsigned char* data = (unsigned char*)malloc(n * es + 8); unsigned char* back = (unsigned char*)malloc(n * es + 8);
	uint64_t s = seed * 2654435761ULL + 7; double lo = 1e300, hi = -1e300;
	for (size_t i = 0; i < n; i++) {
		s = s * 6364136223846793005ULL + 1442695040888963407ULL;
		double v = 100.0 * sin((double)i * 0.07 + (double)(seed % 5)) + 3.0 * ((double)((s >> 33) % 1000) / 1000.0) + 500.0;
		if ((seed & 0x10000) && i < n / 2) v = 77.0;      /* a masked / fill region: whole chunks of one value (tiny constant streams) */
		if (ty == SZ_FLOAT) { float f = (float)v; memcpy(data + i * 4, &f, 4); v = f; }
		else if (ty == SZ_DOUBLE) memcpy(data + i * 8, &v, 8);
		else {
			if (es == 1) v = 60.0 + fmod(v, 60.0);
			int sgn = (ty == SZ_INT8 || ty == SZ_INT16 || ty == SZ_INT32 || ty == SZ_INT64);
			if (sgn && (seed & 0x20000)) v -= (es == 1 ? 90.0 : 500.0);      /* signed element types: data on both sides of zero */
			if (seed & 0x40000) {        /* a value range of exactly 2A in every chunk row (so that a range-relative bound is integral): -A..A signed, shifted above zero for unsigned types */
				double A = es == 1 ? 100.0 : 1000.0;
				double off = sgn ? 0.0 : A + (es == 1 ? 25.0 : 500.0);        /* unsigned: stay clear of 0 and of the type's maximum */
				v = floor(A * sin((double)i * 0.07 + (double)(seed % 5))) + off;
				if (i % 16 == 0) v = off - A;
				if (i % 16 == 1) v = off + A;
			}
			int64_t zi = (int64_t)v; memcpy(data + i * es, &zi, es); v = (double)zi;
		}
		if (v < lo) lo = v; if (v > hi) hi = v;
	}
	char path[600]; const char* dir = getenv("SZV_TMP"); snprintf(path, sizeof path, "%s/szv-h5-%d.h5", dir ? dir : "/var/tmp", (int)getpid());
	H5Zregister(H5Z_SZ);
	unsigned int* cdv = NULL; size_t cdn = 0;
	SZ_errConfigToCdArray(&cdn, &cdv, mode, absb, rel, 0.001, 80.0);
	hid_t f = H5Fcreate(path, H5F_ACC_TRUNC, H5P_DEFAULT, H5P_DEFAULT);
	hid_t sp = H5Screate_simple((int)rank, dims, NULL);
	hid_t pl = H5Pcreate(H5P_DATASET_CREATE);
	H5Pset_chunk(pl, (int)rank, chunk);
	herr_t e1 = H5Pset_filter(pl, H5Z_FILTER_SZ, H5Z_FLAG_MANDATORY, cdn, cdv);
	hid_t ds = H5Dcreate2(f, "d", h5type(ty), sp, H5P_DEFAULT, pl, H5P_DEFAULT);
	herr_t e2 = ds < 0 ? -1 : H5Dwrite(ds, h5type(ty), H5S_ALL, H5S_ALL, H5P_DEFAULT, data);
	/* what the filter recorded for the decoding side (set_local): element type and chunk shape */
	unsigned int rcd[32]; size_t rcn = 32; unsigned int rfl = 0, rcfg = 0; long rtype = -1;
	if (ds >= 0) { hid_t dpl = H5Dget_create_plist(ds); if (dpl >= 0) { if (H5Pget_filter_by_id2(dpl, H5Z_FILTER_SZ, &rfl, &rcn, rcd, 0, NULL, &rcfg) >= 0 && rcn >= 2) rtype = (long)rcd[1]; H5Pclose(dpl); } }
	/* chunks are filtered when they leave the chunk cache: a filter failure surfaces in H5Dclose / H5Fclose, not in H5Dwrite */
	herr_t e4 = ds >= 0 ? H5Dclose(ds) : -1; H5Pclose(pl); H5Sclose(sp); herr_t e5 = H5Fclose(f);
	if (e2 >= 0 && (e4 < 0 || e5 < 0)) e2 = -2;
	f = H5Fopen(path, H5F_ACC_RDONLY, H5P_DEFAULT);
	ds = H5Dopen2(f, "d", H5P_DEFAULT);
	herr_t e3 = ds < 0 ? -1 : H5Dread(ds, h5type(ty), H5S_ALL, H5S_ALL, H5P_DEFAULT, back);
	hsize_t stored = ds < 0 ? 0 : H5Dget_storage_size(ds);
	if (ds >= 0) H5Dclose(ds); H5Fclose(f); unlink(path);
	double e = (mode == REL) ? rel * ((ty == SZ_FLOAT) ? (double)(float)((float)hi - (float)lo) : (hi - lo)) : absb;
	size_t viol = 0, first = 0; double maxerr = 0;
	for (size_t i = 0; i < n && e3 >= 0; i++) {
		double err;
		if (ty == SZ_FLOAT) { float x, y; memcpy(&x, data + i * 4, 4); memcpy(&y, back + i * 4, 4); err = fabsf(x - y); }
		else if (ty == SZ_DOUBLE) { double x, y; memcpy(&x, data + i * 8, 8); memcpy(&y, back + i * 8, 8); err = fabs(x - y); }
		else {
			int sgn = (ty == SZ_INT8 || ty == SZ_INT16 || ty == SZ_INT32 || ty == SZ_INT64);
			uint64_t x = 0, y = 0; memcpy(&x, data + i * es, es); memcpy(&y, back + i * es, es);
			if (sgn && es < 8) { int sh = 64 - 8 * es; x = (uint64_t)(((int64_t)(x << sh)) >> sh); y = (uint64_t)(((int64_t)(y << sh)) >> sh); }
			if (sgn) { int64_t xs = (int64_t)x, ys = (int64_t)y; err = xs > ys ? (double)(xs - ys) : (double)(ys - xs); }
			else err = x > y ? (double)(x - y) : (double)(y - x);
		}
		if (!(err <= e)) { if (!viol) first = i; viol++; }
		if (err > maxerr || err != err) maxerr = err;
	}
	printf("st=%d,%d,%d n=%zx stored=%llx raw=%zx viol=%zx first=%zx maxerr=%" PRIx64 " e=%" PRIx64 " rtype=%ld\n", (int)e1, (int)e2, (int)e3, n,
	       (unsigned long long)stored, n * es, viol, first, dbits(maxerr), dbits(e), rtype);
	free(data); free(back); free(dl); free(cl); free(cdv);
}

struct op h5_ops[] = { {"cdset", op_cdset}, {"cdcopy", op_cdcopy}, {"h5rt", op_h5rt}, {NULL, NULL} };
